#!/bin/bash
# resolve an add/add conflict of known_findings.json by taking the union of the findings lists
git show :3:known_findings.json > /tmp/kf_theirs.json; git show :2:known_findings.json > /tmp/kf_ours.json
python3 - <<'PY'
import json
o=json.load(open('/tmp/kf_ours.json')); t=json.load(open('/tmp/kf_theirs.json'))
# union by (property, site); a `fixed` entry wins over a stale `known` copy of the same site (a stale `known` would
# turn the return of a repaired defect into a KNOWN-FINDING line)
best = {}
order = []
for f in o['findings'] + t['findings']:
    k = (f['property'], f.get('site'))
    if k not in best:
        best[k] = f; order.append(k)
    elif f['status'] == 'fixed' and best[k]['status'] != 'fixed':
        best[k] = f
o['findings'] = [best[k] for k in order]
json.dump(o,open('/verif/known_findings.json','w'),indent=1)
print(len(o['findings']),'findings')
PY
git add known_findings.json
