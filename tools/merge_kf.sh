#!/bin/bash
# resolve an add/add conflict of known_findings.json by taking the union of the findings lists
git show :3:known_findings.json > /tmp/kf_theirs.json; git show :2:known_findings.json > /tmp/kf_ours.json
python3 - <<'PY'
import json
o=json.load(open('/tmp/kf_ours.json')); t=json.load(open('/tmp/kf_theirs.json'))
for f in t['findings']:
    if f not in o['findings']: o['findings'].append(f)
json.dump(o,open('/verif/known_findings.json','w'),indent=1)
print(len(o['findings']),'findings')
PY
git add known_findings.json
