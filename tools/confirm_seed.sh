#!/bin/bash
# usage: confirm_seed.sh <worktree> <name>
# Confirms a seeded change: (1) with the change: builds, all ctest pass, demo FAILS; (2) without: demo PASSES.
# deliver/run_demo.sh must use $REPO_BUILD (cmake build dir) and $REPO_SRC and exit 0 (property holds) / non-zero.
# On success copies patch.diff, demo*, run_demo.sh, meta.json to /verif/seeded/<name>/ and appends the confirmation.
set -u
W=$1; NAME=$2
D=$W/deliver; B=$W/_build
cd $W || exit 2
[ -f $D/run_demo.sh ] || { echo "no run_demo.sh"; exit 2; }
git checkout -q -- src
git apply $D/patch.diff || { echo "patch does not apply"; exit 2; }
cmake -G Ninja -S $W -B $B >/dev/null 2>&1
cmake --build $B -j16 >/dev/null 2>&1 || { echo "BUILD FAILS with change"; exit 2; }
OUT=$(ctest --test-dir $B/src -j16 --timeout 900 2>&1 | tail -5)
SUMMARY=$(echo "$OUT" | grep "tests passed")
echo "with change: $SUMMARY"
echo "$SUMMARY" | grep -q "100% tests passed, 0 tests failed out of 52" || { echo "TESTS DO NOT ALL PASS"; exit 3; }
( cd $D && REPO_BUILD=$B REPO_SRC=$W/src timeout 900 bash run_demo.sh >/tmp/demo_with.log 2>&1 ); RC1=$?
echo "demo with change: rc=$RC1"
git checkout -q -- src
cmake --build $B -j16 >/dev/null 2>&1 || { echo "BUILD FAILS without change"; exit 2; }
( cd $D && REPO_BUILD=$B REPO_SRC=$W/src timeout 900 bash run_demo.sh >/tmp/demo_without.log 2>&1 ); RC2=$?
echo "demo without change: rc=$RC2"
if [ $RC1 -ne 0 ] && [ $RC2 -eq 0 ]; then
  mkdir -p /verif/seeded/$NAME
  # every delivered source file (scripts, C, python, small inputs); not directories, binaries or files > 1 MB
  find $D -maxdepth 1 -type f -size -1024k ! -perm -u+x -exec cp {} /verif/seeded/$NAME/ \; 2>/dev/null
  cp $D/patch.diff $D/run_demo.sh $D/meta.json /verif/seeded/$NAME/ 2>/dev/null
  for f in $D/*.sh $D/*.py $D/*.c $D/*.h; do [ -f "$f" ] && cp "$f" /verif/seeded/$NAME/; done
  python3 - "$NAME" "$SUMMARY" "$RC1" "$RC2" <<'PY'
import json,sys
name,summary,rc1,rc2=sys.argv[1:]
p='/verif/seeded/%s/meta.json'%name
try: m=json.load(open(p))
except Exception: m={}
m['confirmed_by_integrator']={'ctest_with_change':summary.strip(),'demo_rc_with_change':int(rc1),'demo_rc_without_change':int(rc2),
  'how':'tools/confirm_seed.sh in a scratch worktree of /repo (build, ctest in _build/src, run_demo.sh with and without the patch)'}
json.dump(m,open(p,'w'),indent=1)
PY
  echo "CONFIRMED -> /verif/seeded/$NAME"
else
  echo "NOT CONFIRMED"; tail -5 /tmp/demo_with.log /tmp/demo_without.log; exit 4
fi
