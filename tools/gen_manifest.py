#!/usr/bin/env python3
"""writes /verif/MANIFEST.json from the per-property spec modules (checks/cNN.py) and the NA table below"""
import importlib
import json
import os
import sys

VERIF = os.path.dirname(os.path.dirname(os.path.abspath(__file__)))
sys.path.insert(0, VERIF)

# C18 was listed here until round 4 ("a Lean model is a total function and reproducible by construction"); it is now a
# PARTIAL claim (checks/c18.py): the mechanisms that are logic are proved and tied, the runtime clause is only exercised.
NA = {}
PENDING = 'check not built yet in this round (planned, DESIGN.md section 6/10); nothing is claimed for it'

# checks that exist but are being adapted (not claimed until green on the unchanged tree again)
HOLD = {}

ALL = ['C%02d' % i for i in range(1, 21)]


def main():
    checks = []
    na = []
    engines = {}
    for pid in ALL:
        path = os.path.join(VERIF, 'checks', pid.lower() + '.py')
        if pid in NA:
            na.append({'property_id': pid, 'reason': NA[pid]})
            continue
        if pid in HOLD:
            na.append({'property_id': pid, 'reason': HOLD[pid]})
            continue
        if not os.path.exists(path):
            na.append({'property_id': pid, 'reason': PENDING})
            continue
        spec = importlib.import_module('checks.' + pid.lower())
        checks.append({
            'property_id': pid,
            'quick_cmd': './check %s --tier quick' % pid,
            'thorough_cmd': './check %s --tier thorough' % pid,
            'evidence_file': 'evidence/%s.json' % pid,
            'replay_cmd_template': './check %s --replay {path}' % pid,
            'engine': 'lean4-proof+correspondence',
            'level_claimed': {
                'category': 'proof',
                'text': getattr(spec, 'LEVEL_TEXT', spec.EXPLANATION),
                'design_ref': 'DESIGN.md section 6, ' + pid,
            },
            'level_note': getattr(spec, 'LEVEL_NOTE_PREFIX', '') + 'Trusted: Lean 4.33 kernel, axioms propext/Classical.choice/Quot.sound only, '
                          'tools/translate.py, the C harness + compiled Lean driver used for the correspondence, '
                          'gcc/glibc. Modelled, not verified: ' + '; '.join(spec.ASSUMPTIONS),
            'technique': getattr(spec, 'TECHNIQUE', 'Lean 4 theorems over an executable model; model tied to /repo by '
                                                    'translator-regenerated tables and differential correspondence'),
        })
    m = {
        'version': 1,
        'setup_cmd': 'cd lean && lake build Refine refdrv',
        'hooks': {
            'guard': 'NASA_REFINE_VERIF',
            'enable': '-DNASA_REFINE_VERIF is added by checks/common.py when it compiles /repo/src/*.c out of tree '
                      '(objects under /verif/.build/<id>_<pid>/, removed at exit)',
            'baseline_off_cmd': 'cmake --build /repo/_build && ctest --test-dir /repo/_build/src -j8 --timeout 900',
            'source_commits': json.load(open(os.path.join(VERIF, 'hooks.json')))['commits']
            if os.path.exists(os.path.join(VERIF, 'hooks.json')) else [],
            'add_only': True,
        },
        'engines': [{'name': 'lean4-proof+correspondence', 'path': 'check',
                     'serves_properties': [c['property_id'] for c in checks],
                     'kind_free_text': 'Lean 4 kernel-checked theorems about a model (lean/Refine), the model tied to '
                                       'the C by a table/macro translator (tools/translate.py) and by differential '
                                       'execution of harness/*.c against the compiled model driver refdrv'}],
        'checks': checks,
        'not_applicable': na,
        'notes': 'See DESIGN.md. Every check = Stage A (regen + lake build + axiom audit) + Stage B (differential '
                 'correspondence) + Stage C (failing-input search when A or B breaks).',
    }
    with open(os.path.join(VERIF, 'MANIFEST.json'), 'w') as f:
        json.dump(m, f, indent=1)
    print('MANIFEST.json: %d checks, %d not_applicable' % (len(checks), len(na)))


if __name__ == '__main__':
    main()
