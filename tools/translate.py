#!/usr/bin/env python3
"""Translator (tie `T`): regenerates lean/Refine/Gen/*.lean from /repo/src on every run.

Only tables, macros and constants are translated (DESIGN.md 3.3).  Anything
outside the recognised subset raises TranslateError -- a broken obligation,
never a silent skip.

usage: translate.py [--repo /repo] [--out /verif/lean/Refine/Gen] [--check]
Prints one line per generated file: "<file> changed|same".
"""
import os
import re
import sys
import argparse


class TranslateError(Exception):
    pass


def read(repo, rel):
    with open(os.path.join(repo, rel)) as f:
        return f.read()


def strip_comments(src):
    src = re.sub(r'/\*.*?\*/', ' ', src, flags=re.S)
    src = re.sub(r'//[^\n]*', ' ', src)
    return src


# --------------------------------------------------------------------------
# C expression subset -> Lean (Int arithmetic, Int.tdiv for '/')
# --------------------------------------------------------------------------
TOK = re.compile(r'\s*(?:(\d+)|([A-Za-z_][A-Za-z_0-9]*)|(<=|>=|==|!=|&&|\|\||[-+*/%<>?:(),]))')


def tokenize(s):
    pos = 0
    out = []
    s = s.strip()
    while pos < len(s):
        m = TOK.match(s, pos)
        if not m:
            raise TranslateError('cannot tokenize %r at %d' % (s, pos))
        if m.group(1):
            out.append(('num', m.group(1)))
        elif m.group(2):
            out.append(('id', m.group(2)))
        else:
            out.append(('op', m.group(3)))
        pos = m.end()
    return out


class ExprParser:
    """precedence: ?: < || < && < ==,!= < <,<=,>,>= < +,- < *,/,% < unary < primary"""

    def __init__(self, toks, funcs, params):
        self.t = toks
        self.i = 0
        self.funcs = funcs  # names callable
        self.params = params

    def peek(self):
        return self.t[self.i] if self.i < len(self.t) else ('eof', '')

    def eat(self, kind=None, val=None):
        tk = self.peek()
        if (kind and tk[0] != kind) or (val and tk[1] != val):
            raise TranslateError('expected %s %s got %s' % (kind, val, tk))
        self.i += 1
        return tk

    def parse(self):
        e = self.ternary()
        if self.peek()[0] != 'eof':
            raise TranslateError('trailing tokens %s' % (self.t[self.i:],))
        return e

    def ternary(self):
        c = self.lor()
        if self.peek() == ('op', '?'):
            self.eat()
            a = self.ternary()
            self.eat('op', ':')
            b = self.ternary()
            return ('ite', c, a, b)
        return c

    def binl(self, sub, ops):
        e = sub()
        while self.peek()[0] == 'op' and self.peek()[1] in ops:
            op = self.eat()[1]
            r = sub()
            e = ('bin', op, e, r)
        return e

    def lor(self):
        return self.binl(self.land, ('||',))

    def land(self):
        return self.binl(self.eq, ('&&',))

    def eq(self):
        return self.binl(self.rel, ('==', '!='))

    def rel(self):
        return self.binl(self.add, ('<', '<=', '>', '>='))

    def add(self):
        return self.binl(self.mul, ('+', '-'))

    def mul(self):
        return self.binl(self.unary, ('*', '/', '%'))

    def unary(self):
        if self.peek() == ('op', '-'):
            self.eat()
            return ('neg', self.unary())
        return self.primary()

    def primary(self):
        tk = self.peek()
        if tk[0] == 'num':
            self.eat()
            return ('num', tk[1])
        if tk[0] == 'id':
            self.eat()
            if self.peek() == ('op', '('):
                self.eat()
                args = []
                if self.peek() != ('op', ')'):
                    args.append(self.ternary())
                    while self.peek() == ('op', ','):
                        self.eat()
                        args.append(self.ternary())
                self.eat('op', ')')
                if tk[1] not in self.funcs:
                    raise TranslateError('call to unknown macro %s' % tk[1])
                return ('call', tk[1], args)
            if tk[1] not in self.params:
                raise TranslateError('free identifier %s' % tk[1])
            return ('var', tk[1])
        if tk == ('op', '('):
            self.eat()
            # a cast such as (REF_INT)(...) : drop it (modelled: unbounded Int)
            if self.peek()[0] == 'id' and self.peek()[1] in ('REF_INT', 'REF_GLOB', 'REF_LONG') \
                    and self.t[self.i + 1] == ('op', ')'):
                self.eat()
                self.eat('op', ')')
                return self.unary()
            e = self.ternary()
            self.eat('op', ')')
            return e
        raise TranslateError('unexpected token %s' % (tk,))


def lean_int(e):
    k = e[0]
    if k == 'num':
        return e[1]
    if k == 'var':
        return e[1]
    if k == 'neg':
        return '(-%s)' % lean_int(e[1])
    if k == 'call':
        return '(%s %s)' % (e[1], ' '.join(lean_int(a) for a in e[2]))
    if k == 'ite':
        return '(if %s then %s else %s)' % (lean_bool(e[1]), lean_int(e[2]), lean_int(e[3]))
    if k == 'bin':
        op, a, b = e[1], e[2], e[3]
        if op in ('+', '-', '*'):
            return '(%s %s %s)' % (lean_int(a), op, lean_int(b))
        if op == '/':
            return '(Int.tdiv %s %s)' % (lean_int(a), lean_int(b))
        if op == '%':
            return '(Int.tmod %s %s)' % (lean_int(a), lean_int(b))
        raise TranslateError('boolean operator %s in integer position' % op)
    raise TranslateError('bad expr %s' % (e,))


def lean_bool(e):
    if e[0] == 'bin':
        op, a, b = e[1], e[2], e[3]
        if op in ('<', '<=', '>', '>='):
            return '(%s %s %s)' % (lean_int(a), {'<': '<', '<=': '≤', '>': '>', '>=': '≥'}[op], lean_int(b))
        if op == '==':
            return '(%s = %s)' % (lean_int(a), lean_int(b))
        if op == '!=':
            return '(%s ≠ %s)' % (lean_int(a), lean_int(b))
        if op == '&&':
            return '(%s ∧ %s)' % (lean_bool(a), lean_bool(b))
        if op == '||':
            return '(%s ∨ %s)' % (lean_bool(a), lean_bool(b))
    raise TranslateError('integer expression in boolean position: %s' % (e,))


HEADER = """/-
  GENERATED by /verif/tools/translate.py from %s -- do not edit.
  Regenerated from /repo's working tree on every check run (DESIGN.md 3.3).
-/
"""


# --------------------------------------------------------------------------
# ref_part.h macros
# --------------------------------------------------------------------------
def gen_part_macros(repo):
    src = strip_comments(read(repo, 'src/ref_part.h'))
    src = src.replace('\\\n', ' ')
    wanted = ['ref_part_large_part_size', 'ref_part_small_part_size', 'ref_part_n_large_part',
              'ref_part_first', 'ref_part_large_implicit', 'ref_part_total_large',
              'ref_part_small_implicit', 'ref_part_implicit']
    defs = {}
    for m in re.finditer(r'#define\s+(ref_part_\w+)\(([^)]*)\)\s+(.*)', src):
        defs[m.group(1)] = ([p.strip() for p in m.group(2).split(',')], m.group(3).strip())
    out = [HEADER % 'src/ref_part.h', 'namespace Refine.Gen.PartMacros', '']
    known = set()
    # emit in dependency order: iterate until all wanted are emitted
    pending = list(wanted)
    guard = 0
    while pending:
        guard += 1
        if guard > 50:
            raise TranslateError('cyclic or unresolved ref_part macros: %s' % pending)
        name = pending.pop(0)
        if name not in defs:
            raise TranslateError('macro %s not found in ref_part.h' % name)
        params, body = defs[name]
        try:
            e = ExprParser(tokenize(body), known, set(params)).parse()
        except TranslateError as ex:
            if 'unknown macro' in str(ex) and any(p in str(ex) for p in pending):
                pending.append(name)
                continue
            raise
        out.append('/-- C: `#define %s(%s) %s` -/' % (name, ', '.join(params), re.sub(r'\s+', ' ', body)))
        out.append('def %s (%s : Int) : Int :=\n  %s\n' % (name, ' '.join(params), lean_int(e)))
        known.add(name)
    out.append('end Refine.Gen.PartMacros')
    return '\n'.join(out) + '\n'


# --------------------------------------------------------------------------
# ref_cell_initialize tables
# --------------------------------------------------------------------------
CELL_TYPES = ['EDG', 'ED2', 'ED3', 'TRI', 'TR2', 'TR3', 'QUA', 'QU2',
              'TET', 'PYR', 'PRI', 'HEX', 'TE2', 'PY2', 'PR2', 'HE2']


def function_body(src, name):
    m = re.search(r'\b%s\s*\([^)]*\)\s*\{' % re.escape(name), src)
    if not m:
        raise TranslateError('function %s not found' % name)
    i = m.end()
    depth = 1
    while depth:
        c = src[i]
        if c == '{':
            depth += 1
        elif c == '}':
            depth -= 1
        i += 1
    return src[m.end():i - 1]


def split_switches(body):
    """yield (switch_text) for every top-level `switch (...) { ... }` in body"""
    i = 0
    while True:
        m = re.compile(r'switch\s*\([^{;]*?\)\s*\{').search(body, i)
        if not m:
            return
        j = m.end()
        depth = 1
        while depth:
            if body[j] == '{':
                depth += 1
            elif body[j] == '}':
                depth -= 1
            j += 1
        yield body[m.end():j - 1]
        i = j


def parse_switch(text):
    """-> list of (labels, [statements]) ; labels may contain 'default'"""
    groups = []
    labels = []
    stmts = []
    pos = 0
    text = text.strip()
    pat = re.compile(r'\s*(case\s+(\w+)\s*:|default\s*:|break\s*;|return\s+\w+\s*;|[^;:]+;)', re.S)
    fresh = True
    while pos < len(text):
        m = pat.match(text, pos)
        if not m:
            raise TranslateError('cannot parse switch at: %r' % text[pos:pos + 60])
        s = m.group(1).strip()
        pos = m.end()
        if s.startswith('case'):
            if not fresh:
                raise TranslateError('fall-through into case %s after statements' % m.group(2))
            labels.append(m.group(2))
        elif s.startswith('default'):
            if not fresh:
                raise TranslateError('fall-through into default after statements')
            labels.append('default')
        elif s.startswith('break') or s.startswith('return'):
            if s.startswith('return'):
                stmts.append(s)
            groups.append((labels, stmts))
            labels, stmts, fresh = [], [], True
        else:
            fresh = False
            stmts.append(re.sub(r'\s+', ' ', s))
    if labels or stmts:
        raise TranslateError('switch group without break: %s' % labels)
    return groups


def gen_cell_tables(repo):
    src = strip_comments(read(repo, 'src/ref_cell.c'))
    body = function_body(src, 'ref_cell_initialize')
    T = {t: {'last_id': None, 'node_per': None, 'edge_per': None, 'face_per': None,
             'e2n': {}, 'f2n': {}} for t in CELL_TYPES}
    # the statement before the first switch
    pre = body[:body.index('switch')]
    m = re.search(r'ref_cell_last_node_is_an_id\(ref_cell\)\s*=\s*(REF_TRUE|REF_FALSE)\s*;', pre)
    default_last = (m.group(1) == 'REF_TRUE') if m else None
    nsw = 0
    for sw in split_switches(body):
        nsw += 1
        for labels, stmts in parse_switch(sw):
            types = []
            for lab in labels:
                if lab == 'default':
                    continue
                if not lab.startswith('REF_CELL_') or lab[9:] not in T:
                    raise TranslateError('unknown case label %s' % lab)
                types.append(lab[9:])
            default_group = 'default' in labels
            for st in stmts:
                if st.startswith('return'):
                    if not default_group:
                        raise TranslateError('return inside non-default case: %s' % st)
                    continue
                mm = re.fullmatch(r'ref_cell_last_node_is_an_id\(ref_cell\) = (REF_TRUE|REF_FALSE);', st)
                if mm:
                    for t in types:
                        T[t]['last_id'] = mm.group(1) == 'REF_TRUE'
                    continue
                mm = re.fullmatch(r'ref_cell_(node|edge|face)_per\(ref_cell\) = (\d+);', st)
                if mm:
                    if default_group and not types:
                        # default: edge_per = 0 for unknown types; irrelevant for the 16 known
                        continue
                    for t in types:
                        T[t][mm.group(1) + '_per'] = int(mm.group(2))
                    continue
                mm = re.fullmatch(r'ref_cell_(e2n|f2n)_gen\(ref_cell, (\d+), (\d+)\) = (.+);', st)
                if mm:
                    tab, i, j, rhs = mm.group(1), int(mm.group(2)), int(mm.group(3)), mm.group(4).strip()
                    for t in types:
                        if re.fullmatch(r'\d+', rhs):
                            v = int(rhs)
                        else:
                            r2 = re.fullmatch(r'ref_cell_%s_gen\(ref_cell, (\d+), (\d+)\)' % tab, rhs)
                            if not r2:
                                raise TranslateError('unsupported table rhs: %s' % st)
                            key = (int(r2.group(1)), int(r2.group(2)))
                            if key not in T[t][tab]:
                                raise TranslateError('table rhs read before write: %s' % st)
                            v = T[t][tab][key]
                        T[t][tab][(i, j)] = v
                    continue
                raise TranslateError('unsupported statement in ref_cell_initialize: %r' % st)
    if nsw != 6:
        raise TranslateError('expected 6 switches in ref_cell_initialize, found %d' % nsw)
    out = [HEADER % 'src/ref_cell.c (ref_cell_initialize)', 'namespace Refine.Gen.CellTables', '',
           'structure CellType where', '  name : String', '  lastNodeIsId : Bool', '  nodePer : Nat',
           '  edgePer : Nat', '  facePer : Nat', '  e2n : List (List Nat)', '  f2n : List (List Nat)',
           '  deriving Repr, DecidableEq', '']
    for t in CELL_TYPES:
        d = T[t]
        if d['last_id'] is None:
            d['last_id'] = default_last
        for k in ('last_id', 'node_per', 'edge_per', 'face_per'):
            if d[k] is None:
                raise TranslateError('%s: %s never assigned' % (t, k))
        e2n = []
        for e in range(d['edge_per']):
            row = []
            for i in range(2):
                if (i, e) not in d['e2n']:
                    raise TranslateError('%s: e2n(%d,%d) never assigned' % (t, i, e))
                row.append(d['e2n'][(i, e)])
            e2n.append(row)
        extra = [k for k in d['e2n'] if k[1] >= d['edge_per'] or k[0] >= 2]
        if extra:
            raise TranslateError('%s: e2n entries out of range: %s' % (t, extra))
        f2n = []
        for f in range(d['face_per']):
            row = []
            for i in range(4):
                if (i, f) not in d['f2n']:
                    raise TranslateError('%s: f2n(%d,%d) never assigned' % (t, i, f))
                row.append(d['f2n'][(i, f)])
            f2n.append(row)
        extra = [k for k in d['f2n'] if k[1] >= d['face_per'] or k[0] >= 4]
        if extra:
            raise TranslateError('%s: f2n entries out of range: %s' % (t, extra))
        out.append('def %s : CellType :=\n  { name := "%s", lastNodeIsId := %s, nodePer := %d, edgePer := %d, facePer := %d,\n'
                   '    e2n := %s,\n    f2n := %s }\n' %
                   (t.lower(), t.lower(), 'true' if d['last_id'] else 'false', d['node_per'], d['edge_per'],
                    d['face_per'], lean_list2(e2n), lean_list2(f2n)))
    out.append('def all : List CellType := [%s]\n' % ', '.join(t.lower() for t in CELL_TYPES))
    out.append('end Refine.Gen.CellTables')
    return '\n'.join(out) + '\n'


def lean_list2(rows):
    return '[' + ', '.join('[' + ', '.join(str(x) for x in r) + ']' for r in rows) + ']'


# --------------------------------------------------------------------------
# ref_endian.h byte-swap macros
# --------------------------------------------------------------------------
def gen_endian(repo):
    src = strip_comments(read(repo, 'src/ref_endian.h')).replace('\\\n', ' ')
    out = [HEADER % 'src/ref_endian.h', 'namespace Refine.Gen.Endian', '']
    widths = {'SWAP_INT': 4, 'SWAP_LONG': 8, 'SWAP_DBL': 8}
    for name, width in widths.items():
        m = re.search(r'#define\s+%s\(x\)\s+\{(.*?)\}' % name, src, re.S)
        if not m:
            raise TranslateError('macro %s not found in ref_endian.h' % name)
        body = m.group(1)
        stmts = [x.strip() for x in body.split(';') if x.strip()]
        perm = {}
        for st in stmts:
            st = re.sub(r'\s+', ' ', st)
            if re.fullmatch(r'(int|long|double) y', st):
                continue
            if st in ('char *xp = (char *)&(x)', 'char *yp = (char *)&(y)', '(x) = y'):
                continue
            mm = re.fullmatch(r'\*\(yp \+ (\d+)\) = \*\(xp \+ (\d+)\)', st)
            if not mm:
                raise TranslateError('unsupported statement in %s: %r' % (name, st))
            dst, srcb = int(mm.group(1)), int(mm.group(2))
            if dst in perm:
                raise TranslateError('%s writes byte %d twice' % (name, dst))
            perm[dst] = srcb
        if sorted(perm) != list(range(width)):
            raise TranslateError('%s does not write bytes 0..%d exactly once: %s' % (name, width - 1, sorted(perm)))
        out.append('/-- `%s`: output byte `i` is input byte `%s[i]` -/' % (name, name.lower()))
        out.append('def %s : List Nat := [%s]\n' % (name.lower(), ', '.join(str(perm[i]) for i in range(width))))
    out.append('end Refine.Gen.Endian')
    return '\n'.join(out) + '\n'


GENERATORS = {
    'PartMacros.lean': gen_part_macros,
    'CellTables.lean': gen_cell_tables,
    'Endian.lean': gen_endian,
}


def register(name):
    def deco(f):
        GENERATORS[name] = f
        return f
    return deco


def main():
    ap = argparse.ArgumentParser()
    ap.add_argument('--repo', default='/repo')
    ap.add_argument('--out', default=os.path.join(os.path.dirname(os.path.dirname(os.path.abspath(__file__))),
                                                  'lean', 'Refine', 'Gen'))
    ap.add_argument('--only', default=None)
    args = ap.parse_args()
    # late import of additional generators (translate_more.py registers into GENERATORS)
    try:
        import translate_more  # noqa: F401
        translate_more.install(GENERATORS, sys.modules[__name__])
    except ImportError:
        pass
    # additive: every tools/translate_more_<pkg>.py exposing install(GENERATORS, T) is loaded too
    import glob
    import importlib
    sys.path.insert(0, os.path.dirname(os.path.abspath(__file__)))
    for path in sorted(glob.glob(os.path.join(os.path.dirname(os.path.abspath(__file__)), 'translate_more_*.py'))):
        importlib.import_module(os.path.basename(path)[:-3]).install(GENERATORS, sys.modules[__name__])
    rc = 0
    for fname, gen in GENERATORS.items():
        if args.only and fname != args.only:
            continue
        try:
            text = gen(args.repo)
        except TranslateError as ex:
            print('%s ERROR %s' % (fname, ex))
            rc = 2
            continue
        path = os.path.join(args.out, fname)
        old = None
        if os.path.exists(path):
            with open(path) as f:
                old = f.read()
        if old != text:
            with open(path, 'w') as f:
                f.write(text)
            print('%s changed' % fname)
        else:
            print('%s same' % fname)
    return rc


if __name__ == '__main__':
    sys.exit(main())
