#!/bin/bash
# regenerates the table between the SEED-TABLE markers of DESIGN.md from seeded/*/{meta,detect}.json
V=$(cd "$(dirname "$0")/.." && pwd)
python3 - "$V" <<'PY'
import subprocess,sys
v=sys.argv[1]
s=open(v+'/DESIGN.md').read()
t=subprocess.run(['python3',v+'/tools/seed_table.py'],capture_output=True,text=True).stdout
a=s.index('<!-- SEED-TABLE-BEGIN -->')+len('<!-- SEED-TABLE-BEGIN -->'); b=s.index('<!-- SEED-TABLE-END -->')
s=s[:a]+'\n'+t+s[b:]
t2=subprocess.run(['python3',v+'/tools/status_table.py'],capture_output=True,text=True).stdout
a=s.index('<!-- STATUS-TABLE-BEGIN -->')+len('<!-- STATUS-TABLE-BEGIN -->'); b=s.index('<!-- STATUS-TABLE-END -->')
open(v+'/DESIGN.md','w').write(s[:a]+'\n'+t2+s[b:])
PY
