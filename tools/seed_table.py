#!/usr/bin/env python3
"""prints the markdown table of DESIGN.md section 12 from seeded/*/meta.json and seeded/*/detect.json"""
import json, os, glob
V = os.path.dirname(os.path.dirname(os.path.abspath(__file__)))
print('| seeded change | property | what it changes (needs to manifest) | check result (quick tier) | how it is seen |')
print('|---|---|---|---|---|')
for d in sorted(glob.glob(os.path.join(V, 'seeded', '*'))):
    n = os.path.basename(d)
    try:
        m = json.load(open(os.path.join(d, 'meta.json')))
    except Exception:
        continue
    det = {}
    p = os.path.join(d, 'detect.json')
    if os.path.exists(p):
        det = json.load(open(p))
    s = (m.get('summary') or '').replace('\n', ' ').replace('|', '/')
    s = s[:170] + ('…' if len(s) > 170 else '')
    if not det:
        res, how = 'not run yet', ''
    elif det['rc'] == 0:
        res, how = '**missed**', ''
    else:
        v = [l for l in det['lines'] if l.startswith('VIOLATION')]
        nf = all('no-failing-input-found' in l for l in v) if v else False
        res = 'caught (exit 1, %d VIOLATION line%s%s)' % (len(v), '' if len(v) == 1 else 's', ', no-failing-input-found' if nf else ', with failing input')
        how = '; '.join(w.split('] ', 1)[-1] for w in det.get('why', [])[:2]).replace('|', '/')[:200]
    print('| `%s` | %s | %s | %s | %s |' % (n, m.get('property', '?'), s, res, how))
