#!/bin/bash
# usage: tools/seed_sweep.sh "<seeds>" [parallel] [quick|thorough]   -- every registered check at each seed on the unchanged tree; one line per run.
# Meant for `vp run -- tools/seed_sweep.sh "6 7 8" 2`: hunts alarms that only some seeds raise (each is a false alarm or a finding).
SEEDS=${1:-"2 3"}; P=${2:-2}; export SWEEP_TIER=${3:-quick}
V=$(cd "$(dirname "$0")/.." && pwd); cd $V
[ -d lean/.lake ] || (cd lean && lake build Refine refdrv > /dev/null 2>&1)
IDS=$(python3 -c "import json;print(' '.join(c['property_id'] for c in json.load(open('MANIFEST.json'))['checks']))")
for s in $SEEDS; do for c in $IDS; do echo "$s $c"; done; done | xargs -P $P -L1 sh -c 'R=$(VERIF_SEED=$0 ./check $1 --tier $SWEEP_TIER 2>/dev/null | grep "^OK\|^VIOLATION" | tr "\n" " " | cut -c1-200); echo "seed=$0 $1 $R"'
