#!/bin/bash
# usage: seed_matrix.sh [-j N] [-t tier] [seed-name ...]      (default: every directory of /verif/seeded)
# Runs, for every seeded change, the check of the property it breaks against a scratch copy of /repo/src with the
# patch applied (VERIF_REPO), in a private clone of /verif (own lean/.lake, own Gen files), so that several run at once
# and nothing in /verif or /repo is touched.  Result: seeded/<name>/detect.json  {check, tier, rc, lines, wall_s}.
# The recorded runs of DESIGN.md section 12 come from this script; evidence files are never written from it.
J=4; TIER=quick
while getopts "j:t:" o; do case $o in j) J=$OPTARG;; t) TIER=$OPTARG;; esac; done; shift $((OPTIND-1))
V=$(cd "$(dirname "$0")/.." && pwd)
NAMES="$@"; [ -z "$NAMES" ] && NAMES=$(ls $V/seeded)
one() {
  N=$1; V=$2; TIER=$3
  ID=$(python3 -c "import json;print(json.load(open('$V/seeded/$N/meta.json'))['property'])")
  W=/tmp/sm_$$/$N; mkdir -p $W/repo
  cp -r /repo/src $W/repo/src
  ( cd $W/repo && patch -p1 -s < $V/seeded/$N/patch.diff ) || { echo "$N patch-failed"; rm -rf $W; return; }
  git clone -q $V $W/verif
  # working-tree state of /verif (uncommitted edits included), minus build output
  rsync -a --exclude .git --exclude .build --exclude replays --exclude 'lean/.lake' $V/ $W/verif/
  cp -r $V/lean/.lake $W/verif/lean/.lake
  T0=$(date +%s)
  ( cd $W/verif && VERIF_REPO=$W/repo timeout 3600 ./check $ID --tier $TIER > $W/out.txt 2> $W/err.txt ); RC=$?
  T1=$(date +%s)
  python3 - "$N" "$ID" "$TIER" "$RC" "$((T1-T0))" "$W" "$V" <<'PY'
import json,sys,os,glob
n,i,tier,rc,wall,w,v=sys.argv[1:]
out=open(w+'/out.txt').read().splitlines()
err=open(w+'/err.txt').read().splitlines()
lines=[l for l in out if l.startswith(('VIOLATION','KNOWN','OK'))]
why=[l for l in err if 'oracle' in l or 'diff at' in l or 'no longer' in l or 'obligation' in l][:8]
json.dump({'check':i,'tier':tier,'rc':int(rc),'lines':lines,'why':why,'wall_s':int(wall)},open(v+'/seeded/%s/detect.json'%n,'w'),indent=1)
print(n,i,'rc='+rc,(lines or ['-'])[0][:150])
PY
  rm -rf $W
}
export -f one
echo $NAMES | tr ' ' '\n' | xargs -P $J -I{} bash -c "one {} $V $TIER"
rmdir /tmp/sm_$$ 2>/dev/null
