#!/usr/bin/env python3
"""prints the as-built status table of DESIGN.md section 11 (between the STATUS-TABLE markers) from checks/cNN.py and evidence/*.json"""
import importlib, json, os, sys
V = os.path.dirname(os.path.dirname(os.path.abspath(__file__)))
sys.path.insert(0, V)
print('| id | Lean property modules | theorems audited | streams (diff / validate / oracle) | evaluations in the last quick run | wall s |')
print('|---|---|---|---|---|---|')
for i in range(1, 21):
    pid = 'C%02d' % i
    p = os.path.join(V, 'checks', pid.lower() + '.py')
    if not os.path.exists(p):
        print('| %s | – | – | not claimed (see MANIFEST not_applicable) | – | – |' % pid)
        continue
    spec = importlib.import_module('checks.' + pid.lower())
    mods = spec.PROPS_MODULE if isinstance(spec.PROPS_MODULE, list) else [spec.PROPS_MODULE]
    kinds = {'diff': [], 'validate': [], 'oracle': []}
    for s in spec.STREAMS:
        kinds.setdefault(s.kind, []).append(s.name + ('[np=%s]' % ','.join(map(str, s.np)) if s.np else ''))
    ev = {}
    try:
        ev = json.load(open(os.path.join(V, 'evidence', pid + '.json')))
    except Exception:
        pass
    cov = ev.get('coverage', {})
    print('| %s | %s | %s/%s | %s | %s | %s |' % (
        pid, ', '.join(m.replace('Refine.Props.', '') for m in mods), cov.get('discharged', '?'), cov.get('obligations', '?'),
        ' / '.join('; '.join(kinds[k]) or '–' for k in ('diff', 'validate', 'oracle')), cov.get('evaluations', '?'), ev.get('wall_s', '?')))
