#!/bin/bash
# usage: try_mut.sh <check id> <file> <python-regex-old> <new>  [tier] -- runs a check against a scratch copy with one substitution
ID=$1; F=$2; OLD=$3; NEW=$4; TIER=${5:-quick}
M=/tmp/mut_$$; mkdir -p $M; cp -r /repo/src $M/src
python3 - "$M/src/$F" "$OLD" "$NEW" <<'PY' || { rm -rf $M; exit 2; }
import sys,re
p,old,new=sys.argv[1:]
s=open(p).read()
n=len(re.findall(old,s))
if n!=1:
    print('pattern matches %d times'%n); sys.exit(2)
open(p,'w').write(re.sub(old,new,s,count=1))
PY
cd /verif && VERIF_REPO=$M ./check $ID --tier $TIER 2>&1 | tail -4; RC=${PIPESTATUS[0]}
rm -rf $M
python3 /verif/tools/translate.py --repo /repo >/dev/null
echo "rc=$RC"
