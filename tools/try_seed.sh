#!/bin/bash
# usage: try_seed.sh <seeded-name> <check id> [tier]  -- runs a check against a scratch copy of /repo/src with the seeded patch
# (used while other work is building from /repo; the recorded runs apply the patch to /repo itself).
# The evidence file of the check is saved and restored: evidence must only ever describe runs against /repo.
N=$1; ID=$2; TIER=${3:-quick}
V=$(cd "$(dirname "$0")/.." && pwd)
M=/tmp/mut_$$; mkdir -p $M; cp -r /repo/src $M/src; cp /repo/.clang-format $M/ 2>/dev/null
( cd $M && git init -q . 2>/dev/null; patch -p1 -s < $V/seeded/$N/patch.diff ) || { echo "patch failed"; rm -rf $M; exit 2; }
cd $V
[ -f evidence/$ID.json ] && cp evidence/$ID.json $M/evidence_saved.json
VERIF_REPO=$M ./check $ID --tier $TIER; RC=$?
[ -f $M/evidence_saved.json ] && cp $M/evidence_saved.json evidence/$ID.json
rm -rf $M
# restore generated files for the real repo
python3 $V/tools/translate.py --repo /repo >/dev/null
echo "rc=$RC"
