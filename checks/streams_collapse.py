"""streams for the collapse guards / ref_collapse_to_remove_node1 (harness h_collapse, driver collapse; C13, C01).

op line:  <op> n0 n1 twod <cqa> <pmin> <pmax> <minvol> nn { <x> <y> <z> flags <m0..m5> <l0..l5> }*nn nc <cells>
cells:    edg a b id | tri a b c id | qua a b c d id | tet a b c d | pyr x5 | pri x6 | hex x8
flags:    bit0 ghost (not owned), bit1 CAD-edge association (op `cad`)

Generators: jittered Kuhn bricks (interior and boundary vertex stars, 3-D) and triangulated squares (2-D, twod=1)
with boundary elements and patch ids, vertices pushed to within 1e-16..1e-9 of the position where a tet / tri created
by the collapse degenerates or inverts, extra cells that the collapse would duplicate, ghost vertices in the stars of
node0 / node1, mixed-element neighbours, thresholds around the defaults of ref_adapt / ref_node, isotropic /
anisotropic / full metrics; random small cell soups for the topological guards (error branches included); malformed
lines.

Oracles (exact rationals on the implementation's own output, independent of the Lean model): after an accepted
collapse (ref_collapse_to_remove_node1) on a locally valid input, the star of node0 is valid -- no repeated vertex, no
duplicate cell, every face with node0 in two cells or one cell + one boundary element, every new cell of positive
volume / orientation -- and node1 is referenced by nothing; after a refusal the cells are those of the op line.
Guard by guard: `manifold` allowed => the substitution creates no duplicate; `tetq` allowed => every substituted tet has
positive exact volume and at most one boundary face; `triq` / `twodo` allowed => positive orientation in 2-D;
`local` <=> every vertex of every tet / tri around node0 and node1 is owned.
"""
import math
import struct
from collections import Counter
from fractions import Fraction

from .common import Stream

NP = {'edg': 2, 'tri': 3, 'qua': 4, 'tet': 4, 'pyr': 5, 'pri': 6, 'hex': 8}
HAS_ID = {'edg': True, 'tri': True, 'qua': True, 'tet': False, 'pyr': False, 'pri': False, 'hex': False}


def hx(d):
    return '%016x' % struct.unpack('>Q', struct.pack('>d', float(d)))[0]


def unhx(s):
    return struct.unpack('>d', bytes.fromhex(s))[0]


def N(tier, q, t=None):
    return q if tier == 'quick' else (t if t is not None else 5 * q)


# ---------------------------------------------------------------------------------------------
# exact geometry
# ---------------------------------------------------------------------------------------------
def fr(p):
    return [Fraction(x) for x in p]


def vol6(a, b, c, d):
    """6 * ref_node_tet_vol, exactly"""
    a, b, c, d = fr(a), fr(b), fr(c), fr(d)
    m11 = (a[0] - d[0]) * ((b[1] - d[1]) * (c[2] - d[2]) - (c[1] - d[1]) * (b[2] - d[2]))
    m12 = (a[1] - d[1]) * ((b[0] - d[0]) * (c[2] - d[2]) - (c[0] - d[0]) * (b[2] - d[2]))
    m13 = (a[2] - d[2]) * ((b[0] - d[0]) * (c[1] - d[1]) - (c[0] - d[0]) * (b[1] - d[1]))
    return -(m11 - m12 + m13)


def normal_z(a, b, c):
    a, b, c = fr(a), fr(b), fr(c)
    return (b[0] - a[0]) * (c[1] - a[1]) - (b[1] - a[1]) * (c[0] - a[0])


# ---------------------------------------------------------------------------------------------
# configurations
# ---------------------------------------------------------------------------------------------
class Cfg:
    def __init__(self, twod):
        self.twod = twod
        self.pts = []
        self.flags = []
        self.met = []
        self.logm = []
        self.cells = []  # (kind, nodes..., [id])
        self.cqa, self.pmin, self.pmax, self.minvol = 1.0e-3, 1.0e-3, 3.0, 1.0e-15

    def node(self, x, y, z):
        self.pts.append([float(x), float(y), float(z)])
        self.flags.append(0)
        self.met.append([1.0, 0.0, 0.0, 1.0, 0.0, 1.0])
        self.logm.append([0.0] * 6)
        return len(self.pts) - 1

    def line(self, op, n0, n1):
        w = [op, str(n0), str(n1), '1' if self.twod else '0', hx(self.cqa), hx(self.pmin), hx(self.pmax), hx(self.minvol),
             str(len(self.pts))]
        for p, f, m, l in zip(self.pts, self.flags, self.met, self.logm):
            w += [hx(p[0]), hx(p[1]), hx(p[2]), str(f)] + [hx(x) for x in m] + [hx(x) for x in l]
        w.append(str(len(self.cells)))
        for c in self.cells:
            w += [str(x) for x in c]
        return ' '.join(w)


def exp_sym(l):
    """exp of the symmetric matrix l (upper triangle), by series: the stored metric only has to be roughly
    consistent with the stored log (both are inputs of the guards)"""
    a = [[l[0], l[1], l[2]], [l[1], l[3], l[4]], [l[2], l[4], l[5]]]
    r = [[1.0 if i == j else 0.0 for j in range(3)] for i in range(3)]
    t = [row[:] for row in r]
    for k in range(1, 30):
        t = [[sum(t[i][q] * a[q][j] for q in range(3)) / k for j in range(3)] for i in range(3)]
        r = [[r[i][j] + t[i][j] for j in range(3)] for i in range(3)]
    return [r[0][0], 0.5 * (r[0][1] + r[1][0]), 0.5 * (r[0][2] + r[2][0]), r[1][1], 0.5 * (r[1][2] + r[2][1]), r[2][2]]


def set_metric(rng, cfg, kind):
    for i, p in enumerate(cfg.pts):
        if kind == 'id':
            continue
        if kind == 'iso':
            h = 0.7
            hs = [h, h, h]
        elif kind == 'isovar':
            h = rng.uniform(0.4, 2.5)
            hs = [h, h, h]
        elif kind == 'lin':
            h = 0.5 + 0.6 * p[0]
            hs = [h, h, h]
        elif kind == 'aniso':
            hs = [0.5, 2.0, 1.0]
        else:  # full
            l = [rng.uniform(-1, 1) * (0.3 if k in (1, 2, 4) else 1.0) for k in range(6)]
            if cfg.twod:
                l[2] = l[4] = l[5] = 0.0
            cfg.logm[i] = l
            cfg.met[i] = exp_sym(l)
            continue
        if cfg.twod:
            hs[2] = 1.0
        cfg.met[i] = [1.0 / hs[0] ** 2, 0.0, 0.0, 1.0 / hs[1] ** 2, 0.0, 1.0 / hs[2] ** 2]
        cfg.logm[i] = [math.log(cfg.met[i][0]), 0.0, 0.0, math.log(cfg.met[i][3]), 0.0, math.log(cfg.met[i][5])]


KUHN = [(0, 1, 3, 7), (0, 1, 5, 7), (0, 2, 3, 7), (0, 2, 6, 7), (0, 4, 5, 7), (0, 4, 6, 7)]


def brick3(rng, m, jit):
    cfg = Cfg(False)
    ids = {}
    for k in range(m):
        for j in range(m):
            for i in range(m):
                inner = all(0 < q < m - 1 for q in (i, j, k))
                jj = jit if inner else 0.0
                ids[i, j, k] = cfg.node(i + rng.uniform(-jj, jj), j + rng.uniform(-jj, jj), k + rng.uniform(-jj, jj))
    faces = {}
    for k in range(m - 1):
        for j in range(m - 1):
            for i in range(m - 1):
                c = [ids[i + (q & 1), j + ((q >> 1) & 1), k + ((q >> 2) & 1)] for q in range(8)]
                for t in KUHN:
                    tt = [c[q] for q in t]
                    if vol6(*[cfg.pts[v] for v in tt]) < 0:
                        tt[0], tt[1] = tt[1], tt[0]
                    cfg.cells.append(('tet',) + tuple(tt))
                    for q in range(4):
                        f = tuple(sorted(tt[:q] + tt[q + 1:]))
                        faces.setdefault(f, []).append(tt[q])
    inv = {v: k for k, v in ids.items()}
    for f, opp in sorted(faces.items()):
        if len(opp) != 1:
            continue
        # patch id by brick side
        co = [inv[v] for v in f]
        pid = 0
        for ax in range(3):
            if all(c[ax] == 0 for c in co):
                pid = 1 + 2 * ax
            if all(c[ax] == m - 1 for c in co):
                pid = 2 + 2 * ax
        a, b, c = f
        if vol6(cfg.pts[a], cfg.pts[b], cfg.pts[c], cfg.pts[opp[0]]) < 0:  # tri sees its tet on the positive side
            a, b = b, a
        cfg.cells.append(('tri', a, b, c, pid))
    return cfg, ids


def square2(rng, m, n, jit):
    cfg = Cfg(True)
    ids = {}
    for j in range(n):
        for i in range(m):
            jj = 0.0 if (i in (0, m - 1) or j in (0, n - 1)) else jit
            ids[i, j] = cfg.node(i + rng.uniform(-jj, jj), j + rng.uniform(-jj, jj), 0.0)
    for j in range(n - 1):
        for i in range(m - 1):
            a, b, c, d = ids[i, j], ids[i + 1, j], ids[i + 1, j + 1], ids[i, j + 1]
            if rng.random() < 0.5:
                cfg.cells += [('tri', a, b, c, 1), ('tri', a, c, d, 1)]
            else:
                cfg.cells += [('tri', a, b, d, 1), ('tri', b, c, d, 1)]
    for i in range(m - 1):
        cfg.cells.append(('edg', ids[i, 0], ids[i + 1, 0], 1))
        cfg.cells.append(('edg', ids[i + 1, n - 1], ids[i, n - 1], 3))
    for j in range(n - 1):
        cfg.cells.append(('edg', ids[m - 1, j], ids[m - 1, j + 1], 2))
        cfg.cells.append(('edg', ids[0, j + 1], ids[0, j], 4))
    return cfg, ids


def neighbours(cfg, v, kind):
    out = []
    for c in cfg.cells:
        if c[0] == kind and v in c[1:1 + NP[kind]]:
            for w in c[1:1 + NP[kind]]:
                if w != v and w not in out:
                    out.append(w)
    return out


def squash(rng, cfg, n0, n1):
    """move node0 to within eps of the plane (line) of a face (side) of node1's link that does not contain node0: the
    cell the collapse creates there has volume (area) around 0 / min_volume"""
    kind = 'tri' if cfg.twod else 'tet'
    nper = NP[kind]
    cand = [c for c in cfg.cells if c[0] == kind and n1 in c[1:1 + nper] and n0 not in c[1:1 + nper]]
    if not cand:
        return
    c = rng.choice(cand)
    others = [v for v in c[1:1 + nper] if v != n1]
    P = [cfg.pts[v] for v in others]
    eps = rng.choice([0.0, 1.0, -1.0]) * 10.0 ** rng.uniform(-16.5, -9) if rng.random() < 0.8 else rng.uniform(-0.05, 0.05)
    if cfg.twod:
        t = rng.uniform(-0.3, 1.3)
        d = [P[1][0] - P[0][0], P[1][1] - P[0][1]]
        ln = math.hypot(*d) or 1.0
        cfg.pts[n0] = [P[0][0] + t * d[0] - eps * d[1] / ln, P[0][1] + t * d[1] + eps * d[0] / ln, 0.0]
    else:
        u = [P[1][k] - P[0][k] for k in range(3)]
        w = [P[2][k] - P[0][k] for k in range(3)]
        nrm = [u[1] * w[2] - u[2] * w[1], u[2] * w[0] - u[0] * w[2], u[0] * w[1] - u[1] * w[0]]
        ln = math.sqrt(sum(x * x for x in nrm)) or 1.0
        s, t = rng.uniform(-0.2, 0.8), rng.uniform(-0.2, 0.8)
        cfg.pts[n0] = [P[0][k] + s * u[k] + t * w[k] + eps * nrm[k] / ln for k in range(3)]


def thresholds(rng, cfg):
    r = rng.random()
    if r < 0.4:
        return
    cfg.cqa = rng.choice([1.0e-3, 0.05, 0.2, 0.4, 0.7, 1.0e-9])
    cfg.pmin, cfg.pmax = rng.choice([(1.0e-3, 3.0), (0.5, 1.6), (0.3, 2.2), (1.0e-3, 1.2), (0.9, 3.0)])
    # min_volume of the order of the cell sizes (tri areas ~0.5, tet volumes ~1/6): the area / volume tests decide on
    # well-shaped cells, not only the quality threshold
    cfg.minvol = rng.choice([1.0e-15, 1.0e-15, 0.0, 1.0e-3, 1.0e-12, 0.45 if cfg.twod else 0.15, 0.55 if cfg.twod else 0.18])


def decorate(rng, cfg, n0, n1):
    """duplicate-creating cells, ghosts, mixed neighbours"""
    r = rng.random()
    kind_hi = 'tri' if cfg.twod else 'tet'
    if r < 0.22:
        kind = rng.choice([kind_hi, 'tri', 'edg'])
        nper = NP[kind]
        cand = [c for c in cfg.cells if c[0] == kind and n1 in c[1:1 + nper] and n0 not in c[1:1 + nper]]
        if cand:
            c = rng.choice(cand)
            ns = [n0 if v == n1 else v for v in c[1:1 + nper]]
            rng.shuffle(ns)
            new = (kind,) + tuple(ns) + ((rng.choice([1, 7]),) if HAS_ID[kind] else ())
            cfg.cells.insert(rng.randrange(len(cfg.cells) + 1), new)
    elif r < 0.45:
        pool = set(neighbours(cfg, n0, kind_hi) + neighbours(cfg, n1, kind_hi) + [n0, n1])
        if rng.random() < 0.3:
            pool = set(range(len(cfg.pts)))
        for v in rng.sample(sorted(pool), min(len(pool), rng.choice([1, 1, 2, 4]))):
            cfg.flags[v] |= 1
    elif r < 0.52:
        nn = len(cfg.pts)
        kind = rng.choice(['pyr', 'pri', 'hex', 'qua'])
        ns = [rng.choice([n1, n1, n0])] + rng.sample([v for v in range(nn) if v not in (n0, n1)], NP[kind] - 1)
        rng.shuffle(ns)
        cfg.cells.append((kind,) + tuple(ns) + ((1,) if HAS_ID[kind] else ()))


def pick_edge(rng, cfg, ids, prefer_inner):
    kind = 'tri' if cfg.twod else 'tet'
    inv = {v: k for k, v in ids.items()}
    m = max(max(k) for k in ids) + 1
    inner = [v for v, k in inv.items() if all(0 < q < m - 1 for q in (k[:2] if cfg.twod else k))]
    pool = inner if (inner and rng.random() < prefer_inner) else list(inv)
    n1 = rng.choice(pool)
    nb = neighbours(cfg, n1, kind)
    n0 = rng.choice(nb) if nb else n1
    return n0, n1


GUARD_OPS3 = ['manifold', 'local', 'tetq', 'triq', 'ratio', 'normdev', 'remove', 'remove', 'collapse', 'qtet',
              'nratio', 'cad']
GUARD_OPS2 = ['manifold', 'local', 'triq', 'twodo', 'ratio', 'normdev', 'remove', 'remove', 'collapse', 'qtri',
              'nratio', 'tetq']


def gen_star_case(rng):
    twod = rng.random() < 0.4
    if twod:
        cfg, ids = square2(rng, rng.choice([3, 4, 5]), rng.choice([3, 4]), rng.choice([0.0, 0.2, 0.35, 0.49]))
    else:
        m = rng.choice([3, 3, 4])
        cfg, ids = brick3(rng, m, rng.choice([0.0, 0.15, 0.3, 0.45]))
    n0, n1 = pick_edge(rng, cfg, ids, 0.75)
    if rng.random() < 0.35:
        squash(rng, cfg, n0, n1)
    set_metric(rng, cfg, rng.choice(['id', 'id', 'iso', 'isovar', 'lin', 'aniso', 'full']))
    thresholds(rng, cfg)
    decorate(rng, cfg, n0, n1)
    return cfg, n0, n1


def gen_stars(rng, tier):
    ops = []
    for _ in range(N(tier, 220, 900)):
        cfg, n0, n1 = gen_star_case(rng)
        pool = GUARD_OPS2 if cfg.twod else GUARD_OPS3
        for op in rng.sample(pool, 3) + ['remove']:
            if op == 'cad':
                for v in range(len(cfg.pts)):
                    if rng.random() < 0.6:
                        cfg.flags[v] |= 2
            ops.append(cfg.line(op, n0, n1))
            if op == 'cad':
                for v in range(len(cfg.pts)):
                    cfg.flags[v] &= 1
    return ops


def gen_soup(rng, tier):
    """random small cell soups: every branch of the manifold / local / cad guards, the RAS failures included"""
    ops = []
    for _ in range(N(tier, 400, 2000)):
        cfg = Cfg(rng.random() < 0.3)
        nn = rng.choice([4, 5, 6, 7, 9])
        for _k in range(nn):
            cfg.node(rng.uniform(-1, 1), rng.uniform(-1, 1), 0.0 if cfg.twod else rng.uniform(-1, 1))
        n0, n1 = rng.sample(range(nn), 2)
        for _k in range(rng.choice([2, 4, 6, 9, 14])):
            kind = rng.choice(['tet', 'tet', 'tri', 'tri', 'tri', 'edg', 'edg'])
            ns = rng.sample(range(nn), NP[kind])
            if rng.random() < 0.6:
                ns[0] = n1
                if n1 in ns[1:]:
                    continue
            if rng.random() < 0.35 and n0 not in ns:
                ns[-1] = n0
            if len(set(ns)) != len(ns):
                continue
            cfg.cells.append((kind,) + tuple(ns) + ((rng.choice([1, 1, 2, 3]),) if HAS_ID[kind] else ()))
        for v in range(nn):
            if rng.random() < 0.12:
                cfg.flags[v] |= 1
            if rng.random() < 0.5:
                cfg.flags[v] |= 2
        op = rng.choice(['manifold', 'manifold', 'manifold', 'local', 'cad', 'collapse', 'remove', 'remove'])
        if op != 'cad':
            cfg.flags = [f & 1 for f in cfg.flags]
        ops.append(cfg.line(op, n0, n1))
    # malformed share
    cfg, n0, n1 = gen_star_case(rng)
    good = cfg.line('manifold', n0, n1)
    w = good.split()
    ops += ['bogus', 'manifold', 'manifold 0 1', ' '.join(w[:-1]), ' '.join(w + ['tet']), ' '.join(['frob'] + w[1:]),
            ' '.join(w[:3] + ['2'] + w[4:]), ' '.join(w[:8] + ['0']), ' '.join(w[:4] + ['xyz'] + w[5:]),
            ' '.join(w[:1] + [str(len(cfg.pts))] + w[2:]),
            ' '.join(w[:8] + ['2'] + w[9:9 + 32] + ['1', 'tet', '0', '1', '1', '0']),
            ' '.join(['collapse', w[1], w[1]] + w[3:])]
    return ops


# ---------------------------------------------------------------------------------------------
# oracle
# ---------------------------------------------------------------------------------------------
def parse_line(line):
    w = line.split()
    try:
        op = w[0]
        n0, n1, twod = int(w[1]), int(w[2]), int(w[3])
        cqa, pmin, pmax, minvol = [unhx(x) for x in w[4:8]]
        nn = int(w[8])
        if not (0 < nn <= 400) or twod > 1:
            return None
        pts, flags = [], []
        k = 9
        for _ in range(nn):
            pts.append([unhx(x) for x in w[k:k + 3]])
            flags.append(int(w[k + 3]))
            k += 16
        nc = int(w[k])
        k += 1
        cells = {kk: [] for kk in NP}
        n = 0
        while k < len(w):
            kind = w[k]
            sz = NP[kind] + (1 if HAS_ID[kind] else 0)
            row = [int(x) for x in w[k + 1:k + 1 + sz]]
            if len(row) != sz or any(v >= nn for v in row[:NP[kind]]):
                return None
            if NP[kind] <= 4 and len(set(row[:NP[kind]])) != NP[kind]:
                return None
            cells[kind].append(row)
            k += 1 + sz
            n += 1
        if n != nc or n0 >= nn or n1 >= nn:
            return None
        return dict(op=op, n0=n0, n1=n1, twod=bool(twod), cqa=cqa, pmin=pmin, pmax=pmax, minvol=minvol, pts=pts,
                    flags=flags, cells=cells)
    except (ValueError, IndexError, KeyError, struct.error):
        return None


def parse_after(out):
    sec = out.split(' | ')
    hw = sec[0].split()
    r = {'status': hw[0]}
    for x in hw[1:]:
        k, v = x.split('=')
        r[k] = v
    r['cells'] = {}
    for k, s in zip(('tet', 'tri', 'edg'), sec[1:4]):
        r['cells'][k] = [[int(x) for x in row.split(',')] for row in s.split()[1:]]
    return r


def local_check(twod, cells, pts, vs, minvol_pos=True):
    """complaints about the star of the vertices vs: repeated vertex, duplicate cell, face matching"""
    bad = []
    vs = set(vs)
    for k in ('tet', 'tri', 'edg'):
        keys = Counter()
        for r in cells[k]:
            ns = r[:NP[k]]
            if not (set(ns) & vs):
                continue
            if len(set(ns)) != len(ns):
                bad.append('%s %s repeats a vertex' % (k, r))
            keys[tuple(sorted(ns))] += 1
        bad += ['duplicate %s %s' % (k, key) for key, c in keys.items() if c > 1]
    hi, lo = ('tri', 'edg') if twod else ('tet', 'tri')
    nh, nl = NP[hi], NP[lo]
    faces = Counter()
    for r in cells[hi]:
        ns = r[:nh]
        for k in range(nh):
            faces[tuple(sorted(ns[:k] + ns[k + 1:]))] += 1
    lows = Counter(tuple(sorted(r[:nl])) for r in cells[lo])
    for f, c in faces.items():
        if set(f) & vs:
            l = lows.get(f, 0)
            if not ((c == 2 and l == 0) or (c == 1 and l == 1)):
                bad.append('face %s: %d %s, %d %s' % (f, c, hi, l, lo))
    for f, l in lows.items():
        if (set(f) & vs) and faces.get(f, 0) != 1:
            bad.append('%s %s lies on %d %s' % (lo, f, faces.get(f, 0), hi))
    return bad


def positive(twod, pts, kind, ns):
    if kind == 'tet':
        return vol6(*[pts[v] for v in ns[:4]]) > 0
    if kind == 'tri' and twod:
        return normal_z(*[pts[v] for v in ns[:3]]) > 0
    return True


def subst_cells(d, kind):
    n0, n1 = d['n0'], d['n1']
    nper = NP[kind]
    return [[n0 if v == n1 else v for v in r[:nper]] + r[nper:] for r in d['cells'][kind]
            if n1 in r[:nper] and n0 not in r[:nper]]


def oracle(ops, impl):
    out = []
    for i, (op, res) in enumerate(zip(ops, impl)):
        d = parse_line(op)
        if d is None:
            if res != 'bad-op':
                out.append((i, 'malformed line answered %r' % res))
            continue
        n0, n1, twod, cells, pts = d['n0'], d['n1'], d['twod'], d['cells'], d['pts']
        mixed = any(cells[k] for k in ('qua', 'pyr', 'pri', 'hex'))
        name = d['op']
        if name in ('collapse', 'remove') and res != 'bad-op':
            r = parse_after(res)
            before = {k: sorted(cells[k]) for k in ('tet', 'tri', 'edg')}
            accepted = r['status'] == 'ok' and r['a'] != '-1'
            if name == 'remove' and not accepted and r['status'] in ('ok',):
                if r['cells'] != before:
                    out.append((i, 'refused removal of %d changed the cells' % n1))
                if r['v'] != '1':
                    out.append((i, 'refused removal but node1 is gone'))
            if accepted:
                a = int(r['a'])
                if r['v'] != '0':
                    out.append((i, 'accepted collapse but node1 still valid'))
                for k in ('tet', 'tri', 'edg'):
                    if any(n1 in row[:NP[k]] for row in r['cells'][k]):
                        out.append((i, 'accepted collapse: node1 still referenced by a %s' % k))
                if name == 'remove' and not mixed:
                    pre = local_check(twod, cells, pts, [a, n1])
                    pre_pos = all(positive(twod, pts, k, row) for k in ('tet', 'tri') for row in cells[k]
                                  if a in row[:NP[k]] or n1 in row[:NP[k]])
                    if not pre and pre_pos:
                        post = local_check(twod, r['cells'], pts, [a])
                        if post:
                            out.append((i, 'accepted collapse %d<-%d leaves an invalid star: %s' % (a, n1, '; '.join(post[:3]))))
                    if d['cqa'] > 0 and d['minvol'] >= 0:
                        old = {k: Counter(tuple(row) for row in cells[k]) for k in ('tet', 'tri')}
                        for k in ('tet', 'tri'):
                            for row in r['cells'][k]:
                                if a in row[:NP[k]] and old[k][tuple(row)] == 0 and not positive(twod, pts, k, row):
                                    out.append((i, 'accepted collapse %d<-%d creates %s %s of non-positive volume' % (a, n1, k, row)))
        elif name == 'manifold' and res == 'ok 1':
            for k in ('tet', 'tri', 'edg'):
                have = Counter(tuple(sorted(r[:NP[k]])) for r in cells[k])
                if max(have.values(), default=0) > 1:
                    continue
                for s in subst_cells(d, k):
                    if have[tuple(sorted(s[:NP[k]]))] > 0:
                        out.append((i, 'manifold allowed but %s %s exists already' % (k, s)))
        elif name == 'tetq' and res == 'ok 1' and d['cqa'] > 0 and d['minvol'] >= 0:
            tris = Counter(tuple(sorted(r[:3])) for r in cells['tri'])
            for s in subst_cells(d, 'tet'):
                if not vol6(*[pts[v] for v in s[:4]]) > 0:
                    out.append((i, 'tet quality allowed but tet %s has non-positive volume' % s))
                nb = sum(1 for q in range(4) if tris[tuple(sorted(s[:q] + s[q + 1:4]))] > 0)
                if nb > 1:
                    out.append((i, 'tet quality allowed but tet %s has %d boundary faces' % (s, nb)))
        elif name == 'twodo' and res == 'ok 1':
            for s in subst_cells(d, 'tri'):
                if not normal_z(*[pts[v] for v in s[:3]]) > 0:
                    out.append((i, 'twod orientation allowed but tri %s is not counter-clockwise' % s))
        elif name == 'triq' and res == 'ok 1' and d['cqa'] > 0 and d['minvol'] >= 0 and twod:
            for s in subst_cells(d, 'tri'):
                if normal_z(*[pts[v] for v in s[:3]]) == 0:
                    out.append((i, 'tri quality allowed but tri %s has zero area' % s))
        elif name == 'local' and res.startswith('ok'):
            own = all(d['flags'][v] & 1 == 0 for k in ('tet', 'tri') for r in cells[k]
                      if n0 in r[:NP[k]] or n1 in r[:NP[k]] for v in r[:NP[k]])
            if (res == 'ok 1') != own:
                out.append((i, 'local_cell answered %s but all-owned is %s' % (res, own)))
    return out[:20]


def _nontriv(op, out):
    return not out.startswith('bad-op')


STARS = Stream('collapse_stars', 'h_collapse', 'collapse', gen_stars, oracle=oracle, whitebox=['ref_collapse'],
               nontrivial=_nontriv)
SOUP = Stream('collapse_soup', 'h_collapse', 'collapse', gen_soup, oracle=oracle, whitebox=['ref_collapse'],
              nontrivial=_nontriv)


# ---------------------------------------------------------------------------------------------
# run level: a real ref_collapse_pass observed through the hook
# ---------------------------------------------------------------------------------------------
def gen_run(rng, tier):
    ops = []
    for _ in range(1 if tier == 'quick' else 4):
        ops.append('run 2 %d %d iso %s' % (rng.randrange(5, 9), rng.randrange(1, 99), hx(rng.uniform(0.35, 0.7))))
        ops.append('run 2 %d %d aniso %s' % (rng.randrange(6, 10), rng.randrange(0, 99), hx(rng.uniform(0.12, 0.3))))
        ops.append('run 2 %d %d lin %s' % (rng.randrange(6, 10), rng.randrange(1, 99), hx(rng.uniform(0.3, 0.6))))
        ops.append('run 3 %d %d iso %s' % (rng.randrange(4, 6), rng.randrange(1, 99), hx(rng.uniform(0.6, 1.0))))
        ops.append('run 3 4 %d aniso %s' % (rng.randrange(0, 99), hx(rng.uniform(0.25, 0.4))))
        ops.append('run 3 %d %d lin %s' % (rng.randrange(4, 6), rng.randrange(1, 99), hx(rng.uniform(0.5, 0.9))))
    ops += ['run 4 3 1 iso %s' % hx(0.3), 'bogus']
    return ops


def oracle_run(ops, impl):
    out = []
    nrec = sum(1 for l in impl if l.startswith('rec '))
    if len(ops) > 4 and nrec == 0:
        out.append((0, 'no collapse was observed in %d runs: the run-level stream is vacuous' % len(ops)))
    return out


RUN = Stream('collapse_run', 'h_collapse', 'collapse', gen_run, oracle=oracle_run, kind='validate',
             whitebox=['ref_collapse'], harness_args=('run',), driver_args=('validate',), session='run',
             nontrivial=lambda op, out: out.startswith('rec'))

STREAMS = [STARS, SOUP, RUN]
