"""streams for the mixed-element protection of properties C01 / C02 / C13 (harness h_mixed / driver mixed).

refine adapts simplices only; pyramids, prisms, hexahedra and boundary quadrilaterals must be carried through
unchanged and the simplices must stay conforming to their triangular faces.

 mixed_fn      diff      local configurations (edge / vertex star of tets, 0..3 non-simplex neighbours of each kind
                         in every position of their edge tables, incl. pyramids-without-prisms, prisms-without-
                         pyramids, hexes only) -> the real ref_split/collapse/swap_edge_mixed, ref_cavity_mixed, the
                         guarded kernels (ref_split_edge, ref_collapse_edge, ref_swap_tri_edge; whole-grid dump), the
                         cavity gates (every ref_cavity_form_*, ref_cavity_enlarge_face)
 mixed_smooth  validate  ref_smooth_tet_improve and both interior loops of ref_smooth_pass on small complete mixed
                         meshes, metric stretched so that every tet is below the 0.10 quality of the second loop
 mixed_run     validate  hooked real passes (ref_adapt_pass, ref_split_pass, ref_collapse_pass, ref_cavity_pass,
                         ref_smooth_pass) in-process on (a) hex core + pyramids + tets, (b) prism layer + tets,
                         (c) all kinds; after EVERY hook event the non-simplex cells and the coordinates of their
                         vertices are compared with the initial ones, the star of every accepted operation is dumped
 cli_adapt_mixed oracle  `ref adapt` end to end on (a), (b), (c) written by the independent writer as .meshb and
                         .lb8.ugrid, serial and np=2

Oracles state the property directly on the implementation's answer from the op line only (tables written down from
the element pictures of ref_cell.h, checks/mixedgen.py), independent of the Lean model.
"""
import os
import random

from . import cli, common, meshgen, mixedgen, pyio
from .common import Stream
from .streams_guards import E2N, SIZES, fmt_op, hx, parse_op, unhx

MIXED = ('qua', 'pyr', 'pri', 'hex')
VOLMIXED = ('pyr', 'pri', 'hex')
ORDER = ('edg', 'tri', 'qua', 'tet', 'pyr', 'pri', 'hex')


def N(tier, q, t=None):
    return q if tier == 'quick' else (t if t is not None else 5 * q)


# ------------------------------------------------------------------------------------------------------------------
# local configurations
# ------------------------------------------------------------------------------------------------------------------
def oriented(pts, n):
    n = list(n)
    if meshgen.tet_vol(pts[n[0]], pts[n[1]], pts[n[2]], pts[n[3]]) < 0:
        n[0], n[1] = n[1], n[0]
    return n


def edge_star(rng, k=None, closed=None):
    """edge (0,1) along z with a fan of k tets (closed ring: interior edge; open: two boundary triangles on it)"""
    import math
    k = k if k is not None else rng.randint(3, 6)
    closed = closed if closed is not None else rng.random() < 0.6
    pts = [[0.0, 0.0, 0.0], [0.0, 0.0, 1.0]]
    nring = k if closed else k + 1
    span = 2 * math.pi if closed else rng.uniform(1.5, 3.5)
    for i in range(nring):
        th = span * i / (k if closed else k)
        pts.append([math.cos(th), math.sin(th), 0.5 + rng.uniform(-0.1, 0.1)])
    cells = []
    for i in range(k):
        a, b = 2 + i, 2 + (i + 1) % nring
        cells.append(['tet'] + oriented(pts, [0, 1, a, b]))
    if not closed:
        cells.append(['tri', 0, 1, 2, 1])
        cells.append(['tri', 1, 0, 2 + k, 1])
    return pts, cells


def attach(rng, pts, cells, kind, pos, a, b, share=0.0):
    """append a `kind` cell over fresh nodes with local slot pos[0] := a and (if present) pos[1] := b"""
    sz, has_id = SIZES[kind]
    nodes = []
    for s_ in range(sz):
        if s_ == pos[0]:
            nodes.append(a)
        elif len(pos) > 1 and s_ == pos[1]:
            nodes.append(b)
        else:
            cand = [x for x in range(2, len(pts)) if x not in nodes and x not in (a, b)]
            if cand and rng.random() < share:
                nodes.append(rng.choice(cand))
            else:
                nodes.append(len(pts))
                pts.append([rng.uniform(-2, 2), rng.uniform(-2, 2), rng.uniform(-1, 2)])
    c = [kind] + nodes
    if has_id:
        c.append(rng.choice([2, 3, 7]))
    cells.append(c)
    return c


def positions(kind):
    """every ordered pair of distinct local slots, tagged edge / not-an-edge"""
    sz = SIZES[kind][0]
    out = []
    for x in range(sz):
        for y in range(sz):
            if x != y:
                out.append(((x, y), (x, y) in E2N[kind] or (y, x) in E2N[kind]))
    return out


def swap_patch(rng):
    """two triangles (0,1,2), (1,0,3) in the plane z=0, same id: a swappable 2-D edge"""
    pts = [[0.0, 0.0, 0.0], [1.0, 0.0, 0.0], [0.5, rng.uniform(0.4, 1.0), 0.0], [0.5, -rng.uniform(0.4, 1.0), 0.0]]
    cells = [['tri', 0, 1, 2, 1], ['tri', 1, 0, 3, 1]]
    if rng.random() < 0.5:
        pts.append([1.5, 0.5, 0.0])
        cells.append(['tri', 1, 4, 2, 1])
    return pts, cells


EDGE_OPS = ('smixed', 'wmixed', 'cmixed', 'vmixed', 'split', 'collapse')


def gen_fn(rng, tier):
    ops = []

    def emit(pts, cells, n0=0, n1=1, which=EDGE_OPS, frac=1.0):
        for op in which:
            if rng.random() <= frac:
                ops.append(fmt_op(op, [n0, n1], 1.0, pts, cells))
        if 'cmixed' in which and rng.random() <= frac:
            ops.append(fmt_op('cmixed', [n1, n0], 1.0, pts, cells))
        if 'collapse' in which and rng.random() < 0.5 * frac:
            ops.append(fmt_op('collapse', [n1, n0], 1.0, pts, cells))

    # (1) one non-simplex cell in EVERY position of its table: both ends on the cell, as an edge or not
    for kind in MIXED:
        for pos, is_edge in positions(kind):
            pts, cells = edge_star(rng)
            attach(rng, pts, cells, kind, pos, 0, 1)
            emit(pts, cells, frac=0.7 if tier == 'quick' else 1.0)
    # (2) one cell touching one end only (node = pyramid apex, pyramid base corner, prism corner, hex corner, quad
    #     corner), each local slot
    for kind in MIXED:
        for s_ in range(SIZES[kind][0]):
            for end in (0, 1):
                pts, cells = edge_star(rng)
                attach(rng, pts, cells, kind, (s_,), end, None, share=0.3)
                emit(pts, cells, frac=0.5)
    # (3) 0..3 neighbours of each kind, mixed-kind compositions: pyramids without prisms, prisms without pyramids,
    #     hexes only, everything, nothing
    comps = [('pyr',), ('pri',), ('hex',), ('qua',), ('pyr', 'hex'), ('pri', 'hex'), ('pyr', 'pri'), MIXED, ()]
    for _ in range(N(tier, 120)):
        pts, cells = edge_star(rng)
        comp = rng.choice(comps)
        for kind in comp:
            for _ in range(rng.randint(0, 3) if len(comp) > 1 else rng.randint(1, 3)):
                t = rng.random()
                pp = positions(kind)
                if t < 0.3:
                    pos = rng.choice([p for p, e in pp if e])
                    attach(rng, pts, cells, kind, pos, 0, 1, share=0.3)
                elif t < 0.45:
                    non = [p for p, e in pp if not e]
                    attach(rng, pts, cells, kind, rng.choice(non), 0, 1, share=0.3)
                elif t < 0.75:
                    attach(rng, pts, cells, kind, (rng.randrange(SIZES[kind][0]),), rng.choice([0, 1]), None, share=0.3)
                else:
                    # away from both ends: only ring / fresh nodes
                    attach(rng, pts, cells, kind, (rng.randrange(SIZES[kind][0]),), rng.randrange(2, len(pts)), None,
                           share=0.3)
        # the guards look at the cells of node0 only / node1 only: shuffle the insertion order as well
        head = [c for c in cells if c[0] in ('tet', 'tri')]
        tail = [c for c in cells if c[0] not in ('tet', 'tri')]
        rng.shuffle(tail)
        emit(pts, head + tail, frac=0.6)
    # (4) the 2-D swap: two triangles on the edge, neighbours in every edge position
    for kind in MIXED:
        for pos, is_edge in positions(kind):
            if rng.random() > (0.35 if tier == 'quick' else 1.0):
                continue
            pts, cells = swap_patch(rng)
            attach(rng, pts, cells, kind, pos, 0, 1)
            ops.append(fmt_op('swap', [0, 1], 1.0, pts, cells))
            ops.append(fmt_op('wmixed', [1, 0], 1.0, pts, cells))
    for _ in range(N(tier, 30)):
        pts, cells = swap_patch(rng)
        for kind in rng.sample(MIXED, rng.randint(0, 2)):
            attach(rng, pts, cells, kind, (rng.randrange(SIZES[kind][0]),), rng.choice([0, 1, 2, 3]), None)
        ops.append(fmt_op('swap', [0, 1], 1.0, pts, cells))
        ops.append(fmt_op('swap', [1, 0], 1.0, pts, cells))
    # (5) the cavity gates: every ref_cavity_form_* on grids with / without pyramids, prisms, hexes
    for _ in range(N(tier, 40)):
        pts, cells = edge_star(rng, closed=True)
        comp = rng.choice(comps)
        for kind in comp:
            # away from the edge: the gate is a property of the whole grid
            where = rng.choice([(0,), (1,), None, None])
            if where is None:
                pts.append([3.0, 3.0, 3.0])
                attach(rng, pts, cells, kind, (0,), len(pts) - 1, None)
            else:
                attach(rng, pts, cells, kind, (rng.randrange(SIZES[kind][0]),), where[0], None)
        # a spare valid vertex for the insert / split forms
        spare = len(pts)
        pts.append([0.05, 0.05, 0.5])
        for form in range(7):
            if rng.random() < 0.6:
                ops.append(fmt_op('cform', [0, 1, spare if form in (1, 2, 3, 5) else 2, form], 1.0, pts, cells))
    for _ in range(N(tier, 80)):
        pts, cells = edge_star(rng, closed=True)
        k = len(pts) - 2
        comp = rng.choice(comps)
        for kind in comp:
            at = rng.choice([0, 1, 2, 3, None])
            if at is None:
                pts.append([3.0, 3.0, 3.0])
                attach(rng, pts, cells, kind, (0,), len(pts) - 1, None)
            else:
                attach(rng, pts, cells, kind, (rng.randrange(SIZES[kind][0]),), at, None)
        face = rng.choice([[0, 2, 3], [1, 3, 2], [0, 1, 2], [0, 2 + k - 1, 2]])
        ops.append(fmt_op('cenl', face, 1.0, pts, cells))
    # malformed share
    p3 = [[0.0, 0.0, 0.0], [1.0, 0.0, 0.0], [0.0, 1.0, 0.0]]
    ops.append(fmt_op('smixed', [0, 5], 1.0, p3, [['tri', 0, 1, 2, 1]]))
    ops.append(fmt_op('nosuch', [0, 1], 1.0, p3, [['tri', 0, 1, 2, 1]]))
    ops.append(fmt_op('split', [0, 1], 1.0, p3, [['tri', 0, 1, 1, 1]]))
    ops.append(fmt_op('cform', [0, 1, 2, 9], 1.0, p3, [['tri', 0, 1, 2, 1]]))
    ops.append('split 0 1')
    return ops


# ------------------------------------------------------------------------------------------------------------------
# oracle helpers (the property, on the op line and the implementation's answer only)
# ------------------------------------------------------------------------------------------------------------------
def mixed_cells(C, kinds=MIXED):
    return [(k, c) for k in kinds for c in C[k]]


def is_edge_of(kind, nodes, a, b):
    return any((nodes[x] == a and nodes[y] == b) or (nodes[x] == b and nodes[y] == a) for x, y in E2N[kind])


def tri_faces(kind, nodes):
    return [tuple(nodes[i] for i in f) for f in mixedgen.TRI_FACES.get(kind, [])]


def parse_dump(sections):
    """sections after the head: 'N v:x:y:z ..', 'edg rows', ... -> nodes {v: (hexbits)}, cells {kind: [rows]}"""
    nodes = {}
    cells = {}
    for s in sections:
        w = s.split()
        if not w:
            continue
        if w[0] == 'N':
            for x in w[1:]:
                f = x.split(':')
                nodes[int(f[0])] = tuple(f[1:4])
        else:
            cells[w[0]] = [[int(y) for y in x.split(',')] for x in w[1:]]
    return nodes, cells


def cover_count(cells, face):
    fs = set(face)
    return sum(1 for r in cells.get('tet', []) if fs <= set(r[:4])) + sum(1 for r in cells.get('tri', []) if fs <= set(r[:3]))


def frozen_rows(C):
    return {k: [list(c[0]) + ([c[1]] if SIZES[k][1] else []) for c in C[k]] for k in MIXED}


def check_kernel(op, d, line):
    """`ok done <status> | dump`: the non-simplex groups and their vertices are untouched, the triangular faces of
    pyramids / prisms keep their simplex neighbour"""
    bad = []
    sec = line.split(' | ')
    head = sec[0].split()
    if head[:2] != ['ok', 'done']:
        return ['unexpected answer %r' % line[:80]]
    nodes, cells = parse_dump(sec[1:])
    C = d['cells']
    n0, n1 = d['i'][0], d['i'][1]
    want = frozen_rows(C)
    for k in MIXED:
        if cells.get(k, []) != want[k]:
            bad.append('%s: the %s group changed (%d rows -> %d rows)' % (op, k, len(want[k]), len(cells.get(k, []))))
    for k, c in mixed_cells(C):
        for v in c[0]:
            if v not in nodes:
                bad.append('%s removed vertex %d of a %s' % (op, v, k))
            elif nodes[v] != tuple(hx(x) for x in d['pts'][v]):
                bad.append('%s moved vertex %d of a %s' % (op, v, k))
    if head[2] == 'ok':
        before = {k: [list(c[0]) for c in C[k]] for k in ('tet', 'tri')}
        simplices = before['tet'] + before['tri']
        for k, c in mixed_cells(C, VOLMIXED):
            for f in tri_faces(k, c[0]):
                a, b = cover_count(before, f), cover_count(cells, f)
                if op == 'collapse':
                    # a removed simplex on the face must hand it to the neighbour across its face opposite node0:
                    # only claimed when that neighbour exists (the simplicial part's own conformity, C01 collapse)
                    gone = [x for x in simplices if n0 in x and n1 in x and set(f) <= set(x)]
                    if any(not any(n0 not in y and set(x) - {n0} <= set(y) for y in simplices) for x in gone):
                        continue
                    a, b = min(a, 1), min(b, 1)
                if a != b:
                    bad.append('%s of edge (%d,%d): triangular face %s of a %s had %d simplex neighbours, now %d '
                               '(hanging node / hole)' % (op, n0, n1, f, k, a, b))
    return bad


def oracle_fn(ops, impl):
    bad = []
    for i, (o, r) in enumerate(zip(ops, impl)):
        d = parse_op(o)
        if d is None or any(len(set(c[0])) != len(c[0]) for k in d['cells'] for c in d['cells'][k]):
            if r != 'bad-op':
                bad.append((i, 'malformed op answered %r' % r[:60]))
            continue
        if r == 'bad-op':
            continue
        op, (n0, n1, i2, i3), C = d['op'], d['i'], d['cells']
        rw = r.split()
        mixed = mixed_cells(C)
        if op in ('smixed', 'wmixed', 'cmixed', 'vmixed'):
            if op == 'cmixed':
                want = not any(n1 in c[0] for _, c in mixed)
                what = 'node %d %s a vertex of a non-simplex cell' % (n1, 'is not' if want else 'is')
            elif op == 'vmixed':
                want = not any(n1 in c[0] or n0 in c[0] for _, c in mixed)
                what = 'an end %s a vertex of a non-simplex cell' % ('is not' if want else 'is')
            else:
                want = not any(is_edge_of(k, c[0], n0, n1) for k, c in mixed)
                what = 'the edge %s an edge of a non-simplex cell' % ('is not' if want else 'is')
            if rw[0] != 'ok' or len(rw) < 2 or (rw[1] == '1') != want:
                kinds = sorted({k for k, _ in mixed})
                bad.append((i, '%s(%d,%d) answers %r but %s (grid has %s)' % (op, n0, n1, r, what, kinds or 'no mixed cell')))
        elif op in ('split', 'collapse', 'swap'):
            if op == 'collapse':
                want = not any(n1 in c[0] for _, c in mixed)
            else:
                want = not any(is_edge_of(k, c[0], n0, n1) for k, c in mixed)
            blocked = rw[:2] == ['ok', 'blocked']
            if rw[0] != 'ok':
                bad.append((i, '%s guard failed: %s' % (op, r[:60])))
            elif blocked == want:
                bad.append((i, '%s(%d,%d) %s but the guard statement says %s' %
                            (op, n0, n1, 'refused' if blocked else 'went ahead', 'allowed' if want else 'blocked')))
            if not blocked and rw[0] == 'ok':
                for m in check_kernel(op, d, r)[:3]:
                    bad.append((i, m))
        elif op == 'cform':
            want = bool(C['pyr']) or bool(C['pri'])
            if rw[:2] != ['ok', 'gate'] or (rw[2] == '1') != want:
                bad.append((i, 'ref_cavity_form #%d answers %r on a grid with %d pyramids and %d prisms' %
                            (i3, r, len(C['pyr']), len(C['pri']))))
        elif op == 'cenl':
            want = any(v in c[0] for v in (n0, n1, i2) for _, c in mixed)
            if rw[:2] != ['ok', 'gate'] or (rw[2] == '1') != want:
                bad.append((i, 'ref_cavity_enlarge_face(%d,%d,%d) answers %r; a face vertex %s a non-simplex cell' %
                            (n0, n1, i2, r, 'touches' if want else 'does not touch')))
    return bad


# ------------------------------------------------------------------------------------------------------------------
# small complete meshes as op lines
# ------------------------------------------------------------------------------------------------------------------
COLS = {
    'a': lambda i, j: 'H',                              # hex core + pyramid transition + tets, NO prism
    'b': lambda i, j: 'P',                              # prism layer under tets, NO pyramid
    'c': lambda i, j: 'H' if i == 0 else 'P',           # pyramids + prisms + hexes + tets
    'd': lambda i, j: 'H' if (i + j) % 2 == 0 else 'P',
}


def op_cells(cells):
    out = []
    for k in ORDER:
        for c in cells.get(k, []):
            out.append([k] + list(c[:SIZES[k][0]]) + ([c[SIZES[k][0]]] if SIZES[k][1] else []))
    return out


def grid_words(verts, cells):
    """'nn xyz.. ncell cells..' of the op-line format"""
    return fmt_op('x', [0, 0], 1.0, verts, op_cells(cells)).split()[6:]


def small_mesh(rng, which, n=None, zi=None, jitter=0.0, centre=0.5):
    n = n or (2, 2, 1, 2)
    zi = zi if zi is not None else rng.choice([0.25, 0.4])
    return mixedgen.layered(n[0], n[1], n[2], n[3], COLS[which], zi=zi, rng=rng, jitter=jitter, centre=centre), zi


def thin_mesh(rng, which, n=(2, 2)):
    """one layer of tets of thickness ~0.003 on the frozen cells: every tet is far below quality 0.10 wherever its
    free vertices go, so the "smooth low quality tets" loop of ref_smooth_pass offers every vertex of every tet --
    including the interface vertices that are not on the outer boundary -- to ref_smooth_tet_improve"""
    zi = rng.choice([0.25, 0.4])
    eps = rng.choice([0.004, 0.003, 0.002])
    return mixedgen.layered(n[0], n[1], 1, 1, COLS[which], lengths=(1.0, 1.0, zi + eps), zi=zi), zi


def island_mesh(rng, n=None):
    """a tet box and, apart from it, a block of hexahedra: hexes and quads but no pyramid / prism, so the cavity
    operators are not gated and run next to frozen cells"""
    n = n or rng.choice([(2, 2, 2), (2, 2, 1), (3, 2, 2)])
    verts, cells = mixedgen.layered(n[0], n[1], 0, n[2], COLS['b'], zi=0.0, rng=rng, jitter=rng.choice([0.0, 0.3]))
    return mixedgen.with_hex_island(verts, cells, n=rng.choice([(1, 1, 1), (2, 1, 1)]))


def planar_mesh(rng, nx=None, nyb=1, nyt=None, yi=None):
    """2-D: nyb rows of quadrilaterals on [0,1]x[0,yi] under nyt rows of triangles (alternating diagonals), boundary
    edges with the side ids 1..4; z = 0"""
    nx = nx or rng.randint(3, 5)
    nyt = nyt or rng.randint(2, 4)
    yi = yi if yi is not None else rng.choice([0.2, 0.3])
    ys = [yi * k / nyb for k in range(nyb)] + [yi + (1 - yi) * k / nyt for k in range(nyt + 1)]
    ny = nyb + nyt

    def vid(i, j):
        return j * (nx + 1) + i
    verts = [(i / nx, ys[j], 0.0) for j in range(ny + 1) for i in range(nx + 1)]
    qua, tri, edg = [], [], []
    for j in range(ny):
        for i in range(nx):
            a, b, c, d = vid(i, j), vid(i + 1, j), vid(i + 1, j + 1), vid(i, j + 1)
            if j < nyb:
                qua.append((a, b, c, d, 1))
            elif (i + j) % 2 == 0:
                tri += [(a, b, c, 1), (a, c, d, 1)]
            else:
                tri += [(a, b, d, 1), (b, c, d, 1)]
    for i in range(nx):
        edg.append((vid(i, 0), vid(i + 1, 0), 1))
        edg.append((vid(i + 1, ny), vid(i, ny), 3))
    for j in range(ny):
        edg.append((vid(nx, j), vid(nx, j + 1), 2))
        edg.append((vid(0, j + 1), vid(0, j), 4))
    return (verts, {'tri': tri, 'qua': qua, 'edg': edg}), yi


def touches(C, v, kinds):
    return any(v in c[0] for k in kinds for c in C[k])


def gen_smooth(rng, tier):
    ops = []
    for which in ('a', 'b', 'c', 'd'):
        for rep in range(N(tier, 1, 3)):
            (verts, cells), zi = small_mesh(rng, which, jitter=rng.choice([0.0, 0.3]),
                                            centre=rng.choice([0.5, 0.04, 0.96]))
            oc = op_cells(cells)
            nn = len(verts)
            # vertices by role: on a prism / pyramid / hex and not on the boundary (the interesting ones), pyramid
            # apexes, free interior, boundary
            C = {k: [(c[1:1 + SIZES[k][0]], 0) for c in oc if c[0] == k] for k in ORDER}
            inner = [v for v in range(nn) if touches(C, v, VOLMIXED) and not touches(C, v, ('tri', 'qua'))]
            free = [v for v in range(nn) if not touches(C, v, VOLMIXED + ('tri', 'qua'))]
            bnd = [v for v in range(nn) if touches(C, v, ('tri', 'qua'))]
            pick = inner + rng.sample(free, min(len(free), 4)) + rng.sample(bnd, min(len(bnd), 3))
            for w in (1.0, 2500.0):
                for v in pick:
                    if rng.random() < (0.6 if tier == 'quick' else 1.0):
                        ops.append(fmt_op('improve', [v, 0], w, verts, oc))
            for w in (1.0, 400.0, 10000.0):
                ops.append(fmt_op('pass', [0, 0], w, verts, oc))
            (verts, cells), zi = thin_mesh(rng, which, n=rng.choice([(2, 2), (3, 2)]))
            oc = op_cells(cells)
            ops.append(fmt_op('pass', [0, 0], 1.0, verts, oc))
            for v in range(len(verts)):
                if rng.random() < 0.4:
                    ops.append(fmt_op('improve', [v, 0], 1.0, verts, oc))
    # local configurations: a closed fan of tets around the edge (0,1) and exactly ONE non-simplex neighbour kind at
    # vertex 0 (each kind alone decides the freeze: pyramid apex / base corner, prism corner, hex corner, quad corner),
    # or a boundary triangle, or nothing
    for kind in MIXED + ('tri', None):
        for rep in range(N(tier, 2, 4)):
            pts, cells = edge_star(rng, closed=True)
            if kind == 'tri':
                cells.append(['tri', 0, len(pts), len(pts) + 1, 1])
                pts += [[2.0, 0.0, 0.0], [2.0, 1.0, 0.0]]
            elif kind is not None:
                attach(rng, pts, cells, kind, (rng.randrange(SIZES[kind][0]),), 0, None)
            ops.append(fmt_op('improve', [0, 0], 1.0, pts, cells))
            ops.append(fmt_op('improve', [1, 0], 1.0, pts, cells))
    p3 = [[0.0, 0.0, 0.0], [1.0, 0.0, 0.0], [0.0, 1.0, 0.0]]
    ops.append(fmt_op('improve', [7, 0], 1.0, p3, [['tri', 0, 1, 2, 1]]))
    ops.append(fmt_op('nosuch', [0, 0], 1.0, p3, [['tri', 0, 1, 2, 1]]))
    return ops


def oracle_smooth(ops, impl):
    """no vertex of a pyramid / prism / hexahedron / boundary quadrilateral is moved by the smoother"""
    bad = []
    for i, line in enumerate(impl):
        sec = line.split(' | ')
        head = sec[0].split()
        if not head or head[0] not in ('sm', 'sp'):
            continue
        d = parse_op('x ' + sec[-1])
        if d is None:
            bad.append((min(i, len(ops) - 1), 'unparsable record'))
            continue
        C = d['cells']
        if head[0] == 'sm':
            v = d['i'][0]
            if head[2] == '1' and touches(C, v, MIXED):
                bad.append((i, 'ref_smooth_tet_improve moved vertex %d of a non-simplex cell (%s)' %
                            (v, [k for k in MIXED if touches(C, v, (k,))])))
            elif head[1] == '1' and touches(C, v, MIXED):
                bad.append((i, 'ref_smooth_tet_improve went past its freeze exits on vertex %d of a non-simplex cell' % v))
        else:
            for x in sec[1].split()[1:]:
                v, e, m = [int(y) for y in x.split(':')]
                if touches(C, v, MIXED) and (m or e):
                    bad.append((i, 'ref_smooth_pass %s vertex %d of a non-simplex cell (%s) through ref_smooth_tet_improve' %
                                ('moved' if m else 'tried to move', v, [k for k in MIXED if touches(C, v, (k,))])))
                    break
            for x in sec[2].split()[1:]:
                if touches(C, int(x), MIXED):
                    bad.append((i, 'ref_smooth_pass moved boundary vertex %s of a non-simplex cell' % x))
                    break
    return bad


# ------------------------------------------------------------------------------------------------------------------
# run level
# ------------------------------------------------------------------------------------------------------------------
def run_op(passes, bg, h0, g, zi, hmax, verts, cells, az=1.0):
    return ' '.join(['run', passes, str(bg), hx(h0), hx(g), hx(zi), hx(hmax), hx(az)] + grid_words(verts, cells))


def gen_run(rng, tier):
    ops = []
    reps = 1 if tier == 'quick' else 3
    for _ in range(reps):
        for which in ('a', 'b', 'c'):
            n = (2, 2, 1, 2) if rng.random() < 0.5 else rng.choice([(3, 2, 1, 2), (2, 3, 1, 2), (3, 3, 1, 2)])
            (verts, cells), zi = small_mesh(rng, which, n=n)
            bg = rng.choice([0, 1])
            # much finer than the frozen interface spacing right above the layer
            ops.append(run_op('aa', bg, rng.choice([0.05, 0.07]), rng.choice([0.5, 0.25]), zi, 1.0, verts, cells))
            (verts, cells), zi = small_mesh(rng, which, n=(2, 2, 1, 2))
            ops.append(run_op(rng.choice(['smsm', 'sms', 'ssm']) + 'm', rng.choice([0, 1]), 0.08, 0.3, zi, 1.0, verts, cells))
            # uniform refinement of the pyramid's own edges, then single passes of every kind
            ops.append(run_op(''.join(rng.choice('scwm') for _ in range(5)), 0, rng.uniform(0.12, 0.2), 0.0, zi, 1.0,
                              verts, cells))
            # tets of quality < 0.10 on the interface that no free vertex can repair (thin slab): the "smooth low
            # quality tets" loop of ref_smooth_pass offers the interface vertices to the tet smoother
            (v2, c2), z2 = thin_mesh(rng, which)
            ops.append(run_op(rng.choice(['m', 'mm']), rng.choice([0, 1]), 0.3, 0.0, z2, 1.0, v2, c2))
            # the same through a stretched metric: every tet is below 0.10
            ops.append(run_op('m', rng.choice([0, 1]), 0.3, 0.0, zi, 1.0, verts, cells, az=rng.choice([400.0, 1.0e4])))
            # coarsening towards the frozen cells
            (verts, cells), zi = small_mesh(rng, which, n=(3, 3, 1, 3))
            ops.append(run_op(rng.choice(['a', 'cc', 'cwcm']), rng.choice([0, 1]), rng.uniform(0.9, 1.6), 0.0, zi, 2.0,
                              verts, cells))
        # hexes and quads but no pyramid / prism: the cavity operators (swap pass, collapse / split by cavity) are not gated
        verts, cells = island_mesh(rng)
        ops.append(run_op(rng.choice(['a', 'aw', 'wa']), rng.choice([0, 1]), rng.uniform(0.2, 0.35), 0.0, 0.0, 1.0, verts, cells))
        ops.append(run_op('a', 0, rng.uniform(0.8, 1.2), 0.0, 0.0, 2.0, *island_mesh(rng, (3, 3, 3))))
        # 2-D: a row of frozen quadrilaterals under triangles (the real 2-D swap pass and its ref_swap_edge_mixed)
        (verts, cells), yi = planar_mesh(rng)
        ops.append(run_op(rng.choice(['aa', 'swsw', 'a']), 0, rng.choice([0.06, 0.1]), rng.choice([0.0, 0.4]), yi, 1.0, verts, cells))
        (verts, cells), yi = planar_mesh(rng, nx=5, nyt=5)
        ops.append(run_op(rng.choice(['a', 'cwc', 'cwm']), 0, rng.uniform(0.5, 0.9), 0.0, yi, 2.0, verts, cells))
    ops += ['run a 0 0 0 0 0 0', 'bogus', run_op('a', 0, 0.0, 0.0, 0.0, 1.0, [[0, 0, 0]], {})]
    return ops


def parse_rec(line):
    sec = line.split(' | ')
    hw = sec[0].split()
    r = {'phase': hw[1], 'kind': hw[2], 'ints': [int(x) for x in hw[3:6]]}
    for w in hw[6:]:
        k, _, v = w.partition('=')
        r[k] = v
    r['cells'] = {}
    for s in sec[1:]:
        w = s.split()
        r['cells'][w[0]] = [[int(y) for y in x.split(',')] for x in w[1:]]
    return r


def star_conforming(r, touched):
    """every triangular face of a star pyramid / prism that contains a touched vertex is shared by exactly two
    cells, or by one cell and one boundary triangle"""
    bad = []
    cells = r['cells']
    for k in ('pyr', 'pri'):
        for row in cells.get(k, []):
            for f in tri_faces(k, row):
                if not any(v in touched for v in f):
                    continue
                fs = set(f)
                nvol = cover_count(cells, f) - sum(1 for t in cells.get('tri', []) if fs <= set(t[:3]))
                ntri = sum(1 for t in cells.get('tri', []) if fs <= set(t[:3]))
                nmix = sum(1 for kk in ('pyr', 'pri') for row2 in cells.get(kk, [])
                           for f2 in tri_faces(kk, row2) if set(f2) == fs)
                if not ((nvol + nmix == 2 and ntri == 0) or (nvol + nmix == 1 and ntri == 1)):
                    bad.append('triangular face %s of %s %s: %d tets, %d non-simplex cells, %d boundary triangles on it' %
                               (f, k, row, nvol, nmix, ntri))
    return bad


def star_conforming_2d(r, touched):
    """2-D: every side of a star quadrilateral that contains a touched vertex is shared by exactly two cells
    (quadrilaterals, triangles), or by one cell and one boundary edge"""
    bad = []
    cells = r['cells']
    for row in cells.get('qua', []):
        for x, y in E2N['qua']:
            s = {row[x], row[y]}
            if not s & set(touched):
                continue
            nq = sum(1 for q in cells.get('qua', []) for a, b in E2N['qua'] if {q[a], q[b]} == s)
            nt = sum(1 for t in cells.get('tri', []) if s <= set(t[:3]))
            ne = sum(1 for e in cells.get('edg', []) if s <= set(e[:2]))
            if not ((nq + nt == 2 and ne == 0) or (nq + nt == 1 and ne == 1)):
                bad.append('side %s of quadrilateral %s: %d quadrilaterals, %d triangles, %d boundary edges on it' %
                           (sorted(s), row[:4], nq, nt, ne))
    return bad


def oracle_run(ops, impl):
    """C02/C13 on the records of the real passes: the non-simplex cells and the coordinates of their vertices equal
    the initial ones at EVERY hook event; an accepted operation leaves the star conforming to the triangular faces of
    the adjacent pyramids / prisms; no accepted split of an edge of a non-simplex cell, no collapse that removes one
    of their vertices, no smoothing move of one, no cavity replacement while pyramids or prisms exist"""
    out = []
    k = -1
    ro = [o for o in ops]
    for i, line in enumerate(impl):
        if line.startswith('done '):
            k += 1
            d = {}
            for w in line.split()[2:]:
                a, _, b = w.partition('=')
                d[a] = b
            st = line.split()[1]
            if st == 'bad-op':
                continue
            if st != 'ok':
                out.append((min(k, len(ro) - 1), 'a pass failed with %s on a valid mixed mesh' % st))
            if d.get('frozen_bad', '0') != '0' or d.get('frozen_end') == '0':
                out.append((min(k, len(ro) - 1), 'non-simplex cells / their vertex coordinates differ from the initial ones at '
                            '%s hook events (end of run: %s)' % (d.get('frozen_bad'), 'changed' if d.get('frozen_end') == '0' else 'same')))
            continue
        if not line.startswith('rec '):
            continue
        r = parse_rec(line)
        kk = min(k + 1, len(ro) - 1)
        ints, kind, phase = r['ints'], r['kind'], r['phase']
        where = 'record %d (%s %s %s)' % (i, phase, kind, ints)
        cells = r['cells']
        mixed = [(g, row) for g in MIXED for row in cells.get(g, [])]
        if r['frozen'] != '1':
            out.append((kk, where + ': non-simplex cells or the coordinates of their vertices changed'))
        if phase == 'begin' and kind in ('split_edge', 'swap_tri_edge'):
            if any(is_edge_of(g, row, ints[0], ints[1]) for g, row in mixed):
                out.append((kk, where + ': %s called on an edge of a non-simplex cell' % kind))
        if phase == 'begin' and kind == 'collapse_edge':
            if any(ints[1] in row[:SIZES[g][0]] for g, row in mixed):
                out.append((kk, where + ': ref_collapse_edge removes a vertex of a non-simplex cell'))
        if phase == 'begin' and kind == 'cavity_replace' and (r['npyr'] != '0' or r['npri'] != '0'):
            out.append((kk, where + ': cavity replacement on a grid with pyramids / prisms'))
        if phase == 'end' and r['moved'] == '1' and any(ints[0] in row[:SIZES[g][0]] for g, row in mixed):
            out.append((kk, where + ': smoothing moved a vertex of a non-simplex cell'))
        if phase == 'accept':
            touched = [v for v, ok in zip(ints, r['valid']) if ok == '1' and v >= 0]
            b = star_conforming_2d(r, touched) if r.get('twod') == '1' else star_conforming(r, touched)
            if b:
                out.append((kk, where + ': star not conforming to a non-simplex neighbour: ' + '; '.join(b[:2])))
    return out[:20]


# ------------------------------------------------------------------------------------------------------------------
# end to end: `ref adapt` on mixed meshes
# ------------------------------------------------------------------------------------------------------------------
def metric_graded(h0, g, zi, hmax):
    def f(p):
        h = min(hmax, h0 + g * max(0.0, p[2] - zi))
        m = 1.0 / (h * h)
        return (m, 0.0, 0.0, m, 0.0, m)
    return f


def sc_adapt_mixed(ctx, d, case):
    """adaptmixed grid=a|b|c|d n=nx,ny,nzb,nzt zi= h0= g= hmax= passes= fmt=meshb|lb8.ugrid [np=] mseed="""
    rng = random.Random(int(d.get('mseed', '1')))
    n = [int(x) for x in d.get('n', '2,2,1,2').split(',')]
    zi = float(d.get('zi', '0.4'))
    ext = d.get('fmt', 'meshb')
    mesh = os.path.join(case, 'in.' + ext)
    met = os.path.join(case, 'in-metric.solb')
    f = metric_graded(float(d.get('h0', '0.3')), float(d.get('g', '0')), zi, float(d.get('hmax', '10')))
    if d.get('grid', 'a') == 'q':
        # planar: a row of frozen quadrilaterals under triangles; the grading runs along y
        (verts, cells), zi = planar_mesh(rng, nx=n[0], nyb=n[2], nyt=n[3], yi=zi)
        pyio.write_meshb(mesh, 2, [p[:2] for p in verts], cells)
        rows = []
        for p in verts:
            m = f((p[0], 0.0, p[1]))
            rows.append(meshgen.solb_metric_row((m[0], 0.0, 0.0, m[3], 0.0, 1.0), 2))
        pyio.write_solb(met, 2, rows, [3])
    else:
        verts, cells = mixedgen.layered(n[0], n[1], n[2], n[3], COLS[d.get('grid', 'a')], zi=zi, rng=rng,
                                        jitter=float(d.get('jitter', '0')))
        pyio.write_mesh(mesh, 3, verts, cells)
        pyio.write_solb(met, 3, [meshgen.solb_metric_row(f(p), 3) for p in verts], [3])
    np_ = int(d.get('np', '0'))
    out = os.path.join(case, 'out.' + ext)
    rc, tail = cli.run_ref(ctx, np_, ['adapt', mesh, '--metric', met, '-x', out, '-s', d.get('passes', '3')], case,
                           timeout=600)
    return 'rc=%d dir=%s' % (rc, case)


cli.SCENARIOS['adaptmixed'] = sc_adapt_mixed


def gen_adapt_mixed(rng, tier, np=None):
    ops = []
    tail = (' np=%d' % np) if np else ''
    combos = []
    for grid in ('a', 'b', 'c'):
        for passes in (1, 3, 8):
            combos.append((grid, passes))
    rng.shuffle(combos)
    take = combos if tier != 'quick' else combos[:(4 if np else 6)]
    # every grid kind appears in the quick slice
    for grid in ('a', 'b', 'c'):
        if not any(c[0] == grid for c in take):
            take.append((grid, rng.choice([1, 3])))
    seen = set()
    for k, (grid, passes) in enumerate(take):
        fmt = 'meshb' if k % 2 == 0 else 'lb8.ugrid'
        t = rng.random()
        if grid not in seen:   # every grid kind is refined at least once (edges of the frozen cells become "long")
            t *= 0.8
            seen.add(grid)
        if t < 0.55:      # much finer than the frozen interface spacing right above the layer
            h0, g, hmax = rng.choice([0.05, 0.06, 0.07]), rng.choice([0.5, 0.4, 0.25]), 1.0
            n = rng.choice(['2,2,1,2', '3,3,1,2', '3,2,1,2'])
        elif t < 0.8:     # uniform, finer than the pyramid / prism edges
            h0, g, hmax = rng.uniform(0.12, 0.2), 0.0, 1.0
            n = '2,2,1,2'
        else:             # coarsening
            h0, g, hmax = rng.uniform(0.9, 1.6), 0.0, 2.0
            n = rng.choice(['3,3,1,3', '3,3,2,3'])
        if passes == 8 and h0 < 0.08:
            n = '2,2,1,2'
            h0 = 0.07
        ops.append('adaptmixed grid=%s n=%s zi=%s h0=%.3f g=%.2f hmax=%.1f passes=%d fmt=%s mseed=%d jitter=%s%s' %
                   (grid, n, rng.choice(['0.25', '0.4']), h0, g, hmax, passes, fmt, rng.randint(1, 10 ** 6),
                    rng.choice(['0', '0.3']), tail))
    # 2-D: frozen quadrilaterals under triangles (refining towards the quads, and coarsening)
    ops.append('adaptmixed grid=q n=%d,1,1,%d zi=%s h0=%.3f g=%.2f hmax=1.0 passes=%d fmt=meshb mseed=%d%s' %
               (rng.randint(3, 5), rng.randint(2, 4), rng.choice(['0.2', '0.3']), rng.choice([0.05, 0.08]),
                rng.choice([0.0, 0.4]), rng.choice([2, 4]), rng.randint(1, 10 ** 6), tail))
    if not np:
        ops.append('adaptmixed grid=q n=5,1,1,5 zi=0.2 h0=%.3f g=0 hmax=2.0 passes=%d fmt=meshb mseed=%d' %
                   (rng.uniform(0.5, 0.9), rng.choice([3, 5]), rng.randint(1, 10 ** 6)))
    return ops


def oracle_adapt_mixed(ops, impl):
    bad = []
    for i, (op, line) in enumerate(zip(ops, impl)):
        d = cli.kv(op)
        o = cli.parse_out(line)
        if o.get('rc') != '0':
            bad.append((i, 'adapt exited with status %s on a valid mixed-element mesh and SPD metric' % o.get('rc')))
            continue
        ext = d.get('fmt', 'meshb')
        try:
            mi = pyio.read_mesh(os.path.join(o['dir'], 'in.' + ext))
            mo = pyio.read_mesh(os.path.join(o['dir'], 'out.' + ext))
        except Exception as ex:
            bad.append((i, 'output mesh unreadable by the independent parser: %r' % (ex,)))
            continue
        planar = d.get('grid') == 'q'
        f = (mixedgen.valid_mixed_2d if planar else mixedgen.valid_mixed)(mo)
        if f:
            bad.append((i, 'C01 output mesh invalid / non-conforming: ' + '; '.join(f[:3])))
        if planar:
            mi = dict(mi, verts=[tuple(p[:2]) for p in mi['verts']])
            mo = dict(mo, verts=[tuple(p[:2]) for p in mo['verts']])
        f = mixedgen.frozen_same(mi, mo)
        if f:
            bad.append((i, 'C02 non-simplex cells not carried through unchanged: ' + '; '.join(f[:2])))
        v0, v1 = (mixedgen.total_area(mi), mixedgen.total_area(mo)) if planar else \
            (mixedgen.total_volume(mi), mixedgen.total_volume(mo))
        if abs(v1 - v0) > 1e-9 * max(abs(v0), 1e-300):
            bad.append((i, 'C02 total %s changed: %.12e -> %.12e' % ('area' if planar else 'volume', v0, v1)))
    return bad


# ------------------------------------------------------------------------------------------------------------------
WB = ['ref_smooth', 'ref_swap', 'ref_cavity']
FN = Stream('mixed_fn', 'h_mixed', 'mixed', gen_fn, oracle=oracle_fn, whitebox=WB,
            nontrivial=lambda op, out: out.startswith('ok'))
SMOOTH = Stream('mixed_smooth', 'h_mixed', 'mixed', gen_smooth, oracle=oracle_smooth, kind='validate', whitebox=WB,
                harness_args=('smooth',), driver_args=('validate',),
                nontrivial=lambda op, out: out.startswith('s'))
RUN = Stream('mixed_run', 'h_mixed', 'mixed', gen_run, oracle=oracle_run, kind='validate', whitebox=WB,
             harness_args=('run',), driver_args=('validate',), session='run', timeout=900,
             nontrivial=lambda op, out: out.startswith('rec') or out.startswith('done ok'))
ADAPT_MIXED = Stream('cli_adapt_mixed', cli.cli_harness, None, gen_adapt_mixed, oracle=oracle_adapt_mixed, kind='oracle',
                     nontrivial=lambda op, out: out.startswith('rc=0'), timeout=1200)
ADAPT_MIXED_MPI = Stream('cli_adapt_mixed_mpi', cli.cli_harness, None, gen_adapt_mixed, oracle=oracle_adapt_mixed,
                         kind='oracle', np=[2], nontrivial=lambda op, out: out.startswith('rc=0'), timeout=1200)
STREAMS = [FN, SMOOTH, RUN, ADAPT_MIXED, ADAPT_MIXED_MPI]
