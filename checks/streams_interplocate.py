"""streams for C11 / C18 (the staged donor search ref_interp_locate with the walking agents of ref_agents.c).

Donor / receptor PAIRS that are NOT the same domain, built rank by rank from the op lines (the generator partitions both
grids: a rank holds every cell that touches one of its nodes, with the ghost nodes that needs):
  nested     receptor box strictly inside the donor box
  shell      a receptor corner 1e-9 .. 8 % past the one-ring of the nearest donor corner, inside the donor (always generated)
  offset     receptor shifted by 0.3 .. 1.3 donor cells: its corners fall inside, ON the boundary of, and JUST OUTSIDE the
             one-ring of the nearest donor corner (the shell in which a seed has min weight in (-0.1, -1e-12))
  same       same domain, different resolution (corners coincide: weight 1,0,0,0 seeds)
  round      discs / balls with ONE boundary id: no geometry nodes, everything goes through the tree fall-back
  roundbox   receptor box inside a donor disc / ball (donor without geometry nodes: the receptor corners get no seed and
             are located by the tree stage; regression input of the fixed finding interp-geom-nodes-donor-without-corners)
  stretched  donor cells of aspect up to 30
  strip      a long thin donor under a coarse receptor: walks of more than 215 steps (TERMINATED -> tree)
  partial    receptor sticking out of the donor
2-D and 3-D, np = 1 (serial build) and np in {2, 3} (MPI build).

After `locate` the harness dumps, per receptor vertex, (cell, part, the four weight bit patterns, the stage that located it);
ref_interp->bary is pre-filled with NaN so a never-written slot prints `nan`.

Oracle (on the C output alone): SAME = 1 (the white-box staging reproduces ref_interp_locate); every located vertex has
all four slots finite, the 4th of a 2-D donor is 0, the weights are the exact barycentric weights of its position in the
stored cell to 1e-9, and if the vertex lies in the donor domain the stored cell encloses it: exact min weight >= -1e-12
(stage 1 and 2 ALWAYS: min weight >= -1e-12 whether or not the vertex is in the domain: the acceptance test).
"""
import math
import os
import random
from fractions import Fraction

from . import cli, pyio
from .common import Stream
from .streams_interp import fh, hf, H, exact_bary, float_minbary

KUHN = [(0, 1, 2), (0, 2, 1), (1, 0, 2), (1, 2, 0), (2, 0, 1), (2, 1, 0)]


# ------------------------------------------------------------------------------------------------ global meshes
class Mesh:
    def __init__(self, twod):
        self.twod = twod
        self.xyz = []
        self.cells = []   # node tuples (tri / tet)
        self.bnd = []     # (nodes, id): edg / tri
        self.h = 1.0


def tri_area(a, b, c):
    return (b[0] - a[0]) * (c[1] - a[1]) - (b[1] - a[1]) * (c[0] - a[0])


def tet_vol6(a, b, c, d):
    m11 = (a[0] - d[0]) * ((b[1] - d[1]) * (c[2] - d[2]) - (c[1] - d[1]) * (b[2] - d[2]))
    m12 = (a[1] - d[1]) * ((b[0] - d[0]) * (c[2] - d[2]) - (c[0] - d[0]) * (b[2] - d[2]))
    m13 = (a[2] - d[2]) * ((b[0] - d[0]) * (c[1] - d[1]) - (c[0] - d[0]) * (b[1] - d[1]))
    return -(m11 - m12 + m13)


def box2(rng, n, origin, size, ids='sides', diag='random', jitter=0.0, round_=False):
    m = Mesh(True)
    nx, ny = n
    hx, hy = size[0] / nx, size[1] / ny
    m.h = min(hx, hy)
    idx = {}
    for j in range(ny + 1):
        for i in range(nx + 1):
            x, y = origin[0] + i * hx, origin[1] + j * hy
            if jitter > 0 and 0 < i < nx and 0 < j < ny:
                x += jitter * hx * rng.uniform(-1, 1)
                y += jitter * hy * rng.uniform(-1, 1)
            if round_:
                cx, cy = origin[0] + size[0] / 2, origin[1] + size[1] / 2
                u, v = (x - cx) / (size[0] / 2), (y - cy) / (size[1] / 2)
                r2 = math.hypot(u, v)
                if r2 > 0:
                    s = max(abs(u), abs(v)) / r2
                    x, y = cx + u * s * size[0] / 2, cy + v * s * size[1] / 2
            idx[(i, j)] = len(m.xyz)
            m.xyz.append((x, y, 0.0))
    for j in range(ny):
        for i in range(nx):
            a, b, c, d = idx[(i, j)], idx[(i + 1, j)], idx[(i + 1, j + 1)], idx[(i, j + 1)]
            if diag == 'random':
                main = rng.random() < 0.5
            elif diag == 'main':
                main = True
            elif diag == 'anti':
                main = False
            else:  # 'corner1': the lower-left corner cell is cut so that ONE triangle touches the corner
                main = not (i == 0 and j == 0) and rng.random() < 0.5
            tris = [(a, b, c), (a, c, d)] if main else [(a, b, d), (b, c, d)]
            for t in tris:
                k = rng.randrange(3)
                t = t[k:] + t[:k]
                m.cells.append(t)
    for i in range(nx):
        m.bnd.append(((idx[(i, 0)], idx[(i + 1, 0)]), 1))
        m.bnd.append(((idx[(i, ny)], idx[(i + 1, ny)]), 3 if ids == 'sides' else 1))
    for j in range(ny):
        m.bnd.append(((idx[(nx, j)], idx[(nx, j + 1)]), 2 if ids == 'sides' else 1))
        m.bnd.append(((idx[(0, j)], idx[(0, j + 1)]), 4 if ids == 'sides' else 1))
    return m


def box3(rng, n, origin, size, ids='sides', jitter=0.0, round_=False):
    m = Mesh(False)
    h = [size[k] / n[k] for k in range(3)]
    m.h = min(h)
    idx = {}
    for k in range(n[2] + 1):
        for j in range(n[1] + 1):
            for i in range(n[0] + 1):
                p = [origin[0] + i * h[0], origin[1] + j * h[1], origin[2] + k * h[2]]
                if jitter > 0 and 0 < i < n[0] and 0 < j < n[1] and 0 < k < n[2]:
                    p = [p[c] + jitter * h[c] * rng.uniform(-1, 1) for c in range(3)]
                if round_:
                    ctr = [origin[c] + size[c] / 2 for c in range(3)]
                    u = [(p[c] - ctr[c]) / (size[c] / 2) for c in range(3)]
                    r2 = math.sqrt(sum(v * v for v in u))
                    if r2 > 0:
                        s = max(abs(v) for v in u) / r2
                        p = [ctr[c] + u[c] * s * size[c] / 2 for c in range(3)]
                idx[(i, j, k)] = len(m.xyz)
                m.xyz.append(tuple(p))
    faces = {}
    for k in range(n[2]):
        for j in range(n[1]):
            for i in range(n[0]):
                for order in KUHN:
                    v = [i, j, k]
                    t = [idx[tuple(v)]]
                    for ax in order:
                        v[ax] += 1
                        t.append(idx[tuple(v)])
                    if tet_vol6(*[m.xyz[q] for q in t]) < 0:
                        t[0], t[1] = t[1], t[0]
                    # an even permutation keeps the orientation
                    ev = rng.choice([(0, 1, 2, 3), (1, 2, 0, 3), (2, 0, 1, 3), (1, 0, 3, 2), (3, 2, 1, 0), (0, 2, 3, 1),
                                     (0, 3, 1, 2), (2, 1, 3, 0), (3, 0, 2, 1), (1, 3, 2, 0), (2, 3, 0, 1), (3, 1, 0, 2)])
                    t = tuple(t[q] for q in ev)
                    m.cells.append(t)
                    for f in ((t[1], t[3], t[2]), (t[0], t[2], t[3]), (t[0], t[3], t[1]), (t[0], t[1], t[2])):
                        faces.setdefault(tuple(sorted(f)), []).append(f)
    logical = {v: key for key, v in idx.items()}
    for key, fs in sorted(faces.items()):
        if len(fs) == 1:
            f = fs[0]
            fid = 1
            if ids == 'sides':
                for c in range(3):
                    if all(logical[v][c] == 0 for v in f):
                        fid = 1 + 2 * c
                    if all(logical[v][c] == n[c] for v in f):
                        fid = 2 + 2 * c
            m.bnd.append((f, fid))
    return m


# ------------------------------------------------------------------------------------------------ partition
def partition(rng, m, np, how):
    """owner of every node"""
    n = len(m.xyz)
    if np == 1:
        return [0] * n
    if how in ('x', 'y', 'z'):
        ax = 'xyz'.index(how)
        order = sorted(range(n), key=lambda i: (m.xyz[i][ax], i))
    elif how == 'index':
        order = list(range(n))
    else:  # 'random blocks': sort along a random direction
        d = [rng.uniform(-1, 1) for _ in range(3)]
        order = sorted(range(n), key=lambda i: (sum(d[c] * m.xyz[i][c] for c in range(3)), i))
    own = [0] * n
    for pos, i in enumerate(order):
        own[i] = min(np - 1, pos * np // n)
    return own


def local_views(m, own, np):
    """per rank: (local node list of global ids, local cells (local ids), local bnd)"""
    views = []
    for r in range(np):
        cells = [c for c in m.cells if any(own[v] == r for v in c)]
        bnd = [(f, i) for f, i in m.bnd if any(own[v] == r for v in f)]
        used = set(v for c in cells for v in c) | set(v for f, _ in bnd for v in f) | set(v for v in range(len(own)) if own[v] == r)
        nodes = sorted(used)
        loc = {g: k for k, g in enumerate(nodes)}
        views.append((nodes, [tuple(loc[v] for v in c) for c in cells], [(tuple(loc[v] for v in f), i) for f, i in bnd]))
    return views


def mesh_ops(m, own, np, donor):
    pre = 'd' if donor else 'r'
    ops = []
    views = local_views(m, own, np)
    for r, (nodes, cells, bnd) in enumerate(views):
        for g in nodes:
            ops.append('%snode %d %d %d %s' % (pre, r, g, own[g], H(m.xyz[g])))
        for c in cells:
            ops.append('%scell %d %s %d' % (pre, r, ' '.join(str(v) for v in c), 1 if m.twod else 0))
        for f, i in bnd:
            ops.append('%sbnd %d %s %d' % (pre, r, ' '.join(str(v) for v in f), i))
    return ops, views


# ------------------------------------------------------------------------------------------------ scenarios
def pair(rng, twod, kind):
    """(donor mesh, receptor mesh)"""
    dim = 2 if twod else 3
    box = box2 if twod else box3

    def nn(lo, hi):
        return [rng.randint(lo, hi) for _ in range(dim)]

    if kind in ('nested', 'offset', 'partial', 'stretched', 'far'):
        dn = nn(3, 6) if twod else nn(2, 3)
        if kind == 'stretched':
            asp = [1.0] * dim
            asp[rng.randrange(dim)] = rng.choice([5.0, 10.0, 30.0])
        else:
            asp = [1.0] * dim
        h0 = rng.choice([0.25, 0.2, 1.0, 0.37])
        dsize = [dn[c] * h0 * asp[c] for c in range(dim)]
        dorg = [rng.choice([0.0, 0.0, -1.0, 0.3]) for _ in range(dim)]
        if twod:
            d = box2(rng, dn, dorg, dsize, diag=rng.choice(['random', 'main', 'anti', 'corner1']),
                     jitter=rng.choice([0.0, 0.0, 0.2]))
        else:
            d = box3(rng, dn, dorg, dsize, jitter=rng.choice([0.0, 0.0, 0.2]))
        hd = [dsize[c] / dn[c] for c in range(dim)]
        # offset of the receptor's low corner from the donor's low corner, in donor cells
        if kind == 'nested':
            off = [rng.uniform(0.3, 1.3) for _ in range(dim)]
        elif kind == 'partial':
            off = [rng.choice([-0.4, 0.5, 1.2]) for _ in range(dim)]
        elif kind == 'far':
            # beyond the scaled search spheres: candidates only after some `fuzz *= 10` retries, or never
            off = [0.5] * dim
            off[rng.randrange(dim)] = -rng.choice([0.9, 1.0, 1.05, 1.1, 1.15, 1.2, 1.3, 1.5, 2.5])
        else:
            shell = rng.choice(['in', 'on', 'out', 'out', 'free'])
            if shell == 'free':
                off = [rng.uniform(0.3, 1.3) for _ in range(dim)]
            else:
                # weights of the corner simplex: 1 - sum(off) is the weight of the donor corner
                delta = {'in': rng.choice([0.25, 0.05]), 'on': 0.0, 'out': -rng.choice([1e-9, 1e-3, 0.03, 0.08])}[shell]
                if shell == 'on':
                    off = rng.choice([[0.25, 0.75], [0.5, 0.5], [0.75, 0.25]]) if twod else \
                        rng.choice([[0.25, 0.25, 0.5], [0.5, 0.25, 0.25], [0.125, 0.375, 0.5]])
                else:
                    w = [rng.uniform(0.15, 1.0) for _ in range(dim)]
                    s = sum(w)
                    off = [v / s * (1.0 - delta) for v in w]
        rorg = [dorg[c] + off[c] * hd[c] for c in range(dim)]
        if kind in ('partial', 'far'):
            rsize = [dsize[c] * rng.uniform(0.5, 0.9) for c in range(dim)]
        else:
            rsize = [(dsize[c] - off[c] * hd[c]) * rng.uniform(0.35, 0.8) for c in range(dim)]
        rn = nn(2, 5) if twod else nn(1, 3)
        if twod:
            r = box2(rng, rn, rorg, rsize, jitter=rng.choice([0.0, 0.2]))
        else:
            r = box3(rng, rn, rorg, rsize, jitter=rng.choice([0.0, 0.2]))
        return d, r
    if kind == 'shell':
        # a receptor corner JUST OUTSIDE the one-ring of the nearest donor corner, well inside the donor domain
        delta = rng.choice([1e-9, 1e-3, 0.03, 0.08])
        h = rng.choice([0.25, 0.2, 0.5])
        if twod:
            # donor corner (0,0) is touched by ONE triangle (0,0) (h,0) (0,h): weights of (a h, b h) are (1-a-b, a, b)
            dn = [rng.randint(3, 5), rng.randint(3, 5)]
            d = box2(rng, dn, [0.0, 0.0], [dn[0] * h, dn[1] * h], diag=rng.choice(['anti', 'corner1']))
            a = rng.uniform(0.2, 0.8)
            b = 1.0 + delta - a
            r = box2(rng, [rng.randint(2, 3), rng.randint(2, 3)], [a * h, b * h], [1.3 * h, 1.1 * h])
            return d, r
        # Kuhn tets: the donor corner (Lx,0,0) is touched by the two tets with x the largest local coordinate; the point
        # (Lx - a h, b h, c h) leaves them through b = 1 - a
        dn = [rng.randint(2, 3) for _ in range(3)]
        d = box3(rng, dn, [0.0, 0.0, 0.0], [dn[c] * h for c in range(3)])
        a = rng.uniform(0.2, 0.6)
        b = 1.0 - a + delta
        c = rng.uniform(0.05, 0.9) * (1.0 - a)
        sx, sy, sz = 1.2 * h, 0.9 * h, 0.8 * h
        r = box3(rng, [rng.randint(1, 2) for _ in range(3)], [dn[0] * h - a * h - sx, b * h, c * h], [sx, sy, sz])
        return d, r
    if kind == 'big':
        # many receptor vertices per rank: more than 10 agents are alive at once (the agent array grows)
        dn, rn = ([5, 4], [9, 8]) if twod else ([2, 2, 2], [4, 3, 3])
        size = [1.0] * dim
        a = rng.choice([0.0, 0.07])
        return (box(rng, dn, [0.0] * dim, size, jitter=0.2),
                box(rng, rn, [a] * dim, [1.0 - 2 * a] * dim, jitter=rng.choice([0.0, 0.2])))
    if kind == 'same':
        dn, rn = (nn(2, 6), nn(2, 6)) if twod else (nn(1, 3), nn(1, 3))
        size = [rng.choice([1.0, 2.0, 0.5]) for _ in range(dim)]
        org = [rng.choice([0.0, -0.5]) for _ in range(dim)]
        return box(rng, dn, org, size, jitter=rng.choice([0.0, 0.25])), box(rng, rn, org, size, jitter=rng.choice([0.0, 0.25]))
    if kind == 'round':
        dn, rn = (nn(3, 7), nn(2, 6)) if twod else (nn(2, 3), nn(2, 3))
        size = [2.0] * dim
        org = [-1.0] * dim
        s = rng.choice([1.0, 0.97, 0.8, 1.003])
        d = box(rng, dn, org, size, ids='one', round_=True)
        r = box(rng, rn, [-s] * dim, [2 * s] * dim, ids='one', round_=True)
        return d, r
    if kind == 'roundbox':
        dn, rn = (nn(3, 7), nn(2, 4)) if twod else (nn(2, 3), nn(1, 2))
        d = box(rng, dn, [-1.0] * dim, [2.0] * dim, ids='one', round_=True)
        a = rng.uniform(0.2, 0.5)
        r = box(rng, rn, [-a + rng.uniform(-0.05, 0.05) for _ in range(dim)], [2 * a] * dim)
        return d, r
    if kind == 'strip':
        # a long thin donor under a coarse receptor: the walk from a corner seed to a mid-side vertex needs > 215 steps
        if twod:
            nx = rng.choice([236, 250])
            d = box2(rng, [nx, 1], [0.0, 0.0], [nx * 0.05, 0.05], diag=rng.choice(['main', 'anti', 'random']))
            r = box2(rng, [rng.choice([2, 3]), 1], [0.0, 0.0], [nx * 0.05, 0.05])
        else:
            nx = rng.choice([56, 90])
            d = box3(rng, [nx, 1, 1], [0.0, 0.0, 0.0], [nx * 0.05, 0.05, 0.05])
            r = box3(rng, [2, 1, 1], [0.0, 0.0, 0.0], [nx * 0.05, 0.05, 0.05])
        return d, r
    raise ValueError(kind)


KINDS = ['nested', 'shell', 'offset', 'offset', 'offset', 'same', 'round', 'roundbox', 'stretched', 'partial', 'far', 'strip',
         'big']


def session(rng, np, twod, kind):
    d, r = pair(rng, twod, kind)
    hows = ['x', 'y', 'index', 'random'] + ([] if twod else ['z'])
    down = partition(rng, d, np, rng.choice(hows))
    rown = partition(rng, r, np, rng.choice(hows))
    ops = ['# %s %s np=%d donor %d nodes %d cells, receptor %d nodes' %
           (kind, '2d' if twod else '3d', np, len(d.xyz), len(d.cells), len(r.xyz)),
           'reset %d %d %d' % (np, 1 if twod else 0, rng.randint(1, 10 ** 6))]
    dops, dviews = mesh_ops(d, down, np, True)
    rops, rviews = mesh_ops(r, rown, np, False)
    ops += dops + rops
    for rr in range(np):
        ops.append('geomlist %d' % rr)
        for _ in range(3):
            if dviews[rr][0]:
                ops.append('dadj %d %d' % (rr, rng.randrange(len(dviews[rr][0]))))
            if rviews[rr][0]:
                ops.append('radj %d %d' % (rr, rng.randrange(len(rviews[rr][0]))))
    counts = []
    for rr in range(np):
        counts += [len(dviews[rr][0]), len(dviews[rr][1]), len(dviews[rr][2]),
                   len(rviews[rr][0]), len(rviews[rr][1]), len(rviews[rr][2])]
    # `locate` names the line counts of the session: a session that lost a line is answered `bad-op`, not run
    ops.append('locate ' + ' '.join(str(c) for c in counts))
    return ops


def malformed(np):
    z = H([0.0, 0.0, 0.0])
    return ['dnode 0 0 0 ' + z, 'locate', 'reset %d 2 1' % np, 'reset %d 1' % np, 'reset %d 1 5' % (np + 1),
            'reset %d 1 5' % np, 'locate', 'dnode 0 0 0 ' + z, 'dnode 0 1 0 ' + H([1.0, 0.0, 0.0]),
            'dnode 0 2 0 ' + H([0.0, 1.0, 0.0]), 'dnode %d 0 0 ' % np + z, 'dnode 0 3 %d ' % np + z, 'dnode 0 3 0 zz',
            'dcell 0 0 1 1', 'dcell 0 0 1 1 1', 'dcell 0 0 1 5 1', 'dcell 0 0 1 2 1', 'dbnd 0 0 1 1', 'dbnd 0 0 0 1',
            'dadj 0 0', 'dadj 0 7', 'radj 0 0', 'geomlist 0', 'geomlist %d' % np, 'frobnicate', 'rcell 0 0 1 2 1',
            'locate 1', 'locate ' + ' '.join(['0'] * (6 * np)), 'locate ' + ' '.join(['3', '1', '1', '0', '0', '0'] + ['0'] * (6 * np - 6))]


def gen_locate(rng, tier, np=None):
    npp = np or 1
    ops = []
    reps = 2 if tier == 'quick' else 6
    for _ in range(reps):
        for kind in KINDS:
            for twod in (True, False):
                if kind == 'strip' and not twod and tier == 'quick' and rng.random() < 0.5:
                    continue
                ops += session(rng, npp, twod, kind)
    ops += malformed(npp)
    return ops


# ------------------------------------------------------------------------------------------------ oracle
SITE_NO_DONOR_CORNER = 'interp-geom-nodes-donor-without-corners'


class OSess:
    def __init__(self, np, twod):
        self.np = np
        self.twod = twod
        self.dxyz = [[] for _ in range(np)]     # per rank local donor node coordinates
        self.dglob = [[] for _ in range(np)]
        self.dcells = [[] for _ in range(np)]   # per rank list of local node tuples, index = cell id
        self.rxyz = {}                          # receptor global -> xyz
        self.rown = {}
        self.gcells = None
        self.cache = {}
        self.dgeom = 0                          # geometry nodes reported by `geomlist`, all ranks
        self.tgeom = 0

    def all_cells(self):
        """unique donor cells as coordinate tuples"""
        if self.gcells is None:
            seen = {}
            for r in range(self.np):
                for c in self.dcells[r]:
                    key = tuple(sorted(self.dglob[r][v] for v in c))
                    if key not in seen:
                        seen[key] = [self.dxyz[r][v] for v in c]
            self.gcells = list(seen.values())
        return self.gcells

    def in_domain(self, x):
        key = tuple(x)
        if key not in self.cache:
            ans = False
            for P in self.all_cells():
                m = float_minbary(self.twod, P, x)
                if m is None or m < -1e-6:
                    continue
                b = exact_bary(self.twod, P, x)
                if b is not None and min(b) >= 0:
                    ans = True
                    break
            self.cache[key] = ans
        return self.cache[key]


def parse_locate(out):
    """-> (fuzz, same, [ (rank, counters, [ (glob, cell, part, [b0..b3 or None], stage) ]) ])"""
    w = out.split()
    fuzz = hf(w[1])
    same = int(w[2])
    ranks = []
    i = 3
    while i < len(w):
        assert w[i] == 'R'
        rank = int(w[i + 1])
        counters = [int(v) for v in w[i + 2:i + 10]]
        i += 10
        nodes = []
        while i < len(w) and w[i] == 'N':
            b = [None if v == 'nan' else hf(v) for v in w[i + 4:i + 8]]
            nodes.append((int(w[i + 1]), int(w[i + 2]), int(w[i + 3]), b, int(w[i + 8])))
            i += 9
        ranks.append((rank, counters, nodes))
    return fuzz, same, ranks


def oracle_locate(ops, impl):
    bad = []
    s = None
    for i, (op, out) in enumerate(zip(ops, impl)):
        w = op.split()
        o = out.split()
        if not o:
            bad.append((i, 'empty output line'))
            continue
        if w[0] == 'reset':
            s = OSess(int(w[1]), w[2] == '1') if out == 'ok' else None
            continue
        if s is None or o[0] != 'ok':
            if w[0] == 'locate' and s is not None and o[0] != 'bad-op':
                outside = [g for g, x in s.rxyz.items() if not s.in_domain(x)]
                if outside:
                    continue  # a receptor vertex outside the donor domain: the search may give up (fuzz limit)
                # (until /repo 0166523 a donor without geometry nodes made ref_interp_geom_nodes fail here: finding
                #  interp-geom-nodes-donor-without-corners, fixed; the `roundbox` sessions and two corpus files are its
                #  regression inputs: every receptor vertex must now be located, by the tree stage)
                bad.append((i, 'ref_interp_locate returned %s although every receptor vertex lies in the donor domain'
                            % o[0]))
            continue
        try:
            if w[0] == 'dnode':
                r = int(w[1])
                s.dxyz[r].append(tuple(hf(v) for v in w[4:7]))
                s.dglob[r].append(int(w[2]))
            elif w[0] == 'dcell':
                s.dcells[int(w[1])].append(tuple(int(v) for v in w[2:-1]))
            elif w[0] == 'rnode':
                if w[1] == w[3]:  # the owner's copy (a ghost copy alone says nothing: a shrunk input may have lost the owner)
                    s.rxyz[int(w[2])] = tuple(hf(v) for v in w[4:7])
                    s.rown[int(w[2])] = int(w[3])
            elif w[0] == 'geomlist':
                k = o.index('T')
                s.dgeom += len(o[2:k])
                s.tgeom += len(o[k + 1:])
            elif w[0] == 'locate':
                bad += [(i, m) for m in check_locate(s, out)]
        except (ValueError, IndexError, KeyError, AssertionError) as ex:
            bad.append((i, 'unparsable output %r for %r: %r' % (out[:80], op[:60], ex)))
    return bad


def check_locate(s, out):
    msgs = []
    fuzz, same, ranks = parse_locate(out)
    if same != 1:
        msgs.append('the stage functions called in the order of ref_interp_locate do not reproduce ref_interp_locate')
    seen = set()
    for rank, counters, nodes in ranks:
        for glob, cell, part, b, stage in nodes:
            if s.rown.get(glob) != rank:
                if cell != -1:
                    msgs.append('ghost vertex %d has a donor cell on rank %d' % (glob, rank))
                continue
            seen.add(glob)
            x = s.rxyz[glob]
            where = 'vertex %d %r (stage %d, rank %d)' % (glob, x, stage, rank)
            if cell == -1:
                msgs.append('%s was not located' % where)
                continue
            if any(v is None or not math.isfinite(v) for v in b):
                msgs.append('%s: weight slots %r: a slot was never written (NaN pre-fill) or is not finite' % (where, b))
                continue
            if not (0 <= part < s.np) or not (0 <= cell < len(s.dcells[part])):
                msgs.append('%s: stored (cell %d, part %d) is not a donor cell' % (where, cell, part))
                continue
            if s.twod and b[3] != 0.0:
                msgs.append('%s: 4th slot of a 2-D donor is %r, not 0' % (where, b[3]))
            P = [s.dxyz[part][v] for v in s.dcells[part][cell]]
            eb = exact_bary(s.twod, P, x)
            if eb is None:
                msgs.append('%s: degenerate donor cell stored' % where)
                continue
            for k in range(len(eb)):
                if abs(Fraction(b[k]) - eb[k]) > Fraction(1, 10 ** 9) * (1 + abs(eb[k])):
                    msgs.append('%s: stored weight %d is %r, exact weight of the vertex in the stored cell is %r'
                                % (where, k, b[k], float(eb[k])))
                    break
            tol = Fraction(1, 10 ** 12) * (1 + Fraction(1, 1000))
            if stage in (1, 2) and min(eb) < -tol:
                msgs.append('%s: located by %s in a cell that does not enclose it: exact min weight %.3e < -1e-12'
                            % (where, 'the geometry-node seed' if stage == 1 else 'a walk', float(min(eb))))
            elif min(eb) < -tol and s.in_domain(x):
                msgs.append('%s lies in the donor domain but the stored cell does not enclose it: exact min weight %.3e'
                            % (where, float(min(eb))))
    missing = set(s.rxyz) - seen
    if missing:
        msgs.append('receptor vertices %s are in no dump' % sorted(missing)[:5])
    return msgs


def _nontriv(op, out):
    return op.startswith(('locate', 'geomlist', 'dadj', 'radj')) and out.startswith('ok')


LOCATE = Stream('interp_locate', 'h_interplocate', 'interplocate', gen_locate, oracle=oracle_locate,
                whitebox=['ref_interp'], driver_args=('1',), nontrivial=_nontriv, session='reset', timeout=600)
# one stream per rank count: the model driver is told the size of the world (`refdrv interplocate NP`)
LOCATE_MPI2 = Stream('interp_locate_mpi2', 'h_interplocate', 'interplocate', gen_locate, oracle=oracle_locate,
                     whitebox=['ref_interp'], np=[2], driver_args=('2',), nontrivial=_nontriv, session='reset', timeout=900)
LOCATE_MPI3 = Stream('interp_locate_mpi3', 'h_interplocate', 'interplocate', gen_locate, oracle=oracle_locate,
                     whitebox=['ref_interp'], np=[3], driver_args=('3',), nontrivial=_nontriv, session='reset', timeout=900)
LOCATE_MPI2.ops_file = True
LOCATE_MPI3.ops_file = True


# ------------------------------------------------------------------------------------------------ end to end: `ref interpolate`
CLI_KINDS = ['nested', 'shell', 'offset', 'offset', 'offset', 'same', 'stretched', 'round', 'roundbox', 'big', 'partial']


def off_fields(d):
    """ldim = 3: two fields linear in space and one bounded nonlinear one"""
    a = [float(x) for x in d.get('lin', '1,2,3,4,-2,1,0.5,3').split(',')]

    def f(p):
        x, y, z = (tuple(p) + (0.0, 0.0))[:3]
        return [a[0] + a[1] * x + a[2] * y + a[3] * z, a[4] + a[5] * x + a[6] * y + a[7] * z,
                math.sin(3.0 * x + 0.5) * math.cos(2.0 * y) + 0.25 * math.sin(5.0 * z)]
    return f


def off_pair(d):
    rng = random.Random(int(d.get('mseed', '1')))
    twod = d.get('dim', '2') == '2'
    return pair(rng, twod, d.get('kind', 'offset'))


def write_pair(case, dm, rm):
    dim = 2 if dm.twod else 3

    def cells(m):
        if m.twod:
            return {'tri': [tuple(c) + (1,) for c in m.cells], 'edg': [tuple(f) + (i,) for f, i in m.bnd]}
        return {'tet': [tuple(c) + (1,) for c in m.cells], 'tri': [tuple(f) + (i,) for f, i in m.bnd]}
    pyio.write_meshb(os.path.join(case, 'donor.meshb'), dim, [p[:dim] for p in dm.xyz], cells(dm))
    pyio.write_meshb(os.path.join(case, 'rec.meshb'), dim, [p[:dim] for p in rm.xyz], cells(rm))


def sc_interpoff(ctx, d, case):
    dm, rm = off_pair(d)
    write_pair(case, dm, rm)
    f = off_fields(d)
    dim = 2 if dm.twod else 3
    pyio.write_solb(os.path.join(case, 'donor.solb'), dim, [f(p) for p in dm.xyz], [1, 1, 1])
    np = int(d.get('np', '0'))
    rc, tail = cli.run_ref(ctx, np, ['interpolate', os.path.join(case, 'donor.meshb'), os.path.join(case, 'donor.solb'),
                                     os.path.join(case, 'rec.meshb'), os.path.join(case, 'rec.solb')], case)
    return 'rc=%d dir=%s' % (rc, case)


cli.SCENARIOS['interpoff'] = sc_interpoff


def oracle_interpoff(ops, impl):
    bad = []
    for i, (op, line) in enumerate(zip(ops, impl)):
        d = cli.kv(op)
        o = cli.parse_out(line)
        twod = d.get('dim', '2') == '2'
        try:
            dmesh = pyio.read_meshb(os.path.join(o['dir'], 'donor.meshb'))
            rmesh = pyio.read_meshb(os.path.join(o['dir'], 'rec.meshb'))
            ds = pyio.read_solb(os.path.join(o['dir'], 'donor.solb'))
        except Exception as ex:
            bad.append((i, 'input files unreadable: %r' % (ex,)))
            continue
        s = OSess(1, twod)
        pts = [tuple(p) + (0.0,) * (3 - len(p)) for p in dmesh['verts']]
        s.dxyz[0] = pts
        s.dglob[0] = list(range(len(pts)))
        s.dcells[0] = [tuple(c[:-1]) for c in dmesh['cells']['tri' if twod else 'tet']]
        if o.get('rc') != '0':
            # a receptor vertex outside the donor domain may be beyond every search sphere: ref_interp_locate then gives up
            # after 12 fuzz increases ("unable to grow fuzz"); the property only speaks about vertices inside the domain
            if all(s.in_domain(tuple(p) + (0.0,) * (3 - len(p))) for p in rmesh['verts']):
                bad.append((i, 'interpolate exited with status %s although every receptor vertex lies in the donor domain'
                            % o.get('rc')))
            continue
        try:
            rs = pyio.read_solb(os.path.join(o['dir'], 'rec.solb'))
        except Exception as ex:
            bad.append((i, 'result file unreadable: %r' % (ex,)))
            continue
        if len(rs['values']) != len(rmesh['verts']) or rs['ldim'] != 3:
            bad.append((i, 'receptor field has %d x %d entries for %d vertices, ldim 3'
                        % (len(rs['values']), rs['ldim'], len(rmesh['verts']))))
            continue
        f = off_fields(d)
        sc = max(max(abs(x) for x in r) for r in ds['values'])
        lo = [min(r[k] for r in ds['values']) for k in range(3)]
        hi = [max(r[k] for r in ds['values']) for k in range(3)]
        for n, p in enumerate(rmesh['verts']):
            x = tuple(p) + (0.0,) * (3 - len(p))
            v = rs['values'][n]
            for k in range(3):
                eps = 1e-12 * max(abs(lo[k]), abs(hi[k]), 1e-300)
                if not (lo[k] - eps <= v[k] <= hi[k] + eps):
                    bad.append((i, 'C11 receptor vertex %d %r component %d = %.17g leaves the donor range [%.17g, %.17g]'
                                % (n, x, k, v[k], lo[k], hi[k])))
                    break
            else:
                if s.in_domain(x):
                    ex = f(x)
                    for k in range(2):
                        if abs(ex[k] - v[k]) > 1e-10 * sc:
                            bad.append((i, 'C11 linear field %d not reproduced at receptor vertex %d %r, which lies inside '
                                           'the donor domain: %.17g, exact %.17g (error %.3e)'
                                        % (k, n, x, v[k], ex[k], abs(ex[k] - v[k]))))
                            break
                    else:
                        continue
                    break
                continue
            break
    return bad


def gen_interpoff(rng, tier, np=None):
    ops = []
    for _ in range(8 if tier == 'quick' else 30):
        op = 'interpoff dim=%d kind=%s mseed=%d lin=%s' % (
            rng.choice([2, 3]), rng.choice(CLI_KINDS), rng.randint(1, 10 ** 6),
            ','.join('%.2f' % rng.uniform(-3, 3) for _ in range(8)))
        if np:
            op += ' np=%d' % np
        ops.append(op)
    return ops


CLI_OFFSET = Stream('cli_interp_offset', cli.cli_harness, None, gen_interpoff, oracle=oracle_interpoff, kind='oracle',
                    nontrivial=lambda op, out: out.startswith('rc=0'), timeout=900)
CLI_OFFSET_MPI = Stream('cli_interp_offset_mpi', cli.cli_harness, None, gen_interpoff, oracle=oracle_interpoff, kind='oracle',
                        np=[2, 3], nontrivial=lambda op, out: out.startswith('rc=0'), timeout=900)
