"""streams for harness/driver `containers` (C14 part A): ref_list, ref_dict, ref_adj, ref_sort.

Generators: exhaustive small arrays for the sort/unique/search routines, seeded larger arrays, and
stateful op sequences with adversarial id patterns.  Oracles state the property directly on the
implementation's own output lines with trivial Python list/dict models (independent of the Lean model).
"""
import itertools
import struct

from .common import Stream

INT_MIN, INT_MAX = -2 ** 31, 2 ** 31 - 1
ALPHA_INT = [INT_MIN, -1, 0, 1, 2, 5, INT_MAX]           # 7 letters, REF_EMPTY and the extremes included
ALPHA_GLOB = [-2 ** 63, -1, 0, 1, 2 ** 31, 2 ** 40, 2 ** 63 - 1]


def hexd(x):
    return '%016x' % struct.unpack('<Q', struct.pack('<d', x))[0]


def unhex(s):
    return struct.unpack('<d', struct.pack('<Q', int(s, 16)))[0]


ALPHA_DBL = [float('-inf'), -1.5, -0.0, 0.0, 5e-324, 1.0, float('inf')]
NAN = '7ff8000000000000'


# ---------------------------------------------------------------------------------------------
# sort / unique / search: exhaustive small scope
# ---------------------------------------------------------------------------------------------
def gen_sort_exhaustive(rng, tier):
    full = 5 if tier == 'quick' else 6       # every routine on every array up to this length
    top = 5 if tier == 'quick' else 7        # int sort/unique on every array up to this length
    ops = []
    for n in range(0, top + 1):
        for tup in itertools.product(range(7), repeat=n):
            xi = ' '.join(str(ALPHA_INT[k]) for k in tup)
            if n <= 6:
                ops.append(('isort ' + xi).strip())
            ops.append(('hsort_int ' + xi).strip())
            ops.append(('unique ' + xi).strip())
            if n <= full:
                xg = ' '.join(str(ALPHA_GLOB[k]) for k in tup)
                ops.append(('hsort_glob ' + xg).strip())
                ops.append(('inplace_glob ' + xg).strip())
            if n <= 5:
                ops.append(('hsort_dbl ' + ' '.join(hexd(ALPHA_DBL[k]) for k in tup)).strip())
            nondecr = all(tup[k] <= tup[k + 1] for k in range(n - 1))
            if nondecr or n <= 3:
                # every letter as target; sorted arrays are the specified domain, short unsorted ones tie the loop
                for t in range(7):
                    ops.append(('search_int %d ' % ALPHA_INT[t] + xi).strip())
                    ops.append(('search_glob %d ' % ALPHA_GLOB[t] + ' '.join(str(ALPHA_GLOB[k]) for k in tup)).strip())
            # -0.0 and 0.0 compare equal: the dbl alphabet order is non-strict at letters 2,3
            if nondecr or n <= 4:
                xd = ' '.join(hexd(ALPHA_DBL[k]) for k in tup)
                for t in list(range(7)) + [None]:
                    ops.append(('search_dbl %s ' % (NAN if t is None else hexd(ALPHA_DBL[t])) + xd).strip())
                for t in (-2.0, 0.5, 2.0, 1e300):
                    ops.append(('search_dbl %s ' % hexd(t) + xd).strip())
    # `same` on all pairs of arrays of equal length <= 3 over a 4-letter alphabet
    for n in range(0, 4):
        arrs = list(itertools.product([INT_MIN, -1, 0, 7], repeat=n))
        for a in arrs:
            for b in arrs:
                ops.append('same %d %s %s' % (n, ' '.join(map(str, a)), ' '.join(map(str, b))))
    return ops


def _ints(ws):
    return [int(w) for w in ws]


def oracle_sort(ops, impl):
    bad = []
    for i, (o, r) in enumerate(zip(ops, impl)):
        w = o.split()
        rw = r.split()
        op = w[0]
        if r == 'bad-op':
            continue
        try:
            if op == 'isort' or op == 'inplace_glob':
                x = _ints(w[1:])
                if rw[0] != 'ok' or _ints(rw[1:]) != sorted(x):
                    bad.append((i, '%s: output is not the sorted permutation of the input: %s -> %s' % (op, o, r)))
            elif op in ('hsort_int', 'hsort_glob', 'hsort_dbl'):
                x = [unhex(t) for t in w[1:]] if op == 'hsort_dbl' else _ints(w[1:])
                idx = _ints(rw[1:])
                if rw[0] != 'ok' or sorted(idx) != list(range(len(x))):
                    bad.append((i, '%s: sorted_index is not a permutation of 0..n-1: %s -> %s' % (op, o, r)))
                elif not any(v != v for v in x):
                    y = [x[k] for k in idx]
                    if any(y[k] > y[k + 1] for k in range(len(y) - 1)):
                        bad.append((i, '%s: original[sorted_index] is not non-decreasing: %s -> %s' % (op, o, r)))
            elif op == 'unique':
                x = _ints(w[1:])
                exp = sorted(set(x))      # every length, the empty list included (nunique = 0)
                if rw[0] != 'ok' or int(rw[1]) != len(exp) or _ints(rw[2:]) != exp:
                    bad.append((i, 'unique: not the sorted set of the input: %s -> %s' % (o, r)))
            elif op == 'same':
                n = int(w[1])
                a, b = _ints(w[2:2 + n]), _ints(w[2 + n:])
                exp = 1 if set(a) == set(b) else 0
                if rw[0] != 'ok' or int(rw[1]) != exp:
                    bad.append((i, 'same: %s -> %s, expected %d' % (o, r, exp)))
            elif op in ('search_int', 'search_glob'):
                t, x = int(w[1]), _ints(w[2:])
                if all(x[k] <= x[k + 1] for k in range(len(x) - 1)):
                    pos = int(rw[1])
                    if t in x:
                        if rw[0] != 'ok' or not (0 <= pos < len(x)) or x[pos] != t:
                            bad.append((i, '%s: present target not located: %s -> %s' % (op, o, r)))
                    elif rw[0] != 'not_found' or pos != -1:
                        bad.append((i, '%s: absent target must give not_found -1: %s -> %s' % (op, o, r)))
            elif op == 'search_dbl':
                if r == 'nan-list':
                    continue
                t, x = unhex(w[1]), [unhex(v) for v in w[2:]]
                n = len(x)
                pos = int(rw[1])
                if t != t:
                    continue  # NaN target: no bracket exists; only the correspondence is checked
                if n == 0:
                    ok = rw[0] == 'not_found'
                elif n == 1:
                    ok = rw[0] == 'ok' and pos == 0
                elif t <= x[0]:
                    ok = rw[0] == 'ok' and pos == 0
                elif t >= x[-1]:
                    ok = rw[0] == 'ok' and pos == n - 2
                else:
                    ok = rw[0] == 'ok' and 0 <= pos <= n - 2 and x[pos] <= t < x[pos + 1]
                if not ok:
                    bad.append((i, 'search_dbl: not the bracketing interval / clamp: %s -> %s' % (o, r)))
            elif op == 'shuffle':
                n = int(w[1])
                if rw[0] != 'ok' or sorted(_ints(rw[1:])) != list(range(n)):
                    bad.append((i, 'shuffle: not a permutation of 0..n-1: %s -> %s' % (o, r)))
            elif op == 'rand_in_range':
                lo, hi = int(w[1]), int(w[2])
                if not (lo <= int(r) <= hi):
                    bad.append((i, 'rand_in_range outside [min,max]: %s -> %s' % (o, r)))
        except (ValueError, IndexError):
            bad.append((i, 'malformed output line for %s: %r' % (o, r)))
    return bad


# ---------------------------------------------------------------------------------------------
# sort / search: seeded larger inputs
# ---------------------------------------------------------------------------------------------
def _array(rng, n, kind):
    if kind == 'asc':
        return sorted(rng.randint(-1000, 1000) for _ in range(n))
    if kind == 'desc':
        return sorted((rng.randint(-1000, 1000) for _ in range(n)), reverse=True)
    if kind == 'const':
        return [rng.choice([-1, 0, 7])] * n
    if kind == 'few':
        return [rng.choice([-1, 0, 3, INT_MAX, INT_MIN]) for _ in range(n)]
    if kind == 'organ':
        h = list(range(n // 2))
        return h + h[::-1] + ([0] if n % 2 else [])
    return [rng.randint(INT_MIN, INT_MAX) for _ in range(n)]


def gen_sort_random(rng, tier):
    ops = []
    reps = 60 if tier == 'quick' else 400
    big = 600 if tier == 'quick' else 3000
    kinds = ['asc', 'desc', 'const', 'few', 'organ', 'rand']
    for r in range(reps):
        n = rng.choice([rng.randint(0, 12), rng.randint(8, 70), rng.randint(60, big)])
        x = _array(rng, n, kinds[r % len(kinds)])
        xs = ' '.join(map(str, x))
        ops.append(('hsort_int ' + xs).strip())
        ops.append(('hsort_glob ' + ' '.join(str(v * 2 ** 31) for v in x)).strip())
        ops.append(('inplace_glob ' + ' '.join(str(v * 2 ** 31 + 1) for v in x)).strip())
        if n <= 300:
            ops.append(('isort ' + xs).strip())
            ops.append(('unique ' + xs).strip())
        d = [float(v) / 3.0 for v in x]
        if d and rng.random() < 0.3:
            d[rng.randrange(len(d))] = rng.choice([float('inf'), float('-inf'), -0.0])
        ops.append(('hsort_dbl ' + ' '.join(hexd(v) for v in d)).strip())
        if d and rng.random() < 0.2:   # NaN: the order is undefined, only permutation-ness + the tie are checked
            d2 = list(d)
            d2[rng.randrange(len(d2))] = float('nan')
            ops.append('hsort_dbl ' + ' '.join(NAN if v != v else hexd(v) for v in d2))
        # searches in a sorted list: every position class, both sides of the n = 10/11 and odd/even sizes
        s = sorted(x)
        if n <= 80 or r % 5 == 0:
            ss = ' '.join(map(str, s))
            targets = set(s[:3] + s[-3:] + [rng.choice(s) for _ in range(6)] if s else [])
            targets |= {t + 1 for t in list(targets) if t < INT_MAX} | {t - 1 for t in list(targets) if t > INT_MIN}
            targets |= {INT_MIN, INT_MAX, 0}
            for t in sorted(targets):
                ops.append(('search_int %d ' % t + ss).strip())
            for t in sorted(targets)[:8]:
                ops.append(('search_glob %d ' % (t * 2 ** 31) + ' '.join(str(v * 2 ** 31) for v in s)).strip())
            sd = sorted(float(v) / 3.0 for v in x)
            if r % 4 == 1:      # NaN-free but unsorted: the loop still ends in a bracket (proved over a linear order)
                rng.shuffle(sd)
            sds = ' '.join(hexd(v) for v in sd)
            for t in sorted(targets)[:10]:
                ops.append(('search_dbl %s ' % hexd(float(t) / 3.0) + sds).strip())
                ops.append(('search_dbl %s ' % hexd(float(t) / 3.0 + 0.1) + sds).strip())
        if n >= 1 and r % 3 == 0:
            m = min(n, 6)
            a = [rng.choice(x) for _ in range(m)]
            b = list(a)
            rng.shuffle(b)
            if rng.random() < 0.5:
                b[rng.randrange(m)] = rng.choice(x)
            ops.append('same %d %s %s' % (m, ' '.join(map(str, a)), ' '.join(map(str, b))))
        if r % 2 == 0:
            m = rng.choice([0, 1, 2, 3, rng.randint(2, 40)])
            rs = [rng.choice([0, 1, INT_MAX, rng.randint(0, INT_MAX)]) for _ in range(rng.choice([0, m // 2, m, m + 3]))]
            ops.append(('shuffle %d ' % m + ' '.join(map(str, rs))).strip())
            lo = rng.randint(-50, 50)
            ops.append('rand_in_range %d %d %d' % (lo, lo + rng.randint(0, 20), rng.randint(0, INT_MAX)))
    return ops


# ---------------------------------------------------------------------------------------------
# ref_list
# ---------------------------------------------------------------------------------------------
LVALS = [-1, 0, 1, 2, 3, -7, INT_MAX, INT_MIN]


def gen_list(rng, tier):
    ops = []
    nsess = 10 if tier == 'quick' else 60
    for s in range(nsess):
        ops.append('reset')
        length = rng.choice([40, 300, 1400, 2000])
        pattern = s % 5
        k = 0
        while k < length:
            k += 1
            u = rng.random()
            if pattern == 0 and k <= 1100:      # straight growth across max = 10 and 1010
                ops.append('lpush %d' % (2000 - k))
            elif pattern == 1 and k <= 30:
                ops.append('lpush %d' % rng.choice([-1, 5, 5, 7]))
            elif u < 0.45:
                ops.append('lpush %d' % rng.choice(LVALS))
            elif u < 0.55:
                ops.append('lpop')
            elif u < 0.65:
                ops.append('lshift')
            elif u < 0.75:
                ops.append('ldelete %d' % rng.choice(LVALS + [99]))
            elif u < 0.77:
                ops.append('lerase' if rng.random() < 0.3 else 'lcopy')
            elif u < 0.9:
                ops.append('lcontains %d' % rng.choice(LVALS + [99]))
            else:
                ops.append('lvalue %d' % rng.choice([-1, 0, 1, rng.randint(0, 30), 5000]))
            if k % 64 == 0:
                ops.append('ldump')
        ops.append('ldump')
        for _ in range(3):
            ops.append('lpop')
        ops.append('ldump')
    return ops


def oracle_list(ops, impl):
    bad = []
    m, mx = [], 10
    for i, (o, r) in enumerate(zip(ops, impl)):
        w = o.split()
        op = w[0]
        exp = None
        if op == 'reset':
            m, mx, exp = [], 10, 'ok'
        elif op == 'lpush':
            if mx == len(m):
                mx += 1000
            m.append(int(w[1]))
            exp = 'ok'
        elif op == 'lpop':
            exp = 'ok %d' % m.pop() if m else 'failure -1'
        elif op == 'lshift':
            exp = 'ok %d' % m.pop(0) if m else 'failure -1'
        elif op == 'ldelete':
            v = int(w[1])
            if v in m:
                m = [x for x in m if x != v]
                exp = 'ok'
            else:
                exp = 'not_found'
        elif op == 'lerase':
            m, exp = [], 'ok'
        elif op == 'lcopy':
            exp = 'ok'
        elif op == 'lcontains':
            exp = 'ok %d' % (1 if int(w[1]) in m else 0)
        elif op == 'lvalue':
            k = int(w[1])
            exp = str(m[k]) if 0 <= k < len(m) else 'range'
        elif op == 'ldump':
            exp = ' '.join(['list', str(len(m)), str(mx)] + [str(x) for x in m])
        if exp is not None and r != exp:
            bad.append((i, 'ref_list disagrees with the abstract list: %s -> %s, expected %s' % (o, r[:200], exp[:200])))
            break
    return bad


# ---------------------------------------------------------------------------------------------
# ref_dict
# ---------------------------------------------------------------------------------------------
def gen_dict(rng, tier):
    ops = []
    nsess = 10 if tier == 'quick' else 60
    for s in range(nsess):
        ops.append('reset')
        pattern = s % 5
        length = rng.choice([60, 400, 1500])
        span = rng.choice([8, 14, 40, 3000])
        k = 0

        def key():
            u = rng.random()
            if u < 0.1:
                return rng.choice([-1, INT_MIN, INT_MAX, 0])
            return rng.randint(-span, span)
        while k < length:
            k += 1
            u = rng.random()
            if pattern == 0 and k <= 1100:        # descending keys: every store shifts the whole array; crosses 10, 1010
                ops.append('dstore %d %d' % (5000 - 3 * k, k))
            elif pattern == 1 and k <= 1100:      # ascending
                ops.append('dstore %d %d' % (3 * k, -k))
            elif pattern == 2 and k <= 24:        # hover around the linear/binary switch at n = 10/11
                ops.append(rng.choice(['dstore %d %d' % (k % 13, k), 'dremove %d' % (k % 13), 'dloc %d' % (k % 13)]))
            elif u < 0.4:
                ops.append('dstore %d %d' % (key(), rng.choice([-1, 0, rng.randint(-9, 9)])))
            elif u < 0.55:
                ops.append('dremove %d' % key())
            elif u < 0.7:
                ops.append('dloc %d' % key())
            elif u < 0.82:
                ops.append('dvalue %d' % key())
            elif u < 0.87:
                ops.append('dhaskey %d' % key())
            elif u < 0.92:
                ops.append('dhasvalue %d' % rng.choice([-1, 0, 5, rng.randint(-9, 9), 77]))
            elif u < 0.95:
                ops.append('dkey %d' % rng.choice([-1, 0, 1, rng.randint(0, 20), 99999]))
            elif u < 0.98:
                ops.append('dkeyvalue %d' % rng.choice([-1, 0, 1, rng.randint(0, 20), 99999]))
            else:
                ops.append('dcopy')
            if k % 64 == 0:
                ops.append('ddump')
        ops.append('ddump')
        if pattern in (0, 1):   # probe every slot class of the binary search in a large dictionary
            for t in range(40):
                ops.append('dloc %d' % rng.randint(-10, 5010))
                ops.append('dvalue %d' % rng.randint(-10, 5010))
    return ops


def oracle_dict(ops, impl):
    bad = []
    m, mx = {}, 10
    for i, (o, r) in enumerate(zip(ops, impl)):
        w = o.split()
        op = w[0]
        exp = None
        keys = sorted(m)
        if op == 'reset':
            m, mx, exp = {}, 10, 'ok'
        elif op == 'dstore':
            if mx == len(m):   # the C grows before looking the key up, even when the key is present
                mx += 1000
            m[int(w[1])] = int(w[2])
            exp = 'ok'
        elif op == 'dloc':
            k = int(w[1])
            exp = 'ok %d' % keys.index(k) if k in m else 'not_found -1'
        elif op == 'dremove':
            k = int(w[1])
            if k in m:
                del m[k]
                exp = 'ok'
            else:
                exp = 'not_found'
        elif op == 'dvalue':
            k = int(w[1])
            exp = 'ok %d' % m[k] if k in m else 'not_found'
        elif op == 'dhaskey':
            exp = '1' if int(w[1]) in m else '0'
        elif op == 'dhasvalue':
            exp = '1' if int(w[1]) in m.values() else '0'
        elif op == 'dkey':
            k = int(w[1])
            exp = str(keys[k]) if 0 <= k < len(keys) else '-1'
        elif op == 'dkeyvalue':
            k = int(w[1])
            exp = str(m[keys[k]]) if 0 <= k < len(keys) else '-1'
        elif op == 'dcopy':
            exp = 'ok'
        elif op == 'ddump':
            exp = ' '.join(['dict', str(len(m)), str(mx)] + ['%d %d' % (k, m[k]) for k in keys])
        if exp is not None and r != exp:
            bad.append((i, 'ref_dict disagrees with the abstract map: %s -> %s, expected %s' % (o, r[:200], exp[:200])))
            break
    return bad


# ---------------------------------------------------------------------------------------------
# ref_adj
# ---------------------------------------------------------------------------------------------
def gen_adj(rng, tier):
    ops = []
    nsess = 10 if tier == 'quick' else 60
    for s in range(nsess):
        ops.append('reset')
        pattern = s % 5
        length = rng.choice([80, 500, 2000])
        nodes = rng.choice([4, 12, 60])
        refs = rng.choice([3, 10, 1000])
        k = 0
        live = []   # (node, ref) pairs believed present, to aim removals

        def node():
            u = rng.random()
            if u < 0.04:
                return rng.choice([-1, -5, INT_MIN])
            if u < 0.08:
                return rng.choice([9, 10, 11, 109, 110, 111, 250, rng.randint(100, 3000)])
            return rng.randint(0, nodes)

        def ref():
            u = rng.random()
            if u < 0.08:
                return rng.choice([-1, INT_MIN, INT_MAX])
            return rng.randint(0, refs)
        while k < length:
            k += 1
            u = rng.random()
            if pattern == 0 and k <= 800:       # pure growth: items 20 -> 120 -> 220 -> 330 -> 495 -> 742 -> 1113
                n, r = (800 - k) % 37, k % 5
                ops.append('aadd %d %d' % (n, r))
                live.append((n, r))
            elif pattern == 1 and k <= 300:     # fill / drain cycles: the free list is rebuilt in removal order
                if (k // 25) % 2 == 0 or not live:
                    n, r = k % 3, k % 4
                    ops.append('aadd %d %d' % (n, r))
                    live.append((n, r))
                else:
                    n, r = live.pop(rng.randrange(len(live)))
                    ops.append('aremove %d %d' % (n, r))
            elif u < 0.4:
                n, r = node(), ref()
                ops.append('aadd %d %d' % (n, r))
                if n >= 0:
                    live.append((n, r))
            elif u < 0.48:
                n, r = node(), ref()
                ops.append('aaddu %d %d' % (n, r))
                live.append((n, r))
            elif u < 0.68 and live:
                n, r = live.pop(rng.randrange(len(live)))
                ops.append('aremove %d %d' % (n, r))
            elif u < 0.75:
                ops.append('aremove %d %d' % (node(), ref()))
            elif u < 0.83:
                ops.append('alist %d' % node())
            elif u < 0.88:
                ops.append('adegree %d' % node())
            elif u < 0.92:
                ops.append('aempty %d' % node())
            elif u < 0.95:
                ops.append('aitems %d' % node())
            elif u < 0.98:
                ops.append('amindeg')
            else:
                ops.append('acopy')
            if k % 64 == 0:
                ops.append('adump')
        ops.append('adump')
        for n in range(0, nodes + 1):
            ops.append('alist %d' % n)
    return ops


def _walk(nxt, start, limit):
    out = []
    it = start
    while it != -1:
        if not (0 <= it < len(nxt)) or len(out) > limit:
            return None
        out.append(it)
        it = nxt[it]
    return out


def oracle_adj(ops, impl):
    bad = []
    m = {}          # node -> list of refs, most recent first
    nnode = 10

    def lst(n):
        return m.get(n, [])
    for i, (o, r) in enumerate(zip(ops, impl)):
        w = o.split()
        op = w[0]
        exp = None
        if op == 'reset':
            m, nnode, exp = {}, 10, 'ok'
        elif op in ('aadd', 'aaddu'):
            n, rf = int(w[1]), int(w[2])
            if op == 'aaddu' and rf in lst(n):
                exp = 'ok'
            elif n < 0:
                exp = 'invalid'
            else:
                m[n] = [rf] + lst(n)
                exp = 'ok'
        elif op == 'aremove':
            n, rf = int(w[1]), int(w[2])
            if rf in lst(n):
                m[n].remove(rf)      # first occurrence in iteration order
                exp = 'ok'
            else:
                exp = 'invalid'
        elif op == 'alist':
            exp = ' '.join(['refs'] + [str(x) for x in lst(int(w[1]))])
        elif op == 'adegree':
            exp = 'ok %d' % len(lst(int(w[1])))
        elif op == 'aempty':
            exp = '1' if not lst(int(w[1])) else '0'
        elif op == 'amindeg':
            cand = [(len(v), n) for n, v in m.items() if v]
            exp = 'ok %d %d' % min(cand) if cand else 'ok -1 -1'
        elif op == 'acopy':
            exp = 'ok'
        elif op == 'aitems':
            rw = r.split()
            if rw[0] != 'items' or len(rw) - 1 != len(lst(int(w[1]))) or len(set(rw[1:])) != len(rw) - 1:
                bad.append((i, 'ref_adj item walk is not a duplicate-free list of the right length: %s -> %s' % (o, r[:200])))
                break
        elif op == 'adump':
            msg = _check_adump(r, m)
            if msg:
                bad.append((i, 'ref_adj state dump: ' + msg))
                break
        if exp is not None and r != exp:
            bad.append((i, 'ref_adj disagrees with the abstract node->list map: %s -> %s, expected %s' % (o, r[:200], exp[:200])))
            break
    return bad


def _check_adump(line, m):
    w = line.split()
    try:
        if w[0] != 'adj':
            return 'malformed'
        nnode, nitem, blank = int(w[1]), int(w[2]), int(w[3])
        fi, ni, ri = w.index('F'), w.index('N'), w.index('R')
        first = [int(x) for x in w[fi + 1:ni]]
        nxt = [int(x) for x in w[ni + 1:ri]]
        ref = [int(x) for x in w[ri + 1:]]
    except (ValueError, IndexError):
        return 'malformed'
    if len(first) != nnode or len(nxt) != nitem or len(ref) != nitem:
        return 'array lengths do not match nnode/nitem'
    seen = []
    b = _walk(nxt, blank, nitem)
    if b is None:
        return 'blank chain leaves the item array or does not end'
    if any(ref[k] != -1 for k in b):
        return 'a blank item has ref != REF_EMPTY'
    seen += b
    for n in range(nnode):
        c = _walk(nxt, first[n], nitem)
        if c is None:
            return 'chain of node %d leaves the item array or does not end' % n
        if [ref[k] for k in c] != m.get(n, []):
            return 'node %d holds %s, abstract map says %s' % (n, [ref[k] for k in c][:20], m.get(n, [])[:20])
        seen += c
    if any(v and n >= nnode for n, v in m.items()):
        return 'a non-empty node lies beyond nnode'
    if sorted(seen) != list(range(nitem)):
        return 'chains are not disjoint or do not cover all items'
    return None


def _nontrivial(op, out):
    return out not in ('bad-op', 'ok', 'nan-list')


SORT_EXH = Stream('cont_sort_exhaustive', 'h_containers', 'containers', gen_sort_exhaustive, oracle=oracle_sort,
                  nontrivial=_nontrivial, batches={'quick': 1, 'thorough': 1})
SORT_RND = Stream('cont_sort_random', 'h_containers', 'containers', gen_sort_random, oracle=oracle_sort,
                  nontrivial=_nontrivial)
LIST = Stream('cont_list', 'h_containers', 'containers', gen_list, oracle=oracle_list, nontrivial=_nontrivial)
DICT = Stream('cont_dict', 'h_containers', 'containers', gen_dict, oracle=oracle_dict, nontrivial=_nontrivial)
ADJ = Stream('cont_adj', 'h_containers', 'containers', gen_adj, oracle=oracle_adj, nontrivial=_nontrivial)



def gen_validate(rng, tier):
    """the same stateful sessions, with a full state dump after every few operations"""
    out = []
    for gen, dump in ((gen_adj, 'adump'), (gen_dict, 'ddump'), (gen_list, 'ldump')):
        k = 0
        for o in gen(rng, tier):
            out.append(o)
            k += 1
            if o.split()[0] not in (dump, 'reset') and (k % 5 == 0 or (300 <= k % 1000 < 340)):
                out.append(dump)
    return out


# model invariants (RAdj.Inv / RDict.Inv / RList.Inv, via their proved-equivalent executable checkers)
# evaluated on the implementation's own state dumps
VALIDATE = Stream('cont_state_invariants', 'h_containers', 'containers', gen_validate, kind='validate',
                  driver_args=('validate',), nontrivial=_nontrivial)

STREAMS = [SORT_EXH, SORT_RND, LIST, DICT, ADJ, VALIDATE]
