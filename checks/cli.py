"""End-to-end streams: the real `ref` / `refmpi` programs, rebuilt from /repo's working tree, run on generated
meshes and fields; the result files are parsed by checks/pyio.py and judged by checks/oracles.py.

An op line is a scenario:  <cmd> key=value ...   (everything, including the mesh, is regenerated from the line,
so a replay file needs nothing but the op lines).  One output line per op:  rc=<exit> dir=<case dir> [extra].
"""
import os
import random
import subprocess

from . import common, pyio, meshgen, oracles
from .common import Stream, BuildError

MPIRUN = ['mpiexec', '--allow-run-as-root', '--oversubscribe']


def build_ref(ctx, mpi):
    key = ('ref', mpi)
    if key in ctx.harness_exe:
        return ctx.harness_exe[key]
    d = common.build_objs(ctx, mpi=mpi, sanitize=not mpi)
    cc = 'mpicc' if mpi else 'gcc'
    flags = common.BASE_FLAGS + ([] if mpi else common.SAN_FLAGS) + (['-DHAVE_MPI'] if mpi else [])
    exe = os.path.join(ctx.build, 'refmpi' if mpi else 'ref')
    objs = [os.path.join(d, s + '.o') for s in common.CORE_SRC if os.path.exists(os.path.join(d, s + '.o'))]
    cmd = [cc] + flags + [os.path.join(common.REPO, 'src', 'ref_subcommand.c')] + objs + ['-lm', '-o', exe]
    p = subprocess.run(cmd, capture_output=True, text=True)
    if p.returncode != 0:
        raise BuildError('ref%s failed to build: %s' % ('mpi' if mpi else '', (p.stdout + p.stderr)[-3000:]))
    ctx.harness_exe[key] = exe
    return exe


def kv(op):
    w = op.split()
    d = {'cmd': w[0]}
    for x in w[1:]:
        k, _, v = x.partition('=')
        d[k] = v
    return d


def knobs(d):
    """guarded verification knobs (hook commit f89843c) selected by op keys full= native= chunk="""
    env = {}
    if d.get('full', '0') == '1':
        env['REF_VERIF_PARTITIONER_FULL'] = '1'
    if d.get('native', '0') == '1':
        env['REF_VERIF_NATIVE_ALLTOALLV'] = '1'
    if 'chunk' in d:
        # the limit is a verification knob, not a user option: it must hold at least one gather record
        # ((3 + ldim + 1) doubles), otherwise the chunk of the gather loops is 0 and they never advance (DESIGN 8, item 6:
        # unreachable with the default limit; a smaller value here would be a misuse by the generator - it was, at
        # thorough seed 1 with ldim = 11 and chunk = 64)
        floor = 8 * (int(d.get('ldim', '8')) + 4)
        env['REF_VERIF_REDUCE_BYTE_LIMIT'] = str(max(int(d['chunk']), floor))
    return env


def run_ref(ctx, np, args, cwd, timeout=240, env_extra=None):
    exe = build_ref(ctx, np is not None and np > 0)
    env = dict(os.environ)
    env['ASAN_OPTIONS'] = 'detect_leaks=0:exitcode=99'
    env['UBSAN_OPTIONS'] = 'halt_on_error=1:exitcode=98'
    env['MALLOC_PERTURB_'] = str(1 + (ctx.seed * 37 + 11) % 254)
    env['OMPI_MCA_mpi_yield_when_idle'] = '1'   # ranks are over-subscribed: do not spin
    if env_extra:
        env.update(env_extra)
    cmd = ([exe] if not np else MPIRUN + ['-n', str(np), exe]) + args
    try:
        p = subprocess.run(cmd, cwd=cwd, capture_output=True, text=True, timeout=timeout, env=env)
        return p.returncode, (p.stdout[-1500:] + p.stderr[-1500:])
    except subprocess.TimeoutExpired:
        return -9, 'TIMEOUT'


# ------------------------------------------------------------------ scenario pieces
def make_mesh(d, case):
    """mesh from scenario keys: dim, n=a,b[,c], jitter, patches, lengths, warp, mseed"""
    rng = random.Random(int(d.get('mseed', '1')))
    dim = int(d.get('dim', '3'))
    n = [int(x) for x in d.get('n', '2,2,2').split(',')]
    jitter = float(d.get('jitter', '0'))
    lengths = [float(x) for x in d.get('len', '1,1,1').split(',')]
    if dim == 3:
        grade = [float(x) for x in d.get('grade', '1,1,1').split(',')]
        v, t, s = meshgen.box_tets(n[0], n[1], n[2], rng, jitter, lengths, d.get('patches', 'sides'),
                                   float(d.get('warp', '0')), grade, float(d.get('shear', '0')))
        cells = {'tet': t, 'tri': s}
    else:
        v, t, e = meshgen.square_tris(n[0], n[1], rng, jitter, lengths[:2], d.get('patches', 'sides'))
        cells = {'tri': t, 'edg': e}
    path = os.path.join(case, 'in.meshb')
    pyio.write_meshb(path, dim, v, cells, version=int(d.get('mv', '2')))
    return dim, v, cells, path


def metric_fn(spec, dim):
    kind, _, args = spec.partition(':')
    a = [float(x) for x in args.split(',')] if args else []
    if kind == 'uniform':
        return meshgen.metric_uniform(a[0])
    if kind == 'aniso':
        return meshgen.metric_aniso(a[0], a[1], a[2] if dim == 3 else 1.0)
    if kind == 'linh':
        return meshgen.metric_linear_h(a[0], a[1], int(a[2]) if len(a) > 2 else 0)
    if kind == 'rot':  # constant anisotropic metric rotated about z by angle a[3]
        import math
        hx, hy, hz, th = a
        c, s = math.cos(th), math.sin(th)
        lx, ly, lz = 1 / hx ** 2, 1 / hy ** 2, 1 / hz ** 2
        m11 = c * c * lx + s * s * ly
        m12 = c * s * (lx - ly)
        m22 = s * s * lx + c * c * ly
        return lambda p: (m11, m12, 0.0, m22, 0.0, lz if dim == 3 else 1.0)
    if kind == 'loglin':  # log M linear in space: M(p) = exp(2 g.p) * R diag(1/h^2) R^T (2-D: m33 stays 1)
        import math
        hx, hy, hz, th, gx, gy, gz = a
        c, s = math.cos(th), math.sin(th)
        lx, ly, lz = 1 / hx ** 2, 1 / hy ** 2, 1 / hz ** 2

        def f(pt):
            sc = math.exp(2.0 * (gx * pt[0] + gy * pt[1] + (gz * pt[2] if dim == 3 else 0.0)))
            return (sc * (c * c * lx + s * s * ly), sc * (c * s * (lx - ly)), 0.0, sc * (s * s * lx + c * c * ly), 0.0,
                    sc * lz if dim == 3 else 1.0)
        return f
    raise ValueError('metric ' + spec)


def write_metric(case, dim, verts, spec, name='in-metric.solb'):
    f = metric_fn(spec, dim)
    vals = [meshgen.solb_metric_row(f(tuple(p) + (0.0,) * (3 - len(p))), dim) for p in verts]
    path = os.path.join(case, name)
    pyio.write_solb(path, dim, vals, [3])
    return path


def cli_harness(ctx, stream, ops, np):
    lines = []
    for k, op in enumerate(common.real_ops(ops)):
        d = kv(op)
        case = os.path.join(ctx.build, 'case_%s_%d_%s' % (stream.name, k, common.h16(op)))
        os.makedirs(case, exist_ok=True)
        try:
            lines.append(SCENARIOS[d['cmd']](ctx, d, case))
        except BuildError:
            raise
        except Exception as ex:  # scenario malformed
            lines.append('bad-op %r' % (ex,))
    return 0, lines, ''


def parse_out(line):
    d = {}
    for x in line.split():
        k, _, v = x.partition('=')
        d[k] = v
    return d


# ------------------------------------------------------------------ adapt (C01, C02, C04, C05)
def sc_adapt(ctx, d, case):
    dim, v, cells, mesh = make_mesh(d, case)
    met = write_metric(case, dim, v, d.get('metric', 'uniform:0.3'))
    np = int(d.get('np', '0'))
    args = ['adapt', mesh, '--metric', met, '-x', os.path.join(case, 'out.meshb'), '-s', d.get('passes', '2'),
            '--export-metric-as', os.path.join(case, 'out-metric.solb')]
    if d.get('part'):
        args += ['--partitioner', d['part']]
    rc, tail = run_ref(ctx, np, args, case, env_extra=knobs(d))
    return 'rc=%d dir=%s' % (rc, case)


def oracle_adapt(ops, impl):
    bad = []
    for i, (op, line) in enumerate(zip(ops, impl)):
        d = kv(op)
        o = parse_out(line)
        if o.get('rc') != '0':
            bad.append((i, 'adapt exited with status %s on a valid mesh and SPD metric' % o.get('rc')))
            continue
        dim = int(d.get('dim', '3'))
        try:
            mi = pyio.read_meshb(os.path.join(o['dir'], 'in.meshb'))
            mo = pyio.read_meshb(os.path.join(o['dir'], 'out.meshb'))
        except Exception as ex:
            bad.append((i, 'output mesh unreadable by the independent parser: %r' % (ex,)))
            continue
        f = (oracles.valid3d if dim == 3 else oracles.valid2d)(mo)
        if f:
            bad.append((i, 'C01 output mesh invalid: ' + '; '.join(f[:3])))
        curved = ()
        if float(d.get('warp', '0')) != 0:
            curved = (6,) if d.get('patches', 'sides') == 'sides' else tuple(range(1, 13))
        f = oracles.same_domain(mi, mo, dim, curved_ids=curved)
        if f:
            bad.append((i, 'C02 domain changed: ' + '; '.join(f[:3])))
        if dim == 2 and any(abs(p[2]) > 0 for p in mo['verts'] if len(p) > 2):
            bad.append((i, 'C02 planar 2-D mesh left its plane'))
    return bad


def oracle_adapt_metric(ops, impl):
    """C05: uniform metric reproduced; spectrum inside the input range"""
    bad = []
    for i, (op, line) in enumerate(zip(ops, impl)):
        d = kv(op)
        o = parse_out(line)
        if o.get('rc') != '0':
            continue
        dim = int(d.get('dim', '3'))
        try:
            mo = pyio.read_meshb(os.path.join(o['dir'], 'out.meshb'))
            so = pyio.read_solb(os.path.join(o['dir'], 'out-metric.solb'))
            si = pyio.read_solb(os.path.join(o['dir'], 'in-metric.solb'))
        except Exception as ex:
            bad.append((i, 'metric output unreadable: %r' % (ex,)))
            continue
        if len(so['values']) != len(mo['verts']):
            bad.append((i, 'metric file has %d entries for %d vertices' % (len(so['values']), len(mo['verts']))))
            continue
        lo, hi = 1e300, -1e300
        for row in si['values']:
            ev = oracles.eig_sym3(meshgen.solb_metric_unrow(row, dim))
            ev = ev if dim == 3 else sorted(oracles.eig_sym3(meshgen.solb_metric_unrow(row, dim)))[:]
            if dim == 2:
                m = meshgen.solb_metric_unrow(row, dim)
                ev = oracles.eig_sym3((m[0], m[1], 0.0, m[3], 0.0, m[3]))  # ignore the embedded 1
            lo, hi = min(lo, ev[0]), max(hi, ev[-1])
        f = metric_fn(d.get('metric', 'uniform:0.3'), dim)
        exact = d.get('metric', 'uniform').split(':')[0] in ('uniform', 'aniso', 'rot', 'loglin')
        for n, row in enumerate(so['values']):
            m = meshgen.solb_metric_unrow(row, dim)
            if dim == 2:
                ev = oracles.eig_sym3((m[0], m[1], 0.0, m[3], 0.0, m[3]))
            else:
                ev = oracles.eig_sym3(m)
            if ev[0] < lo * (1 - 1e-9) or ev[-1] > hi * (1 + 1e-9):
                bad.append((i, 'C05 vertex %d eigenvalues [%.9e,%.9e] outside input range [%.9e,%.9e]' %
                            (n, ev[0], ev[-1], lo, hi)))
                break
            if exact:
                p = mo['verts'][n]
                ref = f(tuple(p) + (0.0,) * (3 - len(p)))
                refrow = meshgen.solb_metric_row(ref, dim)
                sc = max(abs(x) for x in refrow)
                if max(abs(a - b) for a, b in zip(row, refrow)) > 1e-7 * sc:
                    bad.append((i, 'C05 %s input metric not reproduced at vertex %d %s: %s vs %s' % (
                        'log-linear' if d.get('metric', '').startswith('loglin') else 'constant', n, tuple(p), row, refrow)))
                    break
    return bad


def gen_adapt(rng, tier, np=None, scale=1.0):
    """half refining, half coarsening scenarios: coarsening on multi-patch boundaries is where the collapse
    guards (face-id rule, same-normal, ridge/corner preservation) are the only thing between the metric and
    the domain; refinement exercises split/swap/cavity."""
    ops = []
    n3 = max(2, int(scale * (6 if tier == 'quick' else 20)))
    n2 = max(2, int(scale * (4 if tier == 'quick' else 14)))
    for k in range(n3):
        coarsen = k % 2 == 1
        if coarsen:
            n = [rng.randint(3, 4) for _ in range(3)]
            h = rng.uniform(0.6, 1.6)
            metric = rng.choice(['uniform:%.3f' % h, 'aniso:%.3f,%.3f,%.3f' % (h, rng.uniform(0.5, 1.5), rng.uniform(0.4, 1.0)),
                                 'rot:%.3f,%.3f,%.3f,%.3f' % (h, rng.uniform(0.5, 1.2), rng.uniform(0.5, 1.2), rng.uniform(0, 3.1))])
            patches = rng.choice(['split', 'random', 'sides'])
            passes = rng.choice([3, 4, 5] if tier == 'quick' else [3, 5, 8, 12])
        else:
            n = [rng.randint(1, 3) for _ in range(3)]
            metric = rng.choice(['uniform:%.3f' % rng.uniform(0.15, 0.6),
                                 'aniso:%.3f,%.3f,%.3f' % (rng.uniform(0.1, 0.5), rng.uniform(0.1, 0.5), rng.uniform(0.2, 0.6)),
                                 'linh:%.3f,%.3f,%d' % (rng.uniform(0.1, 0.3), rng.uniform(0.3, 0.6), rng.randint(0, 2)),
                                 'rot:%.3f,%.3f,%.3f,%.3f' % (rng.uniform(0.08, 0.2), rng.uniform(0.3, 0.6), rng.uniform(0.3, 0.6), rng.uniform(0, 3.1))])
            patches = rng.choice(['sides', 'one', 'split', 'random'])
            passes = rng.choice([0, 1, 2, 3] if tier == 'quick' else [0, 1, 2, 5, 8])
        ops.append('adapt dim=3 n=%d,%d,%d jitter=%.2f patches=%s mseed=%d metric=%s passes=%d%s%s' %
                   (n[0], n[1], n[2], rng.choice([0, 0.2, 0.4]), patches, rng.randint(1, 10 ** 6), metric, passes,
                    ' warp=%.2f' % rng.uniform(0.05, 0.15) if (not coarsen and rng.random() < 0.3) else '',
                    (' np=%d' % np) if np else ''))
    for k in range(n2):
        coarsen = k % 2 == 1
        if coarsen:
            n = [rng.randint(5, 8) for _ in range(2)]
            metric = rng.choice(['uniform:%.3f' % rng.uniform(0.4, 0.9),
                                 'aniso:%.3f,%.3f,1' % (rng.uniform(0.3, 0.9), rng.uniform(0.3, 0.9))])
            passes = rng.choice([3, 5] if tier == 'quick' else [3, 6, 10])
        else:
            n = [rng.randint(2, 5) for _ in range(2)]
            metric = rng.choice(['uniform:%.3f' % rng.uniform(0.08, 0.4),
                                 'aniso:%.3f,%.3f,1' % (rng.uniform(0.03, 0.3), rng.uniform(0.1, 0.4)),
                                 'linh:%.3f,%.3f,%d' % (rng.uniform(0.05, 0.2), rng.uniform(0.2, 0.5), rng.randint(0, 1)),
                                 'rot:%.3f,%.3f,1,%.3f' % (rng.uniform(0.03, 0.1), rng.uniform(0.2, 0.5), rng.uniform(0, 3.1))])
            passes = rng.choice([0, 1, 2, 4] if tier == 'quick' else [0, 1, 3, 6, 10])
        ops.append('adapt dim=2 n=%d,%d jitter=%.2f patches=%s mseed=%d metric=%s passes=%d%s' %
                   (n[0], n[1], rng.choice([0, 0.3]), rng.choice(['sides', 'one']), rng.randint(1, 10 ** 6), metric,
                    passes, (' np=%d' % np) if np else ''))
    return ops


# ------------------------------------------------------------------ distance (C12, C07)
def sc_distance(ctx, d, case):
    dim, v, cells, mesh = make_mesh(d, case)
    np = int(d.get('np', '0'))
    rc, tail = run_ref(ctx, np, ['distance', mesh, os.path.join(case, 'dist.solb'), '--viscous-tags', d.get('walls', '1')], case,
                       env_extra=knobs(d))
    return 'rc=%d dir=%s' % (rc, case)


def oracle_distance(ops, impl):
    bad = []
    for i, (op, line) in enumerate(zip(ops, impl)):
        d = kv(op)
        o = parse_out(line)
        if o.get('rc') != '0':
            bad.append((i, 'distance exited with status %s' % o.get('rc')))
            continue
        dim = int(d.get('dim', '3'))
        m = pyio.read_meshb(os.path.join(o['dir'], 'in.meshb'))
        s = pyio.read_solb(os.path.join(o['dir'], 'dist.solb'))
        walls = {int(x) for x in d.get('walls', '1').split(',')}
        v = [tuple(p) + (0.0,) * (3 - len(p)) for p in m['verts']]
        if len(s['values']) != len(v):
            bad.append((i, 'distance file has %d entries for %d vertices' % (len(s['values']), len(v))))
            continue
        L = max(max(p[k] for p in v) - min(p[k] for p in v) for k in range(3))
        if dim == 3:
            el = [t for t in m['cells'].get('tri', []) if t[3] in walls]
        else:
            el = [e for e in m['cells'].get('edg', []) if e[2] in walls]
        if not el:
            continue
        for n, p in enumerate(v):
            if dim == 3:
                ref = min(oracles.dist_point_triangle(p, v[t[0]], v[t[1]], v[t[2]]) for t in el)
            else:
                ref = min(oracles.dist_point_segment(p, v[e[0]], v[e[1]]) for e in el)
            got = s['values'][n][0]
            if abs(got - ref) > 1e-12 * L + 1e-9 * ref:
                bad.append((i, 'C12 vertex %d distance %.17g but brute-force minimum is %.17g' % (n, got, ref)))
                break
    return bad


def gen_distance(rng, tier, np=None):
    ops = []
    for _ in range(12 if tier == 'quick' else 40):
        if rng.random() < 0.7:
            n = [rng.randint(1, 4) for _ in range(3)]
            ids = sorted(rng.sample(range(1, 7), rng.randint(1, 3)))
            if rng.random() < 0.5:
                n = [rng.randint(4, 7) for _ in range(3)]
                extra = ' grade=%.1f,%.1f,%.1f shear=%.2f' % (rng.choice([1, 2, 3]), rng.choice([1, 2.5]),
                                                              rng.choice([1, 2, 3]), rng.choice([0, 0.5]))
            else:
                extra = ''
            ops.append('distance dim=3 n=%d,%d,%d jitter=%.2f mseed=%d len=%s walls=%s%s%s' %
                       (n[0], n[1], n[2], rng.choice([0, 0.3]), rng.randint(1, 10 ** 6),
                        rng.choice(['1,1,1', '10,1,0.1', '1,5,1']), ','.join(map(str, ids)), extra,
                        (' np=%d' % np) if np else ''))
        else:
            n = [rng.randint(2, 6) for _ in range(2)]
            ids = sorted(rng.sample(range(1, 5), rng.randint(1, 2)))
            ops.append('distance dim=2 n=%d,%d jitter=%.2f mseed=%d len=%s walls=%s%s' %
                       (n[0], n[1], rng.choice([0, 0.3]), rng.randint(1, 10 ** 6), rng.choice(['1,1', '10,1']),
                        ','.join(map(str, ids)), (' np=%d' % np) if np else ''))
    return ops


SCENARIOS = {'adapt': sc_adapt, 'distance': sc_distance}

ADAPT = Stream('cli_adapt', cli_harness, None, gen_adapt, oracle=oracle_adapt, kind='oracle',
               nontrivial=lambda op, out: out.startswith('rc=0'), timeout=900)
ADAPT_METRIC = Stream('cli_adapt_metric', cli_harness, None, gen_adapt, oracle=oracle_adapt_metric, kind='oracle',
                      nontrivial=lambda op, out: out.startswith('rc=0'), timeout=900)
DISTANCE = Stream('cli_distance', cli_harness, None, gen_distance, oracle=oracle_distance, kind='oracle',
                  nontrivial=lambda op, out: out.startswith('rc=0'), timeout=600)

# ------------------------------------------------------------------ multiscale (C10)
import math


def scalar_fn(spec):
    kind, _, args = spec.partition(':')
    a = [float(x) for x in args.split(',')] if args else []
    if kind == 'poly':
        return lambda p: a[0] * p[0] ** 2 + a[1] * p[1] ** 2 + a[2] * p[2] ** 2 + a[3] * p[0] * p[1] + a[4] * p[0]
    if kind == 'tanh':
        return lambda p: math.tanh(a[0] * (p[0] + a[1] * p[1] - a[2]))
    if kind == 'sin':
        return lambda p: math.sin(a[0] * p[0]) * math.sin(a[1] * p[1] + 0.3) * math.cos(a[2] * p[2])
    if kind == 'flat':  # zero-Hessian region: linear for x<0.5, quadratic beyond
        return lambda p: a[0] * p[0] + (a[1] * (p[0] - 0.5) ** 2 if p[0] > 0.5 else 0.0) + 0.1 * p[1] * p[1]
    if kind == 'const':
        return lambda p: a[0]
    raise ValueError('scalar ' + spec)


def sc_multiscale(ctx, d, case):
    dim, v, cells, mesh = make_mesh(d, case)
    f = scalar_fn(d.get('field', 'poly:1,2,3,0.5,1'))
    vals = [[f(tuple(p) + (0.0,) * (3 - len(p)))] for p in v]
    sol = os.path.join(case, 'scalar.solb')
    pyio.write_solb(sol, dim, vals, [1])
    np = int(d.get('np', '0'))
    args = ['multiscale', mesh, sol, d.get('complexity', '500'), os.path.join(case, 'metric.solb')]
    if 'p' in d:
        args += ['--norm-power', d['p']]
    if 'grad' in d:
        args += ['--gradation', d['grad']]
    if 'ar' in d:
        args += ['--aspect-ratio', d['ar']]
    if d.get('buffer') == '1':
        args += ['--buffer']
    rc, tail = run_ref(ctx, np, args, case)
    return 'rc=%d dir=%s' % (rc, case)


def oracle_multiscale(ops, impl):
    bad = []
    for i, (op, line) in enumerate(zip(ops, impl)):
        d = kv(op)
        o = parse_out(line)
        if o.get('rc') != '0':
            if d.get('field', '').startswith('const'):
                continue  # a zero Hessian everywhere has no finite complexity scaling: an error status is legitimate
            bad.append((i, 'multiscale exited with status %s' % o.get('rc')))
            continue
        dim = int(d.get('dim', '3'))
        m = pyio.read_meshb(os.path.join(o['dir'], 'in.meshb'))
        s = pyio.read_solb(os.path.join(o['dir'], 'metric.solb'))
        if len(s['values']) != len(m['verts']):
            bad.append((i, 'metric file has %d entries for %d vertices' % (len(s['values']), len(m['verts']))))
            continue
        met = [meshgen.solb_metric_unrow(r, dim) for r in s['values']]
        for n, mm in enumerate(met):
            if not all(math.isfinite(x) for x in mm):
                bad.append((i, 'C10 non-finite metric at vertex %d' % n))
                break
            ev = oracles.eig_sym3(mm)
            if not ev[0] > 0:
                bad.append((i, 'C10 metric at vertex %d not positive definite: eigenvalues %s' % (n, ev)))
                break
            if dim == 2 and (mm[2] != 0.0 or mm[4] != 0.0 or mm[5] != 1.0):
                bad.append((i, 'C10 2-D embedding lost at vertex %d: %s' % (n, mm)))
                break
        else:
            ct = float(d.get('complexity', '500'))
            c = (oracles.complexity3d if dim == 3 else oracles.complexity2d)(m, met)
            if abs(c - ct) > 1e-8 * ct:
                bad.append((i, 'C10 complexity of the output field is %.12e, requested %.12e' % (c, ct)))
    return bad


def gen_multiscale(rng, tier, np=None):
    # first op: regression for /repo 'fix: scale and re-embed planar metrics in ref_metric_buffer_at_complexity'
    # (known_findings: ref_metric_buffer_at_complexity:2d-exponent-and-embedding)
    ops = ['multiscale dim=2 n=%d,%d jitter=0 mseed=1 field=tanh:20.00,0.30,0.60 complexity=500 buffer=1%s' % (
        rng.randint(9, 13), rng.randint(9, 13), (' np=%d' % np) if np else '')]
    for _ in range(6 if tier == 'quick' else 30):
        dim = rng.choice([2, 3, 3])
        n = [rng.randint(2, 4) for _ in range(dim)]
        field = rng.choice(['poly:%.2f,%.2f,%.2f,%.2f,%.2f' % tuple(rng.uniform(-3, 3) for _ in range(5)),
                            'tanh:%.2f,%.2f,%.2f' % (rng.uniform(3, 20), rng.uniform(-1, 1), rng.uniform(0.2, 0.8)),
                            'sin:%.2f,%.2f,%.2f' % (rng.uniform(1, 8), rng.uniform(1, 8), rng.uniform(0, 4)),
                            'flat:%.2f,%.2f' % (rng.uniform(-2, 2), rng.uniform(1, 5))])
        op = 'multiscale dim=%d n=%s jitter=%.2f mseed=%d field=%s complexity=%s' % (
            dim, ','.join(map(str, n)), rng.choice([0, 0.3]), rng.randint(1, 10 ** 6), field,
            rng.choice(['50', '500', '2000', '100000', '%.1f' % rng.uniform(50, 1e5)]))
        if rng.random() < 0.7:
            op += ' p=%s' % rng.choice(['1', '2', '4'])
        if rng.random() < 0.7:
            op += ' grad=%s' % rng.choice(['-1', '1.2', '1.5', '3'])
        if rng.random() < 0.5:
            op += ' ar=%s' % rng.choice(['-1', '1', '10', '1000'])
        if rng.random() < 0.2:
            op += ' buffer=1'
        if np:
            op += ' np=%d' % np
        ops.append(op)
    return ops


# ------------------------------------------------------------------ interpolate (C11, C07)
def field_fn(spec, ldim):
    kind, _, args = spec.partition(':')
    a = [float(x) for x in args.split(',')] if args else []
    if kind == 'lin':
        return lambda p: [a[0] + (k + 1) * (a[1] * p[0] + a[2] * p[1] + a[3] * p[2]) for k in range(ldim)]
    if kind == 'gen':
        return lambda p: [math.sin(a[0] * p[0] + k) * math.cos(a[1] * p[1]) + a[2] * p[2] * p[2] for k in range(ldim)]
    raise ValueError(spec)


def sc_interp(ctx, d, case):
    dd = dict(d)
    dim, v, cells, mesh = make_mesh(dd, case)
    os.rename(mesh, os.path.join(case, 'donor.meshb'))
    ldim = int(d.get('ldim', '1'))
    f = field_fn(d.get('field', 'lin:1,2,3,4'), ldim)
    pyio.write_solb(os.path.join(case, 'donor.solb'), dim, [f(tuple(p) + (0.0,) * (3 - len(p))) for p in v], [1] * ldim)
    if d.get('same', '0') == '1':
        pyio.write_meshb(os.path.join(case, 'rec.meshb'), dim, v, cells)
    else:
        rd = dict(d)
        rd['n'] = d.get('rn', d.get('n'))
        rd['mseed'] = d.get('rseed', '7')
        rd['jitter'] = d.get('rjitter', '0.3')
        if 'rlen' in d:
            rd['len'] = d['rlen']
        _, rv, rcells, rmesh = make_mesh(rd, case)
        os.rename(rmesh, os.path.join(case, 'rec.meshb'))
    np = int(d.get('np', '0'))
    rc, tail = run_ref(ctx, np, ['interpolate', os.path.join(case, 'donor.meshb'), os.path.join(case, 'donor.solb'),
                                 os.path.join(case, 'rec.meshb'), os.path.join(case, 'rec.solb')], case)
    return 'rc=%d dir=%s' % (rc, case)


def oracle_interp(ops, impl):
    bad = []
    for i, (op, line) in enumerate(zip(ops, impl)):
        d = kv(op)
        o = parse_out(line)
        if o.get('rc') != '0':
            bad.append((i, 'interpolate exited with status %s' % o.get('rc')))
            continue
        ldim = int(d.get('ldim', '1'))
        rm = pyio.read_meshb(os.path.join(o['dir'], 'rec.meshb'))
        ds = pyio.read_solb(os.path.join(o['dir'], 'donor.solb'))
        rs = pyio.read_solb(os.path.join(o['dir'], 'rec.solb'))
        if len(rs['values']) != len(rm['verts']) or rs['ldim'] != ldim:
            bad.append((i, 'receptor field has %d x %d entries for %d vertices, ldim %d' %
                        (len(rs['values']), rs['ldim'], len(rm['verts']), ldim)))
            continue
        for k in range(ldim):
            lo = min(r[k] for r in ds['values'])
            hi = max(r[k] for r in ds['values'])
            eps = 1e-12 * max(abs(lo), abs(hi), 1e-300)
            for n, r in enumerate(rs['values']):
                if not (lo - eps <= r[k] <= hi + eps):
                    bad.append((i, 'C11 receptor vertex %d component %d = %.17g leaves donor range [%.17g, %.17g]' % (n, k, r[k], lo, hi)))
                    break
        if d.get('same', '0') == '1':
            for n, (a, b) in enumerate(zip(ds['values'], rs['values'])):
                if any(abs(x - y) > 1e-12 * max(1.0, abs(x)) for x, y in zip(a, b)):
                    bad.append((i, 'C11 interpolating onto the donor mesh itself changed vertex %d: %s -> %s' % (n, a, b)))
                    break
        elif d.get('field', 'lin').startswith('lin') and d.get('inside', '1') == '1':
            f = field_fn(d['field'], ldim)
            sc = max(max(abs(x) for x in r) for r in ds['values'])
            for n, p in enumerate(rm['verts']):
                ex = f(tuple(p) + (0.0,) * (3 - len(p)))
                if any(abs(x - y) > 1e-10 * sc for x, y in zip(ex, rs['values'][n])):
                    bad.append((i, 'C11 linear field not reproduced at receptor vertex %d (inside donor): %s vs %s' % (n, rs['values'][n], ex)))
                    break
    return bad


def gen_interp(rng, tier, np=None):
    ops = []
    for _ in range(6 if tier == 'quick' else 30):
        dim = rng.choice([2, 3, 3])
        n = [rng.randint(2, 4) for _ in range(dim)]
        rn = [rng.randint(2, 5) for _ in range(dim)]
        mode = rng.random()
        ldim = rng.randint(1, 10)
        field = rng.choice(['lin:%.2f,%.2f,%.2f,%.2f' % tuple(rng.uniform(-3, 3) for _ in range(4)),
                            'gen:%.2f,%.2f,%.2f' % tuple(rng.uniform(0.5, 6) for _ in range(3))])
        op = 'interp dim=%d n=%s jitter=%.2f mseed=%d ldim=%d field=%s' % (
            dim, ','.join(map(str, n)), rng.choice([0, 0.3]), rng.randint(1, 10 ** 6), ldim, field)
        if mode < 0.25:
            op += ' same=1'
        elif mode < 0.8:
            op += ' rn=%s rseed=%d rjitter=%.2f inside=1' % (','.join(map(str, rn)), rng.randint(1, 10 ** 6), rng.choice([0, 0.3]))
        else:
            # receptor slightly larger than the donor: vertices fall just outside (boundary mismatch)
            op += ' rn=%s rseed=%d rjitter=0 inside=0 rlen=%s' % (','.join(map(str, rn)), rng.randint(1, 10 ** 6),
                                                               ','.join(['1.02'] * 3))
        if np:
            op += ' np=%d' % np
        ops.append(op)
    return ops


# ------------------------------------------------------------------ rank-count independence (C07)
def sc_npindep(ctx, d, case):
    """runs translate / distance / interpolate at np = 0 (serial), and at np=k; prints whether outputs agree"""
    sub = d.get('sub', 'translate')
    np = int(d.get('np', '2'))
    env = {}
    outs = []
    for tag, k in (('s', 0), ('p', np)):
        c2 = os.path.join(case, tag)
        os.makedirs(c2, exist_ok=True)
        dim, v, cells, mesh = make_mesh(d, c2)
        if sub == 'translate':
            rc, _ = run_ref(ctx, k, ['translate', mesh, os.path.join(c2, 'out.meshb')], c2, env_extra=knobs(d))
        elif sub == 'distance':
            rc, _ = run_ref(ctx, k, ['distance', mesh, os.path.join(c2, 'out.solb'), '--viscous-tags', d.get('walls', '1')], c2,
                            env_extra=knobs(d))
        else:
            ldim = int(d.get('ldim', '2'))
            f = field_fn(d.get('field', 'gen:1,2,3'), ldim)
            pyio.write_solb(os.path.join(c2, 'donor.solb'), dim, [f(tuple(p) + (0.0,) * (3 - len(p))) for p in v], [1] * ldim)
            rd = dict(d)
            rd['n'] = d.get('rn', d.get('n'))
            rd['mseed'] = d.get('rseed', '7')
            os.rename(mesh, os.path.join(c2, 'donor.meshb'))
            _, rv, rcells, rmesh = make_mesh(rd, c2)
            os.rename(rmesh, os.path.join(c2, 'rec.meshb'))
            rc, _ = run_ref(ctx, k, ['interpolate', os.path.join(c2, 'donor.meshb'), os.path.join(c2, 'donor.solb'),
                                     os.path.join(c2, 'rec.meshb'), os.path.join(c2, 'out.solb')], c2, env_extra=knobs(d))
        outs.append(rc)
    return 'rc=%d rcp=%d dir=%s' % (outs[0], outs[1], case)


def canon_cells(m):
    v = m['verts']
    out = {}
    for name, lst in m['cells'].items():
        out[name] = sorted(tuple(sorted(tuple(v[n]) for n in c[:-1])) + (c[-1],) for c in lst)
    return out


def oracle_npindep(ops, impl):
    bad = []
    for i, (op, line) in enumerate(zip(ops, impl)):
        d = kv(op)
        o = parse_out(line)
        if o.get('rc') != '0' or o.get('rcp') != '0':
            bad.append((i, 'C07 %s exited with status serial=%s parallel=%s' % (d.get('sub'), o.get('rc'), o.get('rcp'))))
            continue
        sub = d.get('sub', 'translate')
        if sub == 'translate':
            a = pyio.read_meshb(os.path.join(o['dir'], 's', 'out.meshb'))
            b = pyio.read_meshb(os.path.join(o['dir'], 'p', 'out.meshb'))
            if a['verts'] != b['verts']:
                bad.append((i, 'C07 translate: vertices differ between np=1 and np=%s (same order expected)' % d.get('np')))
            elif canon_cells(a) != canon_cells(b):
                bad.append((i, 'C07 translate: cell multiset differs between np=1 and np=%s' % d.get('np')))
        else:
            a = pyio.read_solb(os.path.join(o['dir'], 's', 'out.solb'))
            b = pyio.read_solb(os.path.join(o['dir'], 'p', 'out.solb'))
            if len(a['values']) != len(b['values']):
                bad.append((i, 'C07 %s: %d vs %d entries' % (sub, len(a['values']), len(b['values']))))
                continue
            sc = max([max(abs(x) for x in r) for r in a['values']] + [1e-300])
            tol = 0.0 if sub == 'distance' else 1e-12 * sc
            for n, (x, y) in enumerate(zip(a['values'], b['values'])):
                if any(abs(p - q) > tol for p, q in zip(x, y)):
                    bad.append((i, 'C07 %s: vertex %d differs between np=1 and np=%s: %s vs %s' % (sub, n, d.get('np'), x, y)))
                    break
    return bad


def gen_npindep(rng, tier, np=None):
    ops = []
    for _ in range(6 if tier == 'quick' else 24):
        dim = rng.choice([2, 3, 3])
        n = [rng.randint(2, 4) for _ in range(dim)]
        sub = rng.choice(['translate', 'distance', 'interp'])
        op = 'npindep sub=%s dim=%d n=%s jitter=%.2f mseed=%d np=%d' % (
            sub, dim, ','.join(map(str, n)), rng.choice([0, 0.3]), rng.randint(1, 10 ** 6), np or rng.choice([2, 3, 4, 5]))
        if rng.random() < 0.6:
            op += ' chunk=%d' % rng.choice([64, 100, 1000, 4096])
        if rng.random() < 0.3:
            op += ' native=1'
        if sub == 'distance':
            op += ' walls=%s' % ','.join(map(str, sorted(rng.sample(range(1, 5), rng.randint(1, 2)))))
        if sub == 'interp':
            op += ' ldim=%d rn=%s rseed=%d field=gen:%.2f,%.2f,%.2f' % (
                rng.randint(1, 12), ','.join(str(rng.randint(2, 5)) for _ in range(dim)), rng.randint(1, 10 ** 6),
                rng.uniform(0.5, 5), rng.uniform(0.5, 5), rng.uniform(0.5, 5))
        ops.append(op)
    return ops


SCENARIOS.update({'multiscale': sc_multiscale, 'interp': sc_interp, 'npindep': sc_npindep})
MULTISCALE = Stream('cli_multiscale', cli_harness, None, gen_multiscale, oracle=oracle_multiscale, kind='oracle',
                    nontrivial=lambda op, out: out.startswith('rc=0'), timeout=900)
INTERP = Stream('cli_interp', cli_harness, None, gen_interp, oracle=oracle_interp, kind='oracle',
                nontrivial=lambda op, out: out.startswith('rc=0'), timeout=900)
NPINDEP = Stream('cli_npindep', cli_harness, None, gen_npindep, oracle=oracle_npindep, kind='oracle',
                 nontrivial=lambda op, out: out.startswith('rc=0 rcp=0'), timeout=900)


# ------------------------------------------------------------------ parallel adapt (C04)
def gen_adapt_mpi(rng, tier, np):
    ops = []
    for op in gen_adapt(rng, tier, np, scale=0.5):
        if rng.random() < 0.4:
            op += ' part=5'
        if rng.random() < 0.75:
            op += ' full=1'      # keep every rank active although the mesh is tiny
        if rng.random() < 0.3:
            op += ' native=1'
        if rng.random() < 0.5:
            op += ' chunk=%d' % rng.choice([64, 100, 4096])
        ops.append(op)
    return ops


ADAPT_MPI = Stream('cli_adapt_mpi', cli_harness, None, gen_adapt_mpi, oracle=oracle_adapt, kind='oracle',
                   np=[2, 3, 4], nontrivial=lambda op, out: out.startswith('rc=0'), timeout=1800,
                   batches={'quick': 1, 'thorough': 2})
ADAPT_MPI_WIDE = Stream('cli_adapt_mpi_wide', cli_harness, None, gen_adapt_mpi, oracle=oracle_adapt, kind='oracle',
                        np=[5, 8], nontrivial=lambda op, out: out.startswith('rc=0'), timeout=1800,
                        batches={'quick': 1, 'thorough': 2})
ADAPT_MPI_WIDE.thorough_only = True


# ------------------------------------------------------------------ format conversion (C08, C07)
FORMATS = ['meshb', 'lb8.ugrid', 'b8.ugrid', 'lb8l.ugrid', 'b8l.ugrid', 'lb8.ugrid64', 'b8.ugrid64']


def sc_convert(ctx, d, case):
    rng = random.Random(int(d.get('mseed', '1')))
    n = [int(x) for x in d.get('n', '2,2,2').split(',')]
    if d.get('mesh', 'box') == 'slab':
        v, cells = meshgen.prism_slab(n[0], n[1], n[2], rng, float(d.get('jitter', '0')),
                                      big_ids=d.get('bigids', '0') == '1')
    else:
        v, t, s = meshgen.box_tets(n[0], n[1], n[2], rng, float(d.get('jitter', '0')), patches=d.get('patches', 'sides'))
        if d.get('bigids', '0') == '1':
            s = [x[:3] + (x[3] + 20000000,) for x in s]
        cells = {'tet': t, 'tri': s}
    src = os.path.join(case, 'in.' + d.get('in', 'meshb'))
    dst = os.path.join(case, 'out.' + d.get('out', 'meshb'))
    pyio.write_mesh(src, 3, v, cells, version=int(d.get('mv', '2')))
    pyio.write_meshb(os.path.join(case, 'truth.meshb'), 3, v, cells, version=4)
    np = int(d.get('np', '0'))
    rc, tail = run_ref(ctx, np, ['translate', src, dst], case, env_extra=knobs(d))
    return 'rc=%d dir=%s' % (rc, case)


def oracle_convert(ops, impl):
    bad = []
    for i, (op, line) in enumerate(zip(ops, impl)):
        d = kv(op)
        o = parse_out(line)
        if o.get('rc') != '0':
            bad.append((i, 'translate %s -> %s exited with status %s' % (d.get('in'), d.get('out'), o.get('rc'))))
            continue
        truth = pyio.read_meshb(os.path.join(o['dir'], 'truth.meshb'))
        try:
            got = pyio.read_mesh(os.path.join(o['dir'], 'out.' + d.get('out', 'meshb')))
        except Exception as ex:
            bad.append((i, 'C08 output not parseable by the independent reader of the published layout: %r' % (ex,)))
            continue
        tv = [tuple(p) for p in truth['verts']]
        gv = [tuple(p) for p in got['verts']]
        if tv != gv:
            bad.append((i, 'C08/C07 vertices differ after %s -> %s (np=%s): same coordinates in the same order expected' %
                        (d.get('in'), d.get('out'), d.get('np', '0'))))
            continue
        a, b = canon_cells(truth), canon_cells(got)
        if d.get('out', 'meshb') != 'meshb':
            for k in ('tet', 'pri', 'pyr', 'hex'):   # ugrid stores no tag for volume cells
                if k in a:
                    a[k] = sorted(c[:-1] + (0,) for c in a[k])
                if k in b:
                    b[k] = sorted(c[:-1] + (0,) for c in b[k])
        if a != b:
            diff = [k for k in set(a) | set(b) if a.get(k) != b.get(k)]
            ex = ''
            for k in diff[:1]:
                sa, sb = a.get(k, []), b.get(k, [])
                for x, y in zip(sa, sb):
                    if x != y:
                        ex = ' e.g. %s: tags %s vs %s' % (k, x[-1], y[-1]) if x[:-1] == y[:-1] else ' e.g. %s cell differs' % k
                        break
            bad.append((i, 'C08/C07 cells (with tags) differ after %s -> %s (np=%s) in %s%s' %
                        (d.get('in'), d.get('out'), d.get('np', '0'), diff, ex)))
    return bad


def gen_convert(rng, tier, np=None):
    ops = []
    for _ in range(10 if tier == 'quick' else 40):
        mesh = rng.choice(['slab', 'box'])
        n = [rng.randint(1, 3) for _ in range(3)]
        op = 'convert mesh=%s n=%d,%d,%d jitter=%.2f mseed=%d in=%s out=%s mv=%d bigids=%d' % (
            mesh, n[0], n[1], n[2], rng.choice([0, 0.3]), rng.randint(1, 10 ** 6), rng.choice(FORMATS), rng.choice(FORMATS),
            rng.choice([2, 3, 4]), 1 if rng.random() < 0.4 else 0)
        if np:
            op += ' np=%d' % np
            if rng.random() < 0.5:
                op += ' chunk=%d' % rng.choice([64, 200, 4096])
        ops.append(op)
    return ops


SCENARIOS['convert'] = sc_convert
CONVERT = Stream('cli_convert', cli_harness, None, gen_convert, oracle=oracle_convert, kind='oracle',
                 nontrivial=lambda op, out: out.startswith('rc=0'), timeout=600)
CONVERT_MPI = Stream('cli_convert_mpi', cli_harness, None, gen_convert, oracle=oracle_convert, kind='oracle',
                     np=[2, 3], nontrivial=lambda op, out: out.startswith('rc=0'), timeout=900)

INTERP_MPI = Stream('cli_interp_mpi', cli_harness, None, gen_interp, oracle=oracle_interp, kind='oracle',
                    np=[2, 4], nontrivial=lambda op, out: out.startswith('rc=0'), timeout=900)

DISTANCE_MPI = Stream('cli_distance_mpi', cli_harness, None, gen_distance, oracle=oracle_distance, kind='oracle',
                      np=[2, 3], nontrivial=lambda op, out: out.startswith('rc=0'), timeout=900)


# ------------------------------------------------------------------ field files through the CLI on np ranks (C09)
def metric_tagged(dim):
    """SPD (diagonally dominant), all six components distinct and position dependent: a component-order or
    vertex-order mistake anywhere between the file reader, ref_node and the file writer changes the output"""
    def f(p):
        x, y, z = p[0], p[1], p[2]
        if dim == 2:
            return (10.0 + x, 0.5 + 0.25 * y, 0.0, 20.0 + y, 0.0, 1.0)
        return (10.0 + x, 0.5 + 0.25 * y, 0.75 + 0.125 * z, 20.0 + y, 1.0 + 0.25 * x, 30.0 + z)
    return f


def sc_fieldrt(ctx, d, case):
    """`adapt -s 0 --export-metric-as`: the metric file read (ref_part_metric on np ranks / serial reader) and
    written back (ref_gather_metric) without any adaptation in between"""
    dim, v, cells, mesh = make_mesh(d, case)
    f = metric_tagged(dim)
    vals = [meshgen.solb_metric_row(f(tuple(p) + (0.0,) * (3 - len(p))), dim) for p in v]
    met = os.path.join(case, 'in-metric.solb')
    pyio.write_solb(met, dim, vals, [3], version=int(d.get('sv', '2')))
    np = int(d.get('np', '0'))
    rc, tail = run_ref(ctx, np, ['adapt', mesh, '--metric', met, '-x', os.path.join(case, 'out.meshb'), '-s', '0',
                                 '--export-metric-as', os.path.join(case, 'out-metric.solb')], case, env_extra=knobs(d))
    return 'rc=%d dir=%s' % (rc, case)


def oracle_fieldrt(ops, impl):
    bad = []
    for i, (op, line) in enumerate(zip(ops, impl)):
        d = kv(op)
        o = parse_out(line)
        if o.get('rc') != '0':
            bad.append((i, 'C09 adapt -s 0 exited with status %s (np=%s)' % (o.get('rc'), d.get('np', '0'))))
            continue
        dim = int(d.get('dim', '3'))
        try:
            mi = pyio.read_meshb(os.path.join(o['dir'], 'in.meshb'))
            mo = pyio.read_meshb(os.path.join(o['dir'], 'out.meshb'))
            si = pyio.read_solb(os.path.join(o['dir'], 'in-metric.solb'))
            so = pyio.read_solb(os.path.join(o['dir'], 'out-metric.solb'))
        except Exception as ex:
            bad.append((i, 'C09 output unreadable by the independent parser: %r' % (ex,)))
            continue
        if len(so['values']) != len(mo['verts']) or len(mo['verts']) != len(mi['verts']):
            bad.append((i, 'C09 %d metric entries, %d output vertices, %d input vertices' %
                        (len(so['values']), len(mo['verts']), len(mi['verts']))))
            continue
        pos = {tuple(p): k for k, p in enumerate(mi['verts'])}
        for j, p in enumerate(mo['verts']):
            k = pos.get(tuple(p))
            if k is None:
                bad.append((i, 'C09 zero-pass adapt moved vertex %d' % j))
                break
            if si['values'][k] != so['values'][j]:
                bad.append((i, 'C09 metric entry %d of the output file is %s but vertex %d of the output mesh is input '
                               'vertex %d whose tensor is %s (np=%s)' % (j, so['values'][j], j, k, si['values'][k],
                                                                       d.get('np', '0'))))
                break
    return bad


def gen_fieldrt(rng, tier, np=None):
    ops = []
    for _ in range(4 if tier == 'quick' else 16):
        dim = rng.choice([2, 2, 3])
        n = [rng.randint(2, 6) for _ in range(dim)]
        op = 'fieldrt dim=%d n=%s jitter=%.2f mseed=%d' % (dim, ','.join(map(str, n)), rng.choice([0, 0.3]),
                                                            rng.randint(1, 10 ** 6))
        if np:
            op += ' np=%d full=1' % np
            if rng.random() < 0.5:
                op += ' chunk=%d' % rng.choice([64, 200, 1000])
        ops.append(op)
    return ops


SCENARIOS.update({'fieldrt': sc_fieldrt})
FIELDRT = Stream('cli_metric_roundtrip', cli_harness, None, gen_fieldrt, oracle=oracle_fieldrt, kind='oracle',
                 nontrivial=lambda op, out: out.startswith('rc=0'), timeout=900)
FIELDRT_MPI = Stream('cli_metric_roundtrip_mpi', cli_harness, None, gen_fieldrt, oracle=oracle_fieldrt, kind='oracle',
                     np=[2, 3, 5], nontrivial=lambda op, out: out.startswith('rc=0'), timeout=900)
