"""End-to-end streams: the real `ref` / `refmpi` programs, rebuilt from /repo's working tree, run on generated
meshes and fields; the result files are parsed by checks/pyio.py and judged by checks/oracles.py.

An op line is a scenario:  <cmd> key=value ...   (everything, including the mesh, is regenerated from the line,
so a replay file needs nothing but the op lines).  One output line per op:  rc=<exit> dir=<case dir> [extra].
"""
import os
import random
import subprocess

from . import common, pyio, meshgen, oracles
from .common import Stream, BuildError

MPIRUN = ['mpiexec', '--allow-run-as-root', '--oversubscribe']


def build_ref(ctx, mpi):
    key = ('ref', mpi)
    if key in ctx.harness_exe:
        return ctx.harness_exe[key]
    d = common.build_objs(ctx, mpi=mpi, sanitize=not mpi)
    cc = 'mpicc' if mpi else 'gcc'
    flags = common.BASE_FLAGS + ([] if mpi else common.SAN_FLAGS) + (['-DHAVE_MPI'] if mpi else [])
    exe = os.path.join(ctx.build, 'refmpi' if mpi else 'ref')
    objs = [os.path.join(d, s + '.o') for s in common.CORE_SRC if os.path.exists(os.path.join(d, s + '.o'))]
    cmd = [cc] + flags + [os.path.join(common.REPO, 'src', 'ref_subcommand.c')] + objs + ['-lm', '-o', exe]
    p = subprocess.run(cmd, capture_output=True, text=True)
    if p.returncode != 0:
        raise BuildError('ref%s failed to build: %s' % ('mpi' if mpi else '', (p.stdout + p.stderr)[-3000:]))
    ctx.harness_exe[key] = exe
    return exe


def kv(op):
    w = op.split()
    d = {'cmd': w[0]}
    for x in w[1:]:
        k, _, v = x.partition('=')
        d[k] = v
    return d


def run_ref(ctx, np, args, cwd, timeout=240, env_extra=None):
    exe = build_ref(ctx, np is not None and np > 0)
    env = dict(os.environ)
    env['ASAN_OPTIONS'] = 'detect_leaks=0:exitcode=99'
    env['UBSAN_OPTIONS'] = 'halt_on_error=1:exitcode=98'
    env['MALLOC_PERTURB_'] = str(1 + (ctx.seed * 37 + 11) % 254)
    if env_extra:
        env.update(env_extra)
    cmd = ([exe] if not np else MPIRUN + ['-n', str(np), exe]) + args
    try:
        p = subprocess.run(cmd, cwd=cwd, capture_output=True, text=True, timeout=timeout, env=env)
        return p.returncode, (p.stdout[-1500:] + p.stderr[-1500:])
    except subprocess.TimeoutExpired:
        return -9, 'TIMEOUT'


# ------------------------------------------------------------------ scenario pieces
def make_mesh(d, case):
    """mesh from scenario keys: dim, n=a,b[,c], jitter, patches, lengths, warp, mseed"""
    rng = random.Random(int(d.get('mseed', '1')))
    dim = int(d.get('dim', '3'))
    n = [int(x) for x in d.get('n', '2,2,2').split(',')]
    jitter = float(d.get('jitter', '0'))
    lengths = [float(x) for x in d.get('len', '1,1,1').split(',')]
    if dim == 3:
        v, t, s = meshgen.box_tets(n[0], n[1], n[2], rng, jitter, lengths, d.get('patches', 'sides'),
                                   float(d.get('warp', '0')))
        cells = {'tet': t, 'tri': s}
    else:
        v, t, e = meshgen.square_tris(n[0], n[1], rng, jitter, lengths[:2], d.get('patches', 'sides'))
        cells = {'tri': t, 'edg': e}
    path = os.path.join(case, 'in.meshb')
    pyio.write_meshb(path, dim, v, cells, version=int(d.get('mv', '2')))
    return dim, v, cells, path


def metric_fn(spec, dim):
    kind, _, args = spec.partition(':')
    a = [float(x) for x in args.split(',')] if args else []
    if kind == 'uniform':
        return meshgen.metric_uniform(a[0])
    if kind == 'aniso':
        return meshgen.metric_aniso(a[0], a[1], a[2] if dim == 3 else 1.0)
    if kind == 'linh':
        return meshgen.metric_linear_h(a[0], a[1], int(a[2]) if len(a) > 2 else 0)
    if kind == 'rot':  # constant anisotropic metric rotated about z by angle a[3]
        import math
        hx, hy, hz, th = a
        c, s = math.cos(th), math.sin(th)
        lx, ly, lz = 1 / hx ** 2, 1 / hy ** 2, 1 / hz ** 2
        m11 = c * c * lx + s * s * ly
        m12 = c * s * (lx - ly)
        m22 = s * s * lx + c * c * ly
        return lambda p: (m11, m12, 0.0, m22, 0.0, lz if dim == 3 else 1.0)
    raise ValueError('metric ' + spec)


def write_metric(case, dim, verts, spec, name='in-metric.solb'):
    f = metric_fn(spec, dim)
    vals = [meshgen.solb_metric_row(f(tuple(p) + (0.0,) * (3 - len(p))), dim) for p in verts]
    path = os.path.join(case, name)
    pyio.write_solb(path, dim, vals, [3])
    return path


def cli_harness(ctx, stream, ops, np):
    lines = []
    for k, op in enumerate(common.real_ops(ops)):
        d = kv(op)
        case = os.path.join(ctx.build, 'case_%s_%d_%s' % (stream.name, k, common.h16(op)))
        os.makedirs(case, exist_ok=True)
        try:
            lines.append(SCENARIOS[d['cmd']](ctx, d, case))
        except BuildError:
            raise
        except Exception as ex:  # scenario malformed
            lines.append('bad-op %r' % (ex,))
    return 0, lines, ''


def parse_out(line):
    d = {}
    for x in line.split():
        k, _, v = x.partition('=')
        d[k] = v
    return d


# ------------------------------------------------------------------ adapt (C01, C02, C04, C05)
def sc_adapt(ctx, d, case):
    dim, v, cells, mesh = make_mesh(d, case)
    met = write_metric(case, dim, v, d.get('metric', 'uniform:0.3'))
    np = int(d.get('np', '0'))
    args = ['adapt', mesh, '--metric', met, '-x', os.path.join(case, 'out.meshb'), '-s', d.get('passes', '2'),
            '--export-metric-as', os.path.join(case, 'out-metric.solb')]
    if d.get('part'):
        args += ['--partitioner', d['part']]
    rc, tail = run_ref(ctx, np, args, case)
    return 'rc=%d dir=%s' % (rc, case)


def oracle_adapt(ops, impl):
    bad = []
    for i, (op, line) in enumerate(zip(ops, impl)):
        d = kv(op)
        o = parse_out(line)
        if o.get('rc') != '0':
            bad.append((i, 'adapt exited with status %s on a valid mesh and SPD metric' % o.get('rc')))
            continue
        dim = int(d.get('dim', '3'))
        try:
            mi = pyio.read_meshb(os.path.join(o['dir'], 'in.meshb'))
            mo = pyio.read_meshb(os.path.join(o['dir'], 'out.meshb'))
        except Exception as ex:
            bad.append((i, 'output mesh unreadable by the independent parser: %r' % (ex,)))
            continue
        f = (oracles.valid3d if dim == 3 else oracles.valid2d)(mo)
        if f:
            bad.append((i, 'C01 output mesh invalid: ' + '; '.join(f[:3])))
        curved = ()
        if float(d.get('warp', '0')) != 0:
            curved = (6,) if d.get('patches', 'sides') == 'sides' else tuple(range(1, 13))
        f = oracles.same_domain(mi, mo, dim, curved_ids=curved)
        if f:
            bad.append((i, 'C02 domain changed: ' + '; '.join(f[:3])))
        if dim == 2 and any(abs(p[2]) > 0 for p in mo['verts'] if len(p) > 2):
            bad.append((i, 'C02 planar 2-D mesh left its plane'))
    return bad


def oracle_adapt_metric(ops, impl):
    """C05: uniform metric reproduced; spectrum inside the input range"""
    bad = []
    for i, (op, line) in enumerate(zip(ops, impl)):
        d = kv(op)
        o = parse_out(line)
        if o.get('rc') != '0':
            continue
        dim = int(d.get('dim', '3'))
        try:
            mo = pyio.read_meshb(os.path.join(o['dir'], 'out.meshb'))
            so = pyio.read_solb(os.path.join(o['dir'], 'out-metric.solb'))
            si = pyio.read_solb(os.path.join(o['dir'], 'in-metric.solb'))
        except Exception as ex:
            bad.append((i, 'metric output unreadable: %r' % (ex,)))
            continue
        if len(so['values']) != len(mo['verts']):
            bad.append((i, 'metric file has %d entries for %d vertices' % (len(so['values']), len(mo['verts']))))
            continue
        lo, hi = 1e300, -1e300
        for row in si['values']:
            ev = oracles.eig_sym3(meshgen.solb_metric_unrow(row, dim))
            ev = ev if dim == 3 else sorted(oracles.eig_sym3(meshgen.solb_metric_unrow(row, dim)))[:]
            if dim == 2:
                m = meshgen.solb_metric_unrow(row, dim)
                ev = oracles.eig_sym3((m[0], m[1], 0.0, m[3], 0.0, m[3]))  # ignore the embedded 1
            lo, hi = min(lo, ev[0]), max(hi, ev[-1])
        f = metric_fn(d.get('metric', 'uniform:0.3'), dim)
        exact = d.get('metric', 'uniform').split(':')[0] in ('uniform', 'aniso', 'rot')
        for n, row in enumerate(so['values']):
            m = meshgen.solb_metric_unrow(row, dim)
            if dim == 2:
                ev = oracles.eig_sym3((m[0], m[1], 0.0, m[3], 0.0, m[3]))
            else:
                ev = oracles.eig_sym3(m)
            if ev[0] < lo * (1 - 1e-9) or ev[-1] > hi * (1 + 1e-9):
                bad.append((i, 'C05 vertex %d eigenvalues [%.9e,%.9e] outside input range [%.9e,%.9e]' %
                            (n, ev[0], ev[-1], lo, hi)))
                break
            if exact:
                p = mo['verts'][n]
                ref = f(tuple(p) + (0.0,) * (3 - len(p)))
                refrow = meshgen.solb_metric_row(ref, dim)
                sc = max(abs(x) for x in refrow)
                if max(abs(a - b) for a, b in zip(row, refrow)) > 1e-7 * sc:
                    bad.append((i, 'C05 constant input metric not reproduced at vertex %d: %s vs %s' % (n, row, refrow)))
                    break
    return bad


def gen_adapt(rng, tier, np=None):
    ops = []
    n3 = 5 if tier == 'quick' else 16
    n2 = 4 if tier == 'quick' else 12
    for _ in range(n3):
        n = [rng.randint(1, 3) for _ in range(3)]
        metric = rng.choice(['uniform:%.3f' % rng.uniform(0.15, 0.6),
                             'aniso:%.3f,%.3f,%.3f' % (rng.uniform(0.1, 0.5), rng.uniform(0.1, 0.5), rng.uniform(0.2, 0.6)),
                             'linh:%.3f,%.3f,%d' % (rng.uniform(0.1, 0.3), rng.uniform(0.3, 0.6), rng.randint(0, 2)),
                             'rot:%.3f,%.3f,%.3f,%.3f' % (rng.uniform(0.08, 0.2), rng.uniform(0.3, 0.6), rng.uniform(0.3, 0.6), rng.uniform(0, 3.1))])
        ops.append('adapt dim=3 n=%d,%d,%d jitter=%.2f patches=%s mseed=%d metric=%s passes=%d%s%s' %
                   (n[0], n[1], n[2], rng.choice([0, 0.2, 0.4]), rng.choice(['sides', 'one', 'split', 'random']),
                    rng.randint(1, 10 ** 6), metric, rng.choice([0, 1, 2, 3] if tier == 'quick' else [0, 1, 2, 5, 8]),
                    ' warp=%.2f' % rng.uniform(0.05, 0.15) if rng.random() < 0.25 else '',
                    (' np=%d' % np) if np else ''))
    for _ in range(n2):
        n = [rng.randint(2, 5) for _ in range(2)]
        metric = rng.choice(['uniform:%.3f' % rng.uniform(0.08, 0.4),
                             'aniso:%.3f,%.3f,1' % (rng.uniform(0.03, 0.3), rng.uniform(0.1, 0.4)),
                             'linh:%.3f,%.3f,%d' % (rng.uniform(0.05, 0.2), rng.uniform(0.2, 0.5), rng.randint(0, 1)),
                             'rot:%.3f,%.3f,1,%.3f' % (rng.uniform(0.03, 0.1), rng.uniform(0.2, 0.5), rng.uniform(0, 3.1))])
        ops.append('adapt dim=2 n=%d,%d jitter=%.2f patches=%s mseed=%d metric=%s passes=%d%s' %
                   (n[0], n[1], rng.choice([0, 0.3]), rng.choice(['sides', 'one']), rng.randint(1, 10 ** 6), metric,
                    rng.choice([0, 1, 2, 4] if tier == 'quick' else [0, 1, 3, 6, 10]), (' np=%d' % np) if np else ''))
    return ops


# ------------------------------------------------------------------ distance (C12, C07)
def sc_distance(ctx, d, case):
    dim, v, cells, mesh = make_mesh(d, case)
    np = int(d.get('np', '0'))
    rc, tail = run_ref(ctx, np, ['distance', mesh, os.path.join(case, 'dist.solb'), '--viscous-tags', d.get('walls', '1')], case)
    return 'rc=%d dir=%s' % (rc, case)


def oracle_distance(ops, impl):
    bad = []
    for i, (op, line) in enumerate(zip(ops, impl)):
        d = kv(op)
        o = parse_out(line)
        if o.get('rc') != '0':
            bad.append((i, 'distance exited with status %s' % o.get('rc')))
            continue
        dim = int(d.get('dim', '3'))
        m = pyio.read_meshb(os.path.join(o['dir'], 'in.meshb'))
        s = pyio.read_solb(os.path.join(o['dir'], 'dist.solb'))
        walls = {int(x) for x in d.get('walls', '1').split(',')}
        v = [tuple(p) + (0.0,) * (3 - len(p)) for p in m['verts']]
        if len(s['values']) != len(v):
            bad.append((i, 'distance file has %d entries for %d vertices' % (len(s['values']), len(v))))
            continue
        L = max(max(p[k] for p in v) - min(p[k] for p in v) for k in range(3))
        if dim == 3:
            el = [t for t in m['cells'].get('tri', []) if t[3] in walls]
        else:
            el = [e for e in m['cells'].get('edg', []) if e[2] in walls]
        if not el:
            continue
        for n, p in enumerate(v):
            if dim == 3:
                ref = min(oracles.dist_point_triangle(p, v[t[0]], v[t[1]], v[t[2]]) for t in el)
            else:
                ref = min(oracles.dist_point_segment(p, v[e[0]], v[e[1]]) for e in el)
            got = s['values'][n][0]
            if abs(got - ref) > 1e-12 * L + 1e-9 * ref:
                bad.append((i, 'C12 vertex %d distance %.17g but brute-force minimum is %.17g' % (n, got, ref)))
                break
    return bad


def gen_distance(rng, tier, np=None):
    ops = []
    for _ in range(6 if tier == 'quick' else 24):
        if rng.random() < 0.7:
            n = [rng.randint(1, 4) for _ in range(3)]
            ids = sorted(rng.sample(range(1, 7), rng.randint(1, 3)))
            ops.append('distance dim=3 n=%d,%d,%d jitter=%.2f mseed=%d len=%s walls=%s%s' %
                       (n[0], n[1], n[2], rng.choice([0, 0.3]), rng.randint(1, 10 ** 6),
                        rng.choice(['1,1,1', '10,1,0.1', '1,5,1']), ','.join(map(str, ids)), (' np=%d' % np) if np else ''))
        else:
            n = [rng.randint(2, 6) for _ in range(2)]
            ids = sorted(rng.sample(range(1, 5), rng.randint(1, 2)))
            ops.append('distance dim=2 n=%d,%d jitter=%.2f mseed=%d len=%s walls=%s%s' %
                       (n[0], n[1], rng.choice([0, 0.3]), rng.randint(1, 10 ** 6), rng.choice(['1,1', '10,1']),
                        ','.join(map(str, ids)), (' np=%d' % np) if np else ''))
    return ops


SCENARIOS = {'adapt': sc_adapt, 'distance': sc_distance}

ADAPT = Stream('cli_adapt', cli_harness, None, gen_adapt, oracle=oracle_adapt, kind='oracle',
               nontrivial=lambda op, out: out.startswith('rc=0'), timeout=900)
ADAPT_METRIC = Stream('cli_adapt_metric', cli_harness, None, gen_adapt, oracle=oracle_adapt_metric, kind='oracle',
                      nontrivial=lambda op, out: out.startswith('rc=0'), timeout=900)
DISTANCE = Stream('cli_distance', cli_harness, None, gen_distance, oracle=oracle_distance, kind='oracle',
                  nontrivial=lambda op, out: out.startswith('rc=0'), timeout=600)
