from . import streams_tables

ID = 'C07'
PROPS_MODULE = 'Refine.Props.C07'
STREAMS = [streams_tables.PART]
EXPLANATION = ('Proved over the macros generated from ref_part.h: implicit block partition is a partition of [0,N) '
               'into np contiguous blocks whose sizes differ by at most one, and ref_part_implicit returns the unique '
               'block owner (for all N>=1, np>=1).')
ASSUMPTIONS = ['C integer arithmetic is modelled with unbounded Int (no 32/64-bit wrap-around)']
