from . import cli, streams_tables, streams_par, streams_gathermeshb, streams_physdist

ID = 'C07'
PROPS_MODULE = ['Refine.Props.C07', 'Refine.Props.C07Gather', 'Refine.Props.C07GatherMeshb', 'Refine.Props.C12Par']
STREAMS = [streams_tables.PART, streams_par.GATHER_NODE, streams_par.GATHER_CELL, streams_par.GATHER_FILE,
           streams_gathermeshb.GATHERMESHB,
           cli.NPINDEP, cli.CONVERT_MPI, cli.DISTANCE_MPI, cli.INTERP_MPI,
           streams_physdist.PAR, streams_physdist.TAGS]
EXPLANATION = ('Proved over the macros generated from ref_part.h: implicit block partition is a partition of [0,N) '
               'into np contiguous blocks whose sizes differ by at most one, and ref_part_implicit returns the unique '
               'block owner (for all N>=1, np>=1). '
               'Proved about the executable gather model Refine.Model.Par (Props/C07Gather): if every global id in '
               '[0,N) is owned by exactly one rank, ref_gather_node writes the owners\' payloads in global-id order '
               '0..N-1 with hit count 1 in every slot, for every chunk size >= 1, rank count and partition '
               '(gather_node_once, gather_node_spec); the output is the same for any two chunk sizes '
               '(gather_node_chunk_independent) and for any two distributions of the same vertex data '
               '(gather_node_np_independent); failure is reported exactly when some id has 0 or >= 2 owners '
               '(gather_node_fails_iff); chunk >= 1 iff reduce_byte_limit <= 0 or >= 32, otherwise the loop never '
               'advances (chunk_positive, gather_node_hang); the owner rule of ref_cell_part makes ref_gather_cell '
               'emit every cell of the global mesh exactly once with its tag, for every partition (gather_cell_once). '
               'Proved about the whole parallel libMeshb writer (Props/C07GatherMeshb over Model/GatherMeshb, see C08): '
               'gatherMeshb_content / gatherMeshb_np_independent — for any two distributions (rank counts, partitions, ghost '
               'layers, local orders, reduce byte limits) of the same global mesh the files hold the same ordered vertex '
               'list bit for bit, the same multiset of cells per group (vertex order and id kept) and the same multiset of '
               'geometry association records per type, each exactly once; gatherMeshb_chunk_independent. '
               'Tie: stream gathermeshb[np=1..5], bytes of the real ref_gather_by_extension(".meshb") == model. '
               'Wall distance (Props/C12Par over Model/PhysDist, see C12): the parallel ref_phys_wall_distance stores at every '
               'vertex the minimum over ALL wall elements of ALL ranks for every rank count, distribution and tree insertion order '
               '(wallDistance_par_exact), so the value does not depend on the number of ranks: in exact arithmetic '
               '(wallMin_np_independent) and bit for bit for any value type under the named hypothesis TreeReturnsMinOfKernelValues '
               '(wallDistance_par_bits: MIN is commutative/associative/idempotent away from NaN and -0.0, the kernel value is a '
               'function of (vertex, element) only, every rank sees every element). Tie: stream physdist_par - the REAL routine on '
               'k = 1..np ranks of one mpiexec run, every stored vertex bit-compared with the 1-rank run, with its other copies and '
               'with the model; cli_distance_tags - refmpi distance at np=2,3 against the serial file, bit for bit. '
               'Tie: the real static ref_gather_node / ref_gather_cell and ref_gather_by_extension (.meshb) under mpiexec at np = 1,2,3,4,5,8 against '
               'the model on generated worlds. End to end (no model side): translate / distance / interpolate / '
               'format conversion with ref and refmpi, outputs compared with the serial run (vertices in the same '
               'order, cell multisets with tags, fields; distance and data movement exactly, interpolation to 1e-12).')
ASSUMPTIONS = ['C integer arithmetic is modelled with unbounded Int (no 32/64-bit wrap-around)',
               'the gather hypothesis "every global id owned by exactly one rank" is a clause of distInv (package dist, C06)',
               'payload addition only needs 0 + x = x = x + 0; IEEE doubles satisfy it bit-for-bit except that -0.0 is '
               'gathered as +0.0 when np > 1 (numerically equal; the end-to-end comparison is numeric)',
               'interpolation values (C11) and MPI floating-point reductions are not claimed exact here; only their transport (C17) '
               'and the gather; wall distance: bit-identity across rank counts is proved modulo TreeReturnsMinOfKernelValues '
               '(float pruning of the sphere tree drops no nearer element; proved in exact arithmetic, checked bit for bit by '
               'physdist_par on every generated input); ref_phys_wall_distance never reduces doubles with MPI (only MIN in the '
               'tree walk, alltoallv transport and the ghost copy)',
               'hit counts are modelled as Nat (the C adds doubles 0.0/1.0)']
