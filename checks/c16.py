"""C16 — the symmetric-matrix kernel of ref_matrix.c satisfies its algebraic identities."""
from . import streams_matrix

ID = 'C16'
PROPS_MODULE = ['Refine.Props.C16']
STREAMS = [streams_matrix.MAIN, streams_matrix.PAIR, streams_matrix.STRICT, streams_matrix.UNDERFLOW]

EXPLANATION = (
    'Proved in Lean over the reals, about the executable model Refine/Model/Matrix.lean (a line-by-line transcription of '
    'ref_matrix.c, generic over the scalar type): '
    '(1) diag_m2: all branches return orthonormal vectors with form_m2(diag_m2 m) = m, and the routine is total '
    '(diagM2_spec, diagM2_total); '
    '(2) diag_m: the first rotation is an orthogonal similarity to the coded tridiagonal form, identity branch included '
    '(diagM_rot0); every QL vector update is a plane rotation with c^2+s^2=1 because the sub-diagonal entries of the active '
    'block stay non-zero, so a successful run returns orthonormal vectors after any number of sweeps, for both the current '
    'absolute and the proposed relative convergence test (diagM_orthonormal); the only error statuses on finite input are '
    'failure (30 sweeps) and the model-only ub (diagM_error_kinds); diagonal input is decomposed exactly (diagM_diagonal); '
    '(3) given that the inner eigen decompositions are exact (IsEigSys, stated as explicit hypotheses because the QL loop '
    'stops on a threshold and drops the last sub-diagonal entry): matrix functions do not depend on the eigen system used '
    '(formM_fun_congr), exp(log m) = m for positive eigenvalues, log(exp m) = m, sqrt_m squares to m and its two results are '
    'mutual inverses (exp_log, log_exp, sqrt_sq, sqrt_invsqrt), x^T(intersect A B)x >= x^T A x and >= x^T B x for all x, '
    'intersect A A = A, the result is positive definite, dually for bound (intersect_ge_left/right, intersect_self, '
    'intersect_spd, bound_le_left/right, bound_self), and the div_zero branch returns the second argument '
    '(intersect_bound_div_zero); '
    '(4) unconditionally: every successful run of the guarded Gauss-Jordan inverse returns the two-sided inverse '
    '(invGen3_mul, invM_mul), det_m returns the determinant or 0.0 (detM_det_or_zero), descending_eig sorts and keeps the '
    'system (descendingEig_spec), x^T form_m(d) x = sum l_k (v_k.x)^2 (formM_quadratic_form); '
    '(5) for every scalar instance, in particular Float: a non-finite entry makes diag_m/diag_m2 and every routine built on '
    'them return REF_INVALID (diagM_nonfinite_invalid, matrix_functions_nonfinite_invalid). '
    'Tied, not proved: the Float instance of the same definitions reproduces the C bit for bit on all generated inputs '
    '(streams matrix_main, matrix_pair, matrix_strict, matrix_underflow); the oracles check on the implementation\'s own '
    'output, against an independent 50-digit Jacobi solver and exact rational residuals, orthonormality, reconstruction, '
    'log/exp, sqrt, inverse identities and the Loewner order of intersect/bound with c*eps*cond-scaled tolerances. '
    'Only oracled: that the decomposition is accurate (diagM_similarity is not proved: the QL similarity invariant), and '
    'convergence within 30 sweeps. Known findings reported by the strict/underflow streams: the absolute 1e-14 convergence '
    'test and the unscaled sqrt(m1^2+m2^2) of the first rotation.')

ASSUMPTIONS = [
    'IEEE rounding in every REF_DBL kernel is modelled (Float instance, bit-compared), not verified: the theorems hold in exact arithmetic',
    'diagM_similarity (each implicit-shift QL step keeps Q T Q^T = A) is not proved; theorems about log/exp/sqrt/intersect/bound take '
    'IsEigSys (orthonormal and formM d = m) of the inner decompositions as hypotheses; the residual oracles check them numerically',
    'convergence of the QL iteration within the 30-sweep cap is not proved (a non-ok status on a finite matrix is an oracle failure)',
    'main-stream tolerances are c*eps_eff*cond-scaled with eps_eff = eps + 1e-14/|M| (the implementation\'s absolute convergence '
    'threshold); the strict stream uses eps_eff = eps and reports the difference as a known finding',
    'generators keep |entries| < 1e100: for entries >= ~1e154 ref_matrix_diag_m overflows, the small-subdiagonal search falls through '
    'and the C writes e[3] (UBSan: ref_matrix.c:233 index 3 out of bounds); the model returns the model-only status ub there',
    'ref_matrix_inv_m / sqrt_m guards (ref_math_divisible against a normalised pivot) reject matrices with entries >= 1e20 or '
    'eigenvalues <= 1e-20 / 1e-40 whatever their conditioning: outside the metric range 1e-12..1e12, tied but not oracled',
    'ref_matrix_det_m has no finite check (returns 0.0 with REF_SUCCESS on NaN input): not part of the rejection claim',
    'Python oracle arithmetic (fractions, 50-digit decimal Jacobi) is trusted for the residual checks',
]
