from . import streams_matrix

ID = 'C16'
PROPS_MODULE = ['Refine.Props.C16']
STREAMS = [streams_matrix.MAIN, streams_matrix.PAIR, streams_matrix.STRICT, streams_matrix.UNDERFLOW]
EXPLANATION = ('TODO')
ASSUMPTIONS = ['IEEE rounding in every REF_DBL kernel is modelled (Float instance, bit-compared), not verified']
