"""C16 — the symmetric-matrix kernel of ref_matrix.c satisfies its algebraic identities."""
from . import streams_matrix

ID = 'C16'
PROPS_MODULE = ['Refine.Props.C16', 'Refine.Props.C16QL']
STREAMS = [streams_matrix.MAIN, streams_matrix.PAIR, streams_matrix.STRICT, streams_matrix.UNDERFLOW]

EXPLANATION = (
    'Proved in Lean over the reals, about the executable model Refine/Model/Matrix.lean (a line-by-line transcription of '
    'ref_matrix.c, generic over the scalar type): '
    '(1) diag_m2: all branches return orthonormal vectors with form_m2(diag_m2 m) = m, and the routine is total '
    '(diagM2_spec, diagM2_total); '
    '(2) diag_m: the first rotation is an orthogonal similarity to the coded tridiagonal form, identity branch included '
    '(diagM_rot0); every QL vector update is a plane rotation with c^2+s^2=1 because the sub-diagonal entries of the active '
    'block stay non-zero, so a successful run returns orthonormal vectors after any number of sweeps, for both the current '
    'absolute and the proposed relative convergence test (diagM_orthonormal); the only error statuses on finite input are '
    'failure (30 sweeps, or an overflowed small-sub-diagonal search) (diagM_error_kinds); diagonal input is decomposed exactly (diagM_diagonal); '
    '(3) given that the inner eigen decompositions are exact (IsEigSys, stated as explicit hypotheses because the QL loop '
    'stops on a threshold and drops the last sub-diagonal entry): matrix functions do not depend on the eigen system used '
    '(formM_fun_congr), exp(log m) = m for positive eigenvalues, log(exp m) = m, sqrt_m squares to m and its two results are '
    'mutual inverses (exp_log, log_exp, sqrt_sq, sqrt_invsqrt), x^T(intersect A B)x >= x^T A x and >= x^T B x for all x, '
    'intersect A A = A, the result is positive definite, dually for bound (intersect_ge_left/right, intersect_self, '
    'intersect_spd, bound_le_left/right, bound_self), and the div_zero branch returns the second argument '
    '(intersect_bound_div_zero); '
    '(4) unconditionally: every successful run of the guarded Gauss-Jordan inverse returns the two-sided inverse '
    '(invGen3_mul, invM_mul), det_m returns the determinant or 0.0 (detM_det_or_zero), descending_eig sorts and keeps the '
    'system (descendingEig_spec), x^T form_m(d) x = sum l_k (v_k.x)^2 (formM_quadratic_form); '
    '(5) for every scalar instance, in particular Float: a non-finite entry makes diag_m/diag_m2 and every routine built on '
    'them return REF_INVALID (diagM_nonfinite_invalid, matrix_functions_nonfinite_invalid). '
    'Tied, not proved: the Float instance of the same definitions reproduces the C bit for bit on all generated inputs '
    '(streams matrix_main, matrix_pair, matrix_strict, matrix_underflow); the oracles check on the implementation\'s own '
    'output, against an independent 50-digit Jacobi solver and exact rational residuals, orthonormality, reconstruction, '
    'log/exp, sqrt, inverse identities and the Loewner order of intersect/bound with c*eps*cond-scaled tolerances. '
    '(6) diagM_similarity (Props/C16QL.lean): every inner step of the QL loop is a Givens similarity of the full 3x3 matrix '
    'with the bulge stored explicitly (ql_rotation_is_givens, ql_rotation_similarity), tql2\'s closing recurrence '
    'p = -s*s2*c3*el1*e[l]/dl1 equals the p left by the loop because the shift makes the leading 2x2 block singular '
    '(ql_closing_recurrence), so each of the three possible sweeps (blocks 0..1, 1..2 and the two-rotation sweep over 0..2) '
    'keeps Q (T + f P) Q^T (ql_sweep_similarity), and so do the do-while loop for any number of sweeps and the row loop '
    '(ql_loop_similarity, ql_row_similarity). Whenever diag_m returns success: m = Q diag(d) Q^T + resid entry by entry, '
    'resid being the at most three sub-diagonal entries that passed the convergence test although they were not 0, each '
    'bounded by the tolerance of the test (1e-14*tst1) and placed between the two vectors it coupled when it was dropped '
    '(diagM_similarity); the quadratic forms of m and of Q diag(d) Q^T differ by at most 3*tol*|x|^2 for every x '
    '(diagM_residual_bound); if the dropped entries - which are what is left in e[0], e[1] at return, plus possibly the e[1] of the first rotation (diagM_dropped_entries) - were exactly 0 the decomposition is exact (diagM_similarity_exact, diagM_similarity_efinal), which '
    'is proved outright for every input whose tridiagonal form has e[1] = 0 and an e[0] that does not pass the test '
    '(diagM_exact_block2: the one-rotation sweep annihilates e[0] exactly); eigenvalues all above 3*tol imply that the input '
    'is positive definite, with no exactness hypothesis (diagM_spd_of_margin); log/exp/sqrt identities restated with the '
    'hypothesis "the inner runs dropped nothing non-zero" instead of an abstract IsEigSys (exp_log_zeroResidual, '
    'log_exp_zeroResidual, sqrt_zeroResidual, zeroResidual_isEigSys, innerExact_of_zeroResidual for intersect/bound); descending_eig keeps form_m for every system '
    '(descendingEig_formM); form_m of an orthonormal system with positive values is positive definite (formM_spd). '
    'Only oracled: convergence within 30 sweeps, and the size of tst1 relative to the norm of the input (the residual bound is '
    'stated in terms of the test\'s own tst1). Known findings reported by the strict/underflow streams: the absolute 1e-14 convergence '
    'test and the unscaled sqrt(m1^2+m2^2) of the first rotation.')

ASSUMPTIONS = [
    'IEEE rounding in every REF_DBL kernel is modelled (Float instance, bit-compared), not verified: the theorems hold in exact arithmetic',
    'diagM_similarity is proved in exact arithmetic with an explicit residual: the convergence test is a threshold, so the entries it '
    'drops (each <= 1e-14*tst1) remain as m - Q diag(d) Q^T; theorems about log/exp/sqrt/intersect/bound are exact statements and '
    'therefore still take exactness of the inner decompositions as a hypothesis (IsEigSys, or ZeroResidual = the run dropped nothing '
    'non-zero); a perturbation bound for log/exp/sqrt/intersect under a non-zero residual is not proved; the residual oracles check '
    'them numerically',
    'the residual bound is in terms of tst1 (max over rows of |d[l]|+|e[l]| of the shifted matrix at row entry), not of a norm of m',
    'convergence of the QL iteration within the 30-sweep cap is not proved (a non-ok status on a finite matrix is an oracle failure)',
    'main-stream tolerances are c*eps_eff*cond-scaled with eps_eff = eps + 1e-14/|M| (the implementation\'s absolute convergence '
    'threshold); the strict stream uses eps_eff = eps and reports the difference as a known finding',
    'entries >= ~1e154 overflow inside ref_matrix_diag_m; the small-subdiagonal search then falls through and the routine returns '
    'REF_FAILURE (repair in /repo of the out-of-bounds store e[3] the model used to carry as the status ub); matrix_main exercises '
    'that branch with entries up to 1e308, the accuracy oracles apply to |entries| < 1e100 only',
    'ref_matrix_inv_m / sqrt_m guards (ref_math_divisible against a normalised pivot) reject matrices with entries >= 1e20 or '
    'eigenvalues <= 1e-20 / 1e-40 whatever their conditioning: outside the metric range 1e-12..1e12, tied but not oracled',
    'ref_matrix_det_m has no finite check (returns 0.0 with REF_SUCCESS on NaN input): not part of the rejection claim',
    'Python oracle arithmetic (fractions, 50-digit decimal Jacobi) is trusted for the residual checks',
]
