"""Generators of small valid MIXED-element meshes (hexes / prisms / pyramids carried through an adaptation
unchanged, tetrahedra adapted around them) and the implementation-independent statements used to judge what
refine did with them.

Cell node orders are refine's in-memory orders (ref_cell.h pictures):
  pyramid  : quad base 0-3-4-1, apex 2            (the AFLR3 / UGRID order)
  prism    : triangle 0-1-2 below triangle 3-4-5
  hex      : quad 0-1-2-3 below quad 4-5-6-7
The face tables below are written down from those pictures, not from the generated Lean tables.

Layout of `layered(...)`: an nx x ny x (nzb + nzt) grid of boxes on [0,lx] x [0,ly] x [0,lz].  Each column (i,j) of
the lower nzb layers is frozen: one hexahedron per box (`H`) or two prisms per box (`P`, the box cut by the diagonal of
`square pattern (i+j)%2`, prism axis along z).  Each box of the upper nzt layers is cut from its centre point: the six
faces are cut into two triangles each (vertical faces: diagonal through the smaller vertex index; horizontal faces: the
same (i+j)%2 pattern on every level, so neighbours agree) giving 12 tetrahedra -- except the bottom face of a box that
sits on a hexahedron: that face stays a quadrilateral and carries a PYRAMID (apex = box centre), 10 tetrahedra.
So: columns `H` only -> hex core + pyramid transition + tets, no prism;  `P` only -> prism layer under tets, no pyramid;
mixed columns -> pyramids + prisms + hexes + tets.  All randomness comes from the rng passed in.
"""
from fractions import Fraction

from . import meshgen

TET_FACES = [(1, 3, 2), (0, 2, 3), (0, 3, 1), (0, 1, 2)]
PYR_TRI = [(0, 1, 2), (1, 4, 2), (2, 4, 3), (0, 2, 3)]
PYR_QUA = [(0, 3, 4, 1)]
PRI_TRI = [(0, 1, 2), (3, 5, 4)]
PRI_QUA = [(0, 3, 4, 1), (1, 4, 5, 2), (0, 2, 5, 3)]
HEX_QUA = [(0, 3, 7, 4), (1, 5, 6, 2), (0, 4, 5, 1), (2, 6, 7, 3), (0, 1, 2, 3), (4, 7, 6, 5)]
TRI_FACES = {'tet': TET_FACES, 'pyr': PYR_TRI, 'pri': PRI_TRI, 'hex': []}
QUA_FACES = {'tet': [], 'pyr': PYR_QUA, 'pri': PRI_QUA, 'hex': HEX_QUA}
NP = {'tet': 4, 'pyr': 5, 'pri': 6, 'hex': 8, 'tri': 3, 'qua': 4}
VOLUME_KINDS = ('tet', 'pyr', 'pri', 'hex')
FROZEN_KINDS = ('pyr', 'pri', 'hex', 'qua')
# edges of the cells (pairs of local indices), from the same pictures
EDGES = {
    'qua': [(0, 1), (1, 2), (2, 3), (3, 0)],
    'pyr': [(0, 1), (0, 2), (0, 3), (1, 2), (1, 4), (2, 3), (2, 4), (3, 4)],
    'pri': [(0, 1), (0, 2), (0, 3), (1, 2), (1, 4), (2, 5), (3, 4), (3, 5), (4, 5)],
    'hex': [(0, 1), (0, 3), (0, 4), (1, 2), (1, 5), (2, 3), (2, 6), (3, 7), (4, 5), (4, 7), (5, 6), (6, 7)],
}


def layered(nx, ny, nzb, nzt, columns, lengths=(1.0, 1.0, 1.0), zi=0.4, rng=None, jitter=0.0, centre=0.5):
    """columns: function (i, j) -> 'H' | 'P'.  z levels: nzb equal layers on [0, zi], nzt equal layers on [zi, lz].
    centre: height of the centre points of the first tet layer as a fraction of that layer (0.5 = box centre; 0.03:
    the tets on the interface are nearly flat, quality far below 0.1; 0.97: the tets on the layer's top face are, and
    they all touch the pyramid apexes).
    -> verts, cells {tet, pyr, pri, hex, tri, qua} (tuples of 0-based nodes + id; volume ids are 0)"""
    lx, ly, lz = lengths
    zs = [zi * k / nzb for k in range(nzb)] + [zi + (lz - zi) * k / nzt for k in range(nzt + 1)]
    nz = nzb + nzt

    def vid(i, j, k):
        return (k * (ny + 1) + j) * (nx + 1) + i
    verts = []
    for k in range(nz + 1):
        for j in range(ny + 1):
            for i in range(nx + 1):
                verts.append((lx * i / nx, ly * j / ny, zs[k]))
    cells = {k: [] for k in ('tet', 'pyr', 'pri', 'hex')}

    def corners(i, j, k):
        return [vid(i, j, k), vid(i + 1, j, k), vid(i + 1, j + 1, k), vid(i, j + 1, k),
                vid(i, j, k + 1), vid(i + 1, j, k + 1), vid(i + 1, j + 1, k + 1), vid(i, j + 1, k + 1)]

    def horiz_tris(i, j, c4):
        a, b, c, d = c4
        if (i + j) % 2 == 0:
            return [(a, b, c), (a, c, d)]
        return [(a, b, d), (b, c, d)]

    def vert_tris(c4):
        # diagonal through the smallest vertex index: both boxes sharing the face agree
        k = c4.index(min(c4))
        a, b, c, d = c4[k:] + c4[:k]
        return [(a, b, c), (a, c, d)]

    def oriented_tet(n):
        n = list(n)
        if meshgen.tet_vol(verts[n[0]], verts[n[1]], verts[n[2]], verts[n[3]]) < 0:
            n[0], n[1] = n[1], n[0]
        return tuple(n) + (0,)

    for k in range(nzb):
        for j in range(ny):
            for i in range(nx):
                c = corners(i, j, k)
                if columns(i, j) == 'H':
                    cells['hex'].append(tuple(c) + (0,))
                else:
                    for t in horiz_tris(i, j, c[:4]):
                        lo = list(t)
                        hi = [x + (nx + 1) * (ny + 1) for x in lo]
                        n = lo + hi
                        if meshgen.tet_vol(verts[n[0]], verts[n[4]], verts[n[5]], verts[n[3]]) < 0:
                            n = [lo[0], lo[2], lo[1], hi[0], hi[2], hi[1]]
                        cells['pri'].append(tuple(n) + (0,))
    for k in range(nzb, nz):
        for j in range(ny):
            for i in range(nx):
                c = corners(i, j, k)
                ctr = len(verts)
                p = [sum(verts[x][a] for x in c) / 8.0 for a in range(3)]
                if k == nzb and centre != 0.5:
                    p[2] = zs[k] + centre * (zs[k + 1] - zs[k])
                if rng is not None and jitter > 0:
                    p = [p[a] + jitter * (rng.random() - 0.5) * (lx / nx, ly / ny, (lz - zi) / nzt)[a] for a in range(3)]
                verts.append(tuple(p))
                faces = []
                if k == nzb and columns(i, j) == 'H':
                    # pyramid on the quadrilateral: base cycle n0 n3 n4 n1 must be seen counter-clockwise from the apex
                    a, b, cc, d = c[0], c[1], c[2], c[3]
                    cells['pyr'].append((a, d, ctr, b, cc, 0))
                else:
                    faces += horiz_tris(i, j, c[:4])
                faces += horiz_tris(i, j, c[4:])
                for q in ([c[0], c[1], c[5], c[4]], [c[1], c[2], c[6], c[5]], [c[2], c[3], c[7], c[6]],
                          [c[3], c[0], c[4], c[7]]):
                    faces += vert_tris(q)
                for t in faces:
                    cells['tet'].append(oriented_tet(t + (ctr,)))
    # pyramid orientation: refine's first sub-tet of a pyramid must be positive, swap the base direction if not
    fixed = []
    for p in cells['pyr']:
        n = list(p[:5])
        if pyr_volume(verts, n) < 0:
            n = [n[1], n[0], n[2], n[4], n[3]]
        fixed.append(tuple(n) + (0,))
    cells['pyr'] = fixed
    fixed = []
    for h in cells['hex']:
        n = list(h[:8])
        if hex_volume(verts, n) < 0:
            n = n[4:] + n[:4]
        fixed.append(tuple(n) + (0,))
    cells['hex'] = fixed
    tris, quas = boundary_of(verts, cells, lengths)
    cells['tri'] = tris
    cells['qua'] = quas
    return verts, {k: v for k, v in cells.items() if v}


def with_hex_island(verts, cells, n=(2, 1, 1), origin=(2.0, 0.0, 0.0), size=0.5, first_id=11):
    """add a separate block of hexahedra (its own closed boundary of quadrilaterals) next to a mesh: a grid that has
    hexahedra and boundary quadrilaterals but neither pyramids nor prisms, so refine's cavity operators run"""
    verts = list(verts)
    cells = {k: list(v) for k, v in cells.items()}
    base = len(verts)
    nx, ny, nz = n

    def vid(i, j, k):
        return base + (k * (ny + 1) + j) * (nx + 1) + i
    for k in range(nz + 1):
        for j in range(ny + 1):
            for i in range(nx + 1):
                verts.append((origin[0] + size * i, origin[1] + size * j, origin[2] + size * k))
    hexes = []
    for k in range(nz):
        for j in range(ny):
            for i in range(nx):
                c = [vid(i, j, k), vid(i + 1, j, k), vid(i + 1, j + 1, k), vid(i, j + 1, k),
                     vid(i, j, k + 1), vid(i + 1, j, k + 1), vid(i + 1, j + 1, k + 1), vid(i, j + 1, k + 1)]
                if hex_volume(verts, c) < 0:
                    c = c[4:] + c[:4]
                hexes.append(tuple(c) + (0,))
    qcount = {}
    for h in hexes:
        for f in HEX_QUA:
            q = tuple(h[i] for i in f)
            qcount.setdefault(tuple(sorted(q)), []).append(q)
    quas = [lst[0] + (first_id,) for key, lst in sorted(qcount.items()) if len(lst) == 1]
    cells['hex'] = cells.get('hex', []) + hexes
    cells['qua'] = cells.get('qua', []) + quas
    return verts, cells


def side_id(verts, nodes, lengths):
    eps = 1e-12
    for ax in range(3):
        if all(abs(verts[n][ax]) < eps for n in nodes):
            return 2 * ax + 1
        if all(abs(verts[n][ax] - lengths[ax]) < eps for n in nodes):
            return 2 * ax + 2
    return 7


def boundary_of(verts, cells, lengths):
    tcount, qcount = {}, {}
    for kind in VOLUME_KINDS:
        for c in cells.get(kind, []):
            for f in TRI_FACES[kind]:
                t = tuple(c[i] for i in f)
                tcount.setdefault(tuple(sorted(t)), []).append(t)
            for f in QUA_FACES[kind]:
                q = tuple(c[i] for i in f)
                qcount.setdefault(tuple(sorted(q)), []).append(q)
    tris, quas = [], []
    for key, lst in sorted(tcount.items()):
        if len(lst) == 1:
            t = lst[0]
            # refine's boundary triangles/quads point into the domain: reverse of the outward cell face
            tris.append((t[0], t[1], t[2], side_id(verts, t, lengths)))
    for key, lst in sorted(qcount.items()):
        if len(lst) == 1:
            q = lst[0]
            quas.append((q[0], q[1], q[2], q[3], side_id(verts, q, lengths)))
    return tris, quas


# ---------------------------------------------------------------------------- volumes (exact-capable)
def _vol(a, b, c, d):
    m11 = (a[0] - d[0]) * ((b[1] - d[1]) * (c[2] - d[2]) - (c[1] - d[1]) * (b[2] - d[2]))
    m12 = (a[1] - d[1]) * ((b[0] - d[0]) * (c[2] - d[2]) - (c[0] - d[0]) * (b[2] - d[2]))
    m13 = (a[2] - d[2]) * ((b[0] - d[0]) * (c[1] - d[1]) - (c[0] - d[0]) * (b[1] - d[1]))
    return -(m11 - m12 + m13) / 6


def fan_volume(verts, nodes, tri_faces, qua_faces):
    """signed volume of a cell as the fan from its centroid over its faces (each quad about its own centre, so two
    cells sharing a warped quad agree on it); positive for refine-oriented cells (faces listed outward)"""
    pts = [verts[n] for n in nodes]
    k = len(pts)
    c = [sum(p[a] for p in pts) / k for a in range(3)]
    v = 0.0
    for f in tri_faces:
        v += _vol(pts[f[0]], pts[f[1]], pts[f[2]], c)
    for f in qua_faces:
        fc = [sum(pts[i][a] for i in f) / 4.0 for a in range(3)]
        for e in range(4):
            v += _vol(pts[f[e]], pts[f[(e + 1) % 4]], fc, c)
    return v


def pyr_volume(verts, n):
    return fan_volume(verts, n, PYR_TRI, PYR_QUA)


def pri_volume(verts, n):
    return fan_volume(verts, n, PRI_TRI, PRI_QUA)


def hex_volume(verts, n):
    return fan_volume(verts, n, [], HEX_QUA)


def total_volume(m):
    v = m['verts']
    tot = 0.0
    for t in m['cells'].get('tet', []):
        tot += _vol(v[t[0]], v[t[1]], v[t[2]], v[t[3]])
    for kind in ('pyr', 'pri', 'hex'):
        for c in m['cells'].get(kind, []):
            tot += abs(fan_volume(v, c[:NP[kind]], TRI_FACES[kind], QUA_FACES[kind]))
    return tot


# ---------------------------------------------------------------------------- C01 on a mixed mesh
def valid_mixed(m):
    """C01 for a 3-D mesh with any of tet/pyr/pri/hex + tri/qua boundary (dict from pyio.read_mesh):
    indices in range, no repeated vertex in a cell, no duplicate cell, positive tet volumes, positive fan volume of
    every non-simplex cell, every triangular face of any cell shared by exactly two cells or by one cell and exactly
    one boundary triangle, every quadrilateral face likewise with boundary quadrilaterals (a triangular face never
    meets a quadrilateral one: different vertex sets), every boundary element on exactly one cell face, the boundary
    surface closed and manifold (each boundary edge in exactly two boundary elements), every vertex used."""
    bad = []
    v = m['verts']
    nv = len(v)
    used = [False] * nv
    tfaces, qfaces = {}, {}
    seen = {}
    for kind in VOLUME_KINDS:
        for ci, c in enumerate(m['cells'].get(kind, [])):
            n = c[:NP[kind]]
            if any(x < 0 or x >= nv for x in n):
                bad.append('%s %d index out of range %s' % (kind, ci, n))
                continue
            if len(set(n)) != len(n):
                bad.append('%s %d repeats a vertex %s' % (kind, ci, n))
                continue
            key = (kind, tuple(sorted(n)))
            if key in seen:
                bad.append('%s %d duplicates %s %d' % (kind, ci, kind, seen[key]))
            seen[key] = ci
            for x in n:
                used[x] = True
            if kind == 'tet':
                vol = _vol(v[n[0]], v[n[1]], v[n[2]], v[n[3]])
                if not vol > 1e-300:
                    F = Fraction
                    if _vol(*[[F(x) for x in v[k]] for k in n]) <= 0:
                        bad.append('tet %d %s has non-positive volume %.3e' % (ci, n, vol))
            else:
                vol = fan_volume(v, n, TRI_FACES[kind], QUA_FACES[kind])
                if not vol > 0:
                    bad.append('%s %d %s has non-positive volume %.3e' % (kind, ci, n, vol))
            for f in TRI_FACES[kind]:
                t = tuple(n[i] for i in f)
                tfaces.setdefault(tuple(sorted(t)), []).append((kind, ci))
            for f in QUA_FACES[kind]:
                q = tuple(n[i] for i in f)
                qfaces.setdefault(tuple(sorted(q)), []).append((kind, ci))
    tkeys, qkeys = {}, {}
    for name, np_, keys in (('tri', 3, tkeys), ('qua', 4, qkeys)):
        for si, s in enumerate(m['cells'].get(name, [])):
            n = s[:np_]
            if any(x < 0 or x >= nv for x in n) or len(set(n)) != np_:
                bad.append('%s %d bad nodes %s' % (name, si, n))
                continue
            keys.setdefault(tuple(sorted(n)), []).append(si)
    for what, faces, keys in (('triangular', tfaces, tkeys), ('quadrilateral', qfaces, qkeys)):
        for key, lst in faces.items():
            nb = len(keys.get(key, []))
            if len(lst) > 2:
                bad.append('%s face %s shared by %d cells %s' % (what, key, len(lst), lst[:3]))
            elif len(lst) == 2 and nb:
                bad.append('interior %s face %s also has a boundary element' % (what, key))
            elif len(lst) == 1 and nb != 1:
                bad.append('non-conforming: %s face %s of %s %d has one cell and %d boundary elements '
                           '(hanging node / missing neighbour)' % (what, key, lst[0][0], lst[0][1], nb))
        for key in keys:
            if key not in faces:
                bad.append('boundary %s %s is not a face of any cell' % (what, key))
    be = {}
    for keys, np_ in ((tkeys, 3), (qkeys, 4)):
        for name in (['tri'] if np_ == 3 else ['qua']):
            for s in m['cells'].get(name, []):
                n = s[:np_]
                for e in range(np_):
                    a, b = n[e], n[(e + 1) % np_]
                    be[(min(a, b), max(a, b))] = be.get((min(a, b), max(a, b)), 0) + 1
    for e, c in be.items():
        if c != 2:
            bad.append('boundary edge %s in %d boundary elements (not closed/manifold)' % (e, c))
            break
    if nv and not all(used):
        bad.append('%d vertices unused by any cell (first %d)' % (used.count(False), used.index(False)))
    return bad[:12]


# ---------------------------------------------------------------------------- C02: frozen cells
def frozen_set(m, kinds=FROZEN_KINDS):
    """non-simplex cells as a multiset of (kind, coordinate tuples in cell order[, id])"""
    v = m['verts']
    out = {}
    for kind in kinds:
        for c in m['cells'].get(kind, []):
            key = (kind,) + tuple(tuple(v[n]) for n in c[:NP[kind]]) + ((c[NP[kind]],) if kind == 'qua' else ())
            out[key] = out.get(key, 0) + 1
    return out


def canon_rot(kind, pts):
    """a cell is the same cell under the renumberings that keep its shape: compare modulo the rotations refine's
    writers never apply -- none: refine keeps the node order, so cells are compared in their own order"""
    return pts


def frozen_same(mi, mo):
    """C02: non-simplex cells of the output == those of the input as multisets of coordinate tuples, bit for bit"""
    a, b = frozen_set(mi), frozen_set(mo)
    bad = []
    if a == b:
        return bad
    for kind in FROZEN_KINDS:
        ka = {k: c for k, c in a.items() if k[0] == kind}
        kb = {k: c for k, c in b.items() if k[0] == kind}
        if ka == kb:
            continue
        lost = [k for k in ka if ka[k] != kb.get(k, 0)]
        new = [k for k in kb if kb[k] != ka.get(k, 0)]
        msg = '%s: %d in, %d out; %d input cells not found unchanged in the output, %d output cells not in the input' % (
            kind, sum(ka.values()), sum(kb.values()), len(lost), len(new))
        if lost and new:
            # closest pair, to say how far a vertex moved
            best = None
            for k in lost[:40]:
                for k2 in new[:200]:
                    n = NP[kind]
                    d = max(max(abs(x - y) for x, y in zip(p, q)) for p, q in zip(k[1:1 + n], k2[1:1 + n]))
                    if best is None or d < best[0]:
                        best = (d, k[1])
            if best:
                msg += '; e.g. the cell with first vertex %s reappears with a vertex displaced by %.3e' % (best[1], best[0])
        bad.append(msg)
    return bad


# ---------------------------------------------------------------------------- 2-D: triangles + quadrilaterals
def area2(a, b, c):
    return 0.5 * ((b[0] - a[0]) * (c[1] - a[1]) - (c[0] - a[0]) * (b[1] - a[1]))


def total_area(m):
    v = m['verts']
    tot = sum(area2(v[t[0]], v[t[1]], v[t[2]]) for t in m['cells'].get('tri', []))
    for q in m['cells'].get('qua', []):
        tot += area2(v[q[0]], v[q[1]], v[q[2]]) + area2(v[q[0]], v[q[2]], v[q[3]])
    return tot


def valid_mixed_2d(m):
    """C01 for a planar mesh of triangles and quadrilaterals with boundary edges: positive areas, every cell side
    shared by exactly two cells or by one cell and exactly one boundary edge, every boundary edge on exactly one
    cell side, boundary closed (each boundary vertex on two boundary edges), every vertex used"""
    bad = []
    v = m['verts']
    nv = len(v)
    used = [False] * nv
    sides = {}
    for kind, np_ in (('tri', 3), ('qua', 4)):
        for ci, c in enumerate(m['cells'].get(kind, [])):
            n = c[:np_]
            if any(x < 0 or x >= nv for x in n) or len(set(n)) != np_:
                bad.append('%s %d bad nodes %s' % (kind, ci, n))
                continue
            for x in n:
                used[x] = True
            a = area2(v[n[0]], v[n[1]], v[n[2]]) if np_ == 3 else \
                area2(v[n[0]], v[n[1]], v[n[2]]) + area2(v[n[0]], v[n[2]], v[n[3]])
            if not a > 0:
                bad.append('%s %d %s has non-positive area %.3e' % (kind, ci, n, a))
            for e in range(np_):
                a_, b_ = n[e], n[(e + 1) % np_]
                sides.setdefault((min(a_, b_), max(a_, b_)), []).append((kind, ci))
    ek = {}
    for e in m['cells'].get('edg', []):
        ek.setdefault((min(e[0], e[1]), max(e[0], e[1])), []).append(e)
    for key, lst in sides.items():
        nb = len(ek.get(key, []))
        if len(lst) > 2:
            bad.append('side %s shared by %d cells' % (key, len(lst)))
        elif len(lst) == 2 and nb:
            bad.append('interior side %s also has a boundary edge' % (key,))
        elif len(lst) == 1 and nb != 1:
            bad.append('non-conforming: side %s of %s %d has one cell and %d boundary edges (hanging node)' %
                       (key, lst[0][0], lst[0][1], nb))
    for key in ek:
        if key not in sides:
            bad.append('boundary edge %s is not a side of any cell' % (key,))
    deg = {}
    for key in ek:
        for x in key:
            deg[x] = deg.get(x, 0) + 1
    for x, c in deg.items():
        if c != 2:
            bad.append('boundary vertex %d on %d boundary edges' % (x, c))
            break
    if nv and not all(used):
        bad.append('%d vertices unused (first %d)' % (used.count(False), used.index(False)))
    return bad[:12]
