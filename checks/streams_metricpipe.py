"""streams for the PIPELINE of `ref multiscale` (C10): harness h_metricpipe vs driver `metricpipe`.

  metricpipe_stages   (diff)     stages / lp / buffer / bac / bacsteps: the four stages of ref_metric_lp called one by one
                                 in the coded order with the field printed after each AND the real ref_metric_lp on the
                                 same Hessian field (its ref_recon_hessian call is hooked to return the field of the op
                                 line); ref_metric_buffer, ref_metric_buffer_at_complexity and its relaxations one by one.
  metricpipe_argv     (validate) msrun: the subcommand's own `multiscale(ref_mpi, argc, argv)` called in process on
                                 generated argv vectors (every flag alone, all together, unusual order, values that are
                                 flags, missing values, repeated flags, malformed numbers); the dump carries the argv
                                 words, the Hessian the subcommand saw and the metric file it wrote; the driver re-derives
                                 the options with `multiscaleOptions` and the field with `multiscaleMetric`.
  cli_multiscale_opts (oracle)   the real `ref` binary end to end on option scenarios that cli_multiscale does not have
                                 (flag order, repeated flags, --pcd, --hessian, --buffer in 2-D and 3-D).

The oracles state the property on the implementation's own output, independently of the model: finite, positive
definite (exact rational minors), planar embedding on 2-D grids, |C(out) - target| <= 1e-10 target (in-process,
tensors of conditioning <= 1e4) resp. 1e-8 target (files), with the independent integrators of streams_metric /
checks/oracles.py.
"""
import math
import os
import re

from .common import Stream
from . import streams_metric as mt
from . import streams_gradation as sg
from . import cli, pyio, meshgen, oracles
from .streams_matrix import hx, unhx
from .streams_metric import Mesh, parse_mesh


# ----------------------------------------------------------------------------------------------
# in-process pipeline: stages, driver, buffer
# ----------------------------------------------------------------------------------------------
def split_stage_line(line, nn):
    """`stages ok <6nn> ok <6nn> ... [status]` -> list of (status, field|None)"""
    w = line.split()
    k = 1
    res = []
    while k < len(w):
        st = w[k]
        k += 1
        if st != 'ok':
            res.append((st, None))
            break
        f = [unhx(t) for t in w[k:k + 6 * nn]]
        k += 6 * nn
        res.append(('ok', [tuple(f[6 * i:6 * i + 6]) for i in range(nn)]))
    return res


def oracle_pipe(ops, impl):
    bad = []
    for i, (o, r) in enumerate(zip(ops, impl)):
        w = o.split()
        op = w[0]
        out = []
        try:
            if r.startswith('bad-op'):
                continue
            if op == 'lp':
                sg.o_gac(op, parse_mesh(w[5:]), unhx(w[4]), r, out, hessian_input=True)
            elif op == 'stages':
                mesh = parse_mesh(w[5:])
                st = split_stage_line(r, len(mesh.xyz))
                if len(st) == 4 and st[3][0] == 'ok':
                    sg.o_gac(op, mesh, unhx(w[4]), 'ok ' + ' '.join(hx(x) for m in st[3][1] for x in m), out,
                             hessian_input=True)
                    # the field after the limiter is finite and positive definite when the limit bounds the conditioning
                    # (after the floor alone a singular Hessian is definite only below the rounding of its entries)
                    ar = unhx(w[3])
                    if mesh.twod == (not mt.have_vol(mesh)) and mt.finite_field(mesh.xyz) and 1.0 <= ar <= 1e3:
                        if all(all(math.isfinite(x) and abs(x) < 1e150 for x in m) for m in st[2][1]):
                            mt.o_spd_field('stages[2]', mesh, st[2][1], out, need_embed=True)
            elif op == 'bac':
                sg.o_gac(op, parse_mesh(w[2:]), unhx(w[1]), r, out)
            elif op == 'bacsteps':
                mesh = parse_mesh(w[2:])
                st = split_stage_line(r, len(mesh.xyz))
                for k, (s, f) in enumerate(st):
                    if s == 'ok':
                        sg.o_gac('bacsteps[%d]' % k, mesh, unhx(w[1]), 'ok ' + ' '.join(hx(x) for m in f for x in m), out)
                        if out:
                            break
            elif op == 'buffer':
                mesh = parse_mesh(w[1:])
                if sg.well_posed(mesh) and r.startswith('ok'):
                    f = [unhx(t) for t in r.split()[1:]]
                    field = [tuple(f[6 * k:6 * k + 6]) for k in range(len(f) // 6)]
                    # the cap only lowers eigenvalues: positive definite, dominated by the input
                    if mt.o_spd_field(op, mesh, field, out, need_embed=False):
                        for n, (a, b) in enumerate(zip(mesh.metric, field)):
                            if not sg.dominates(a, b, tol=Fraction_tol()):
                                out.append('buffer: vertex %d: output %s is not dominated by its input %s' % (n, (b,), (a,)))
                                break
        except (ValueError, IndexError, AssertionError, KeyError, ZeroDivisionError):
            continue
        if op in ('lp', 'stages') and not (1.0 <= unhx(w[3]) <= 1e3):
            # without a bounding aspect-ratio limit (default -1: eigenvalue ratio 1e12) a singular Hessian gives
            # tensors that are definite only below the rounding amplified by the gradation intersections: the exact
            # positive-definiteness statement is made for limits 1..1e3 (see findings/metricpipe-default-ar-conditioning)
            out = [m for m in out if 'not positive definite' not in m]
        bad.extend((i, m) for m in out)
    return bad


def Fraction_tol():
    from fractions import Fraction
    return Fraction(1, 10 ** 6)


def place(rng, mesh):
    """ref_metric_buffer looks at |x| and x/xmax: move the grid so that the profile's three branches are met"""
    k = rng.random()
    xs = [p[0] for p in mesh.xyz]
    lo, hi = min(xs), max(xs)
    span = (hi - lo) or 1.0
    if k < 0.5:
        shift = -lo + span * rng.choice([0.0, 0.05, 0.3])     # 0 .. xmax: s covers (0, 1]
    elif k < 0.75:
        shift = -lo + span * rng.uniform(1.0, 8.0)              # s in (0.5, 1]
    elif k < 0.9:
        shift = -(lo + hi) / 2                                  # symmetric about the origin
    else:
        shift = -hi - span * rng.choice([0.0, 0.5])             # xmax <= 0
    mesh.xyz = [(p[0] + shift, p[1], p[2]) for p in mesh.xyz]
    return mesh


def gen_pipe(rng, tier):
    n = 100 if tier == 'quick' else 500
    ops = []
    for it in range(n):
        mesh, h = sg.grid(rng)
        field = sg.jump_field(rng, mesh, h)
        g = rng.choice([-1.0, 1.1, 1.5, 3.0, 1.5, 1.0])
        t = rng.choice([50.0, 500.0, 2000.0, 1e5, rng.uniform(50, 1e5)])
        if rng.random() < 0.04:
            t = rng.choice([0.0, -1.0, float('inf'), float('nan'), 1e300])
        p = rng.choice([1, 2, 4, 1, 2, 0, 3])
        # an aspect-ratio limit and a gradation that differ, so that swapped arguments are seen
        ar = rng.choice([-1.0, 10.0, 100.0, 2.0, 1e3, 1.0, 5.0])
        hess = [mt.hessian(rng, mesh.twod) if rng.random() < 0.5 else m for m in field]
        if rng.random() < 0.5:
            # strongly anisotropic Hessians: the limiter (stage 3) is active and does not commute with the Lp scale
            hess = [sg.iso_aniso(rng, mesh.twod, h * 10 ** rng.uniform(-1, 1), 10 ** rng.uniform(2, 5)) for _ in mesh.xyz]
        m2 = Mesh(mesh.twod, mesh.xyz, hess, [True] * len(mesh.xyz), mesh.cells)
        if it % 2 == 0:
            ops.append(mt.op_line('stages', [str(p), hx(g), hx(ar), hx(t)], m2))
        ops.append(mt.op_line('lp', [str(p), hx(g), hx(ar), hx(t)], m2))
        if it % 2 == 1:
            mb = place(rng, Mesh(mesh.twod, mesh.xyz, field, [True] * len(mesh.xyz), mesh.cells))
            if rng.random() < 0.3:
                # fine everywhere: the cap is active at most vertices
                mb.metric = [tuple(x * (1e4 if (mesh.twod and j in (0, 1, 3)) or not mesh.twod else 1.0)
                                   for j, x in enumerate(m)) for m in field]
            ops.append(mt.op_line('buffer', [], mb))
            ops.append(mt.op_line('bac', [hx(t)], mb))
            if it % 4 == 1:
                ops.append(mt.op_line('bacsteps', [hx(t)], mb))
    ops.append('lp 2000 %s %s %s 0 1' % (hx(1.5), hx(10.0), hx(100.0)))
    ops.append('stages 2 %s %s 0 1' % (hx(1.5), hx(10.0)))
    ops.append('bac zz 0 1')
    ops.append('buffer 0 0')
    return ops


def nontrivial_pipe(op, out):
    return out.startswith('ok ') or out.startswith('stages ok') or out.startswith('bacsteps ok') or \
        out in ('div_zero', 'failure', 'invalid')


STAGES = Stream('metricpipe_stages', 'h_metricpipe', 'metricpipe', gen_pipe, oracle=oracle_pipe, nontrivial=nontrivial_pipe,
                session='lp', whitebox=['ref_metric'])


# ----------------------------------------------------------------------------------------------
# the subcommand in process on argv vectors
# ----------------------------------------------------------------------------------------------
NUM = re.compile(r'^[ \t]*[-+]?(\d+\.?\d*|\.\d+)([eE][-+]?\d+)?')


def c_atof(s):
    m = NUM.match(s)
    return float(m.group(0)) if m else 0.0


def c_atoi(s):
    m = re.match(r'^[ \t]*[-+]?\d+', s)
    return int(m.group(0)) if m else 0


FLAGS_VALUED = ['--norm-power', '--gradation', '--aspect-ratio']


def scan(args):
    """an independent restatement of the option scan, for the oracle: dict or None (usage exit)"""
    argv = ['ref', 'multiscale'] + args
    if len(argv) < 6:
        return None
    o = {'complexity': c_atof(argv[4]), 'p': 2, 'gradation': -1.0, 'ar': -1.0}
    for flag, key, conv in (('--norm-power', 'p', c_atoi), ('--gradation', 'gradation', c_atof),
                            ('--aspect-ratio', 'ar', c_atof)):
        if flag in argv:
            pos = argv.index(flag)
            if pos >= len(argv) - 1:
                return None
            o[key] = conv(argv[pos + 1])
    for flag in ('--hessian', '--buffer'):
        o[flag] = flag in argv
    o['positional'] = argv[2:6]
    return o


def oracle_argv(ops, impl):
    bad = []
    for i, (o, r) in enumerate(zip(ops, impl)):
        rw = r.split()
        if not rw or rw[0] != 'msdump':
            continue
        try:
            st, na = rw[1], int(rw[2])
            args = rw[3:3 + na]
            nout = int(rw[3 + na])
            outw = rw[4 + na:4 + na + nout]
            mesh = parse_mesh(rw[4 + na + nout:])
            opt = scan(args)
            if opt is None or opt['positional'][0] != '@mesh' or opt['positional'][1] != '@scalar' or \
                    opt['positional'][3] != '@out':
                if st == 'ok':
                    bad.append((i, 'multiscale succeeded on an argument vector without its positional arguments: %s' % args))
                continue
            target = opt['complexity']
            if not (target > 1e-20):
                if st == 'ok':
                    bad.append((i, 'multiscale accepted complexity %r' % target))
                continue
            if st != 'ok':
                # sane options on a smooth field: the tool must deliver
                if 1 <= opt['p'] <= 8 and (opt['gradation'] == -1.0 or 1.0 <= opt['gradation'] <= 10) and \
                        (opt['ar'] == -1.0 or 1.0 <= opt['ar'] <= 1e6) and 1.0 <= target <= 1e6 and not opt['--hessian']:
                    bad.append((i, 'multiscale returned %s for %s' % (st, args)))
                continue
            out = []
            sg.o_gac('multiscale ' + ' '.join(args), mesh, target, 'ok ' + ' '.join(outw), out, hessian_input=True)
            bad.extend((i, m) for m in out)
        except (ValueError, IndexError, AssertionError, KeyError, ZeroDivisionError):
            continue
    return bad


def argv_variants(rng, c):
    """option vectors after `ref multiscale`; c = complexity word"""
    base = ['@mesh', '@scalar', c, '@out']
    v = []
    v.append(base)                                                         # defaults
    v.append(base + ['--norm-power', rng.choice(['1', '4', '3'])])         # every flag alone
    v.append(base + ['--gradation', rng.choice(['1.5', '3', '1.1', '10'])])
    v.append(base + ['--aspect-ratio', rng.choice(['2', '5', '10'])])
    v.append(base + ['--buffer'])
    v.append(base + ['--pcd', '@pcd'])
    v.append(base + ['--norm-power', '1', '--gradation', '1.5', '--aspect-ratio', '4', '--buffer', '--pcd', '@pcd'])  # all
    v.append(base + ['--buffer', '--aspect-ratio', '3', '--pcd', '@pcd', '--gradation', '2', '--norm-power', '4'])    # order
    v.append(base + ['--aspect-ratio', '1.5', '--gradation', '4'])         # values that differ: swapped plumbing is seen
    v.append(base + ['--gradation', '1.5', '--gradation', '5'])            # repeated: the first wins
    v.append(base + ['--norm-power', '4', '--aspect-ratio', '2', '--norm-power', '1', '--aspect-ratio', '50'])
    v.append(base + ['--gradation'])                                        # missing values: usage exit
    v.append(base + ['--buffer', '--norm-power'])
    v.append(base + ['--aspect-ratio'])
    v.append(base + ['--pcd'])                                              # lenient: ignored
    v.append(base + ['--gradation', '--buffer'])                            # the value is a flag: atof -> 0, and --buffer is set
    v.append(base + ['--aspect-ratio', '--norm-power', '1'])                # ar = atof("--norm-power") = 0; p = 1
    v.append(base + ['--norm-power', '2abc', '--gradation', '1.5x', '--aspect-ratio', '1e1'])
    v.append(base + ['--gradation', '+2.', '--aspect-ratio', '.5e1', '--norm-power', '+1'])
    v.append(base + ['--gradation', '1e', '--aspect-ratio', '3E0'])
    v.append(base + ['--norm-power', 'x', '--gradation', 'abc'])            # no conversion: 0
    v.append(base + ['--aspect-ratio', '-1', '--gradation', '-1', '--norm-power', '2'])  # the defaults, spelled out
    v.append(base + ['--gradation', '0.5'])                                 # < 1: mixed-space branch
    v.append(base + ['--aspect-ratio', '0.5'])                              # <= 0.9999: no limit
    v.append(['--buffer'] + base)                                           # positions shift: in_mesh = "--buffer"
    v.append(['@mesh', '--buffer', c, '@out'])                              # in_scalar = "--buffer": no such file
    v.append(['@mesh', '@scalar', c])                                       # argc < 6
    v.append(['@mesh', '@scalar', '--gradation', '@out', '2'])              # complexity = atof("--gradation") = 0
    v.append(base + ['--unknown', '7', 'stray'])                            # unrecognised words are ignored
    v.append(base + ['-norm-power', '1', '--Gradation', '3', '--aspect_ratio', '2'])     # near misses are not flags
    return v


def gen_argv(rng, tier):
    ops = []
    reps = 2 if tier == 'quick' else 8
    for rep in range(reps):
        meshes = []
        for _ in range(4):
            mesh = sg.simplex_grid(rng)
            mesh.metric = [(0.0,) * 6 for _ in mesh.xyz]
            meshes.append((mesh, sg.scalar_field(rng, mesh.xyz)))
        cwords = ['50', '500', '2000.0', '1e3', '2.5e2', '%.1f' % rng.uniform(50, 1e4), '0300', '1.e2']
        for k, args in enumerate(argv_variants(rng, rng.choice(cwords))):
            mesh, s = meshes[(k + rep) % len(meshes)]
            ops.append(' '.join(['msrun', str(len(args))] + args + [str(len(s))] + [hx(x) for x in s] + mesh.words()))
        # complexity words
        for c in ['0', '-5', 'abc', '1e-30', '1e-19', '  7e1'.strip(), '1e400' if False else '9e5']:
            mesh, s = meshes[rng.randrange(len(meshes))]
            args = ['@mesh', '@scalar', c, '@out']
            ops.append(' '.join(['msrun', str(len(args))] + args + [str(len(s))] + [hx(x) for x in s] + mesh.words()))
        # --hessian: the scalar file is a metric file (SPD "Hessians")
        for extra in ([], ['--norm-power', '1', '--gradation', '1.5'], ['--buffer'], ['--aspect-ratio', '2']):
            mesh, _ = meshes[rng.randrange(len(meshes))]
            h = 1.0 / max(2, len(mesh.xyz)) ** (0.5 if mesh.twod else 1.0 / 3.0)
            mh = Mesh(mesh.twod, mesh.xyz, sg.jump_field(rng, mesh, h), mesh.owned, mesh.cells)
            args = ['@mesh', '@scalar', rng.choice(['100', '1000']), '@out', '--hessian'] + extra
            rng.shuffle(extra)
            ops.append(' '.join(['msrun', str(len(args))] + args + ['0'] + mh.words()))
    ops.append('msrun 1 x')
    ops.append('msrun 4 @mesh @scalar 100 @out 0 0 1')
    return ops


def nontrivial_argv(op, out):
    return out.startswith('msdump ok') or out.startswith('msdump failure')


ARGV = Stream('metricpipe_argv', 'h_metricpipe', 'metricpipe', gen_argv, oracle=oracle_argv, kind='validate',
              nontrivial=nontrivial_argv, session='msrun', whitebox=['ref_metric'], timeout=600)


# ----------------------------------------------------------------------------------------------
# end to end: the real binary, option scenarios beyond cli_multiscale
# ----------------------------------------------------------------------------------------------
def sc_multiscale_opts(ctx, d, case):
    dim, v, cells, mesh = cli.make_mesh(d, case)
    f = cli.scalar_fn(d.get('field', 'poly:1,2,3,0.5,1'))
    vals = [[f(tuple(p) + (0.0,) * (3 - len(p)))] for p in v]
    sol = os.path.join(case, 'scalar.solb')
    pyio.write_solb(sol, dim, vals, [1])
    np = int(d.get('np', '0'))
    args = ['multiscale', mesh, sol, d.get('complexity', '500'), os.path.join(case, 'metric.solb')]
    # flags=<comma separated words>; `pcdfile` is replaced by a path in the case directory
    for wd in [x for x in d.get('flags', '').split(',') if x]:
        args.append(os.path.join(case, 'out.pcd') if wd == 'pcdfile' else wd)
    rc, tail = cli.run_ref(ctx, np, args, case)
    return 'rc=%d dir=%s' % (rc, case)


cli.SCENARIOS['multiscale_opts'] = sc_multiscale_opts


def oracle_multiscale_opts(ops, impl):
    bad = []
    for i, (op, line) in enumerate(zip(ops, impl)):
        d = cli.kv(op)
        o = cli.parse_out(line)
        flags = [x for x in d.get('flags', '').split(',') if x]
        usage = any(fl in flags and flags.index(fl) == len(flags) - 1 for fl in FLAGS_VALUED)
        if usage:
            if o.get('rc') == '0':
                bad.append((i, 'a flag without its value was accepted: %s' % flags))
            continue
        if o.get('rc') != '0':
            bad.append((i, 'multiscale exited with status %s for flags %s' % (o.get('rc'), flags)))
            continue
        if 'pcdfile' in flags and flags.index('pcdfile') > 0 and flags[flags.index('pcdfile') - 1] == '--pcd':
            if not os.path.exists(os.path.join(o['dir'], 'out.pcd')):
                bad.append((i, '--pcd did not write its file'))
    # the C10 statement itself: the oracle of cli_multiscale (finite, SPD, embedding, complexity to 1e-8)
    keep = [(k, op, line) for k, (op, line) in enumerate(zip(ops, impl))
            if cli.parse_out(line).get('rc') == '0']
    for (k, m) in cli.oracle_multiscale([op for _, op, _ in keep], [line for _, _, line in keep]):
        bad.append((keep[k][0], m))
    return bad


def gen_multiscale_opts(rng, tier, np=None):
    sets = [
        '--buffer',                                                       # 3-D and 2-D buffer
        '--buffer,--gradation,1.5,--norm-power,1',
        '--aspect-ratio,3,--gradation,2,--norm-power,4',                  # unusual order
        '--gradation,1.5,--gradation,10',                                 # repeated
        '--pcd,pcdfile',
        '--pcd,pcdfile,--buffer,--aspect-ratio,10',
        '--gradation,--buffer',                                           # value is a flag
        '--unknown,3',
        '--aspect-ratio,0.5',
        '--norm-power,4,--gradation',                                     # missing value: usage exit
    ]
    ops = []
    n = len(sets) if tier == 'quick' else 3 * len(sets)
    for k in range(n):
        dim = 2 if k % 2 == 0 else 3
        if k >= len(sets):
            dim = rng.choice([2, 3])
        nn = [rng.randint(3, 6) if dim == 2 else rng.randint(2, 3) for _ in range(dim)]
        field = rng.choice(['poly:%.2f,%.2f,%.2f,%.2f,%.2f' % tuple(rng.uniform(-3, 3) for _ in range(5)),
                            'tanh:%.2f,%.2f,%.2f' % (rng.uniform(3, 20), rng.uniform(-1, 1), rng.uniform(0.2, 0.8)),
                            'sin:%.2f,%.2f,%.2f' % (rng.uniform(1, 8), rng.uniform(1, 8), rng.uniform(0, 4))])
        ops.append('multiscale_opts dim=%d n=%s jitter=%.2f mseed=%d field=%s complexity=%s flags=%s' % (
            dim, ','.join(map(str, nn)), rng.choice([0, 0.3]), rng.randint(1, 10 ** 6), field,
            rng.choice(['50', '500', '2000', '%.1f' % rng.uniform(50, 1e4)]), sets[k % len(sets)]))
    return ops


CLI_OPTS = Stream('cli_multiscale_opts', cli.cli_harness, None, gen_multiscale_opts, oracle=oracle_multiscale_opts,
                  kind='oracle', nontrivial=lambda op, out: out.startswith('rc=0'), timeout=900)
