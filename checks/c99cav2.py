"""throw-away spec to test the cavity2 streams on their own (not registered anywhere)"""
from . import streams_cavity2

ID = 'C01'
PROPS_MODULE = ['Refine.Props.C01']
STREAMS = streams_cavity2.STREAMS
EXPLANATION = 'cavity2 tie streams only'
ASSUMPTIONS = ['test spec']
