"""scratch spec (not committed): only the sol streams of C09, for the mutation runs"""
from . import streams_sol
from .c09 import EXPLANATION, ASSUMPTIONS
ID = 'C09SDEV'
PROPS_MODULE = ['Refine.Props.C09Sol']
STREAMS = streams_sol.STREAMS
