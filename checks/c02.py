from . import streams_guards, cli, streams_mixed

ID = 'C02'
PROPS_MODULE = ['Refine.Props.C02', 'Refine.Props.C02Mixed']
STREAMS = [streams_guards.RULES, streams_guards.NORMALS, streams_guards.POLYLINE, streams_guards.SMOOTH,
           streams_guards.SPLITPASS, streams_guards.ADAPT_C02, streams_guards.ADAPT_2D_IDS,
           streams_mixed.FN, streams_mixed.SMOOTH, streams_mixed.RUN, streams_mixed.ADAPT_MIXED]

EXPLANATION = (
    'Proved (Lean 4) about the executable models of the decision functions that stand between the metric and the '
    'domain when refine adapts without a CAD model (Refine/Model/Guards.lean; the same definitions at Float are '
    'compared line by line with the real C functions on every run). '
    '(a) ref_collapse_edge_geometry: corner_preserved - three pairwise different patch ids around node1 (also when '
    'ref_cell_id_list_around hits REF_INCREASE_LIMIT) => refused for every node0; ridge_rule - two different ids and '
    'allowed => ref_cell_list_with2 returns exactly two triangles on the edge, with two different ids, and these are all '
    'the ids around node1 (the edge IS the ridge); patch_rule / patch_rule\' - one id => allowed iff the edge is a side of a '
    'boundary triangle; interior_free; cad_rule; collapseGeometry_rule collects them; allowed_collapse_ids_subset - an '
    'allowed collapse gives node0 no new patch id; ids_preserved_by_allowed_collapse / collapse_creates_no_id / split_ids - '
    'the set of patch ids under the collapse and split kernels (hypothesis: every id keeps a triangle that is not one of '
    'the removed ones); swap_same_faceid_rule - an allowed swap joins two triangles of the same patch and never crosses an '
    'edg cell. (b) mixed_frame_collapse / _cavity / _split / _swap: when the mixed-element guard of an operation holds no '
    'qua/pyr/pri/hex references the removed node (resp. either end, resp. has the edge as a table side), and node '
    'substitution / removal / edge split restricted to cells around those nodes leave the four non-simplex groups '
    'unchanged. (c) exact identities over the reals: interpolateEdge_on_segment (trial vertex = (1-t)a+tb with '
    't = MIN(0.95,MAX(0.05,w)) in [0.05,0.95]), interpolateEdge_in_plane / _keeps_z (planar meshes stay in their plane), '
    'split_volume (the two tets add up to the old volume, same sign for 0<t<1), split_tri_normal / split_tri_area / '
    'split_edg_length (patch area resp. 2-D boundary length conserved exactly by a split), swap_vector_area / swap_area. '
    '(d) sameNormal_bound (guard passed => every surviving boundary triangle has unit normals u, u\' with '
    'u.u\' >= 1-1e-8), sameNormal_no_flip, planar_collapse_stays_planar, fan_vector_area_apex / _open (vector area of a '
    'closed fan does not depend on the apex: the algebra of patch-area conservation under collapse). '
    'Tie: ref_collapse_edge_geometry (with and without REF_GEOM_NODE/EDGE records), _mixed, _same_normal, _same_tangent, '
    '_chord_height, ref_split_edge_mixed, ref_cavity_mixed, ref_swap_edge_mixed, ref_swap_same_faceid, ref_swap_node23, '
    'ref_swap_manifold, ref_swap_conforming (no-geometry branch), ref_smooth_node_same_normal, _same_tangent, '
    'ref_smooth_edge_neighbors, ref_node_interpolate_edge called in process on real REF_GRIDs built from the op line '
    '(random cell soups, boundary stars planar / creased 1e-5..1 rad / ridges / corners / with edg and non-simplex '
    'neighbours, 2-D polylines with chord heights around 0.1): statuses and decisions compared exactly. Validate streams: '
    'the REAL ref_smooth_no_geom_tri_improve / _edge_improve never move a vertex the modelled guard chain freezes; every '
    'ref_node_interpolate_edge call of the REAL ref_split_pass passes the clamp of the raw weight and returns the modelled '
    'vertex. End-to-end: ref adapt on generated 3-D/2-D meshes judged by the domain oracle (volume, per-id area, bounding '
    'boxes, id set, planarity). '
    'edg_separator_preserved / smoothEdge_separator_frozen / smoothTri_separator_frozen: a vertex where two different '
    'edg (boundary-edge) ids meet is refused by ref_collapse_edge_geometry for every node0 and is frozen by the '
    'no-geometry edge smoother (the two repairs 285dd96 / 36d5222 of the defect this check found: in 2-D all triangles '
    'share one id, so the point separating two boundary ids on a straight side was unprotected); stream '
    'cli_adapt_2d_ids keeps exercising exactly that scenario end to end.'
    ' Mixed-element meshes (work package `mixed`, Props/C02Mixed.lean on Model/Mixed.lean: a mesh with ALL cell groups, '
    'vertex validity and coordinates; guarded ref_split_edge / ref_collapse_edge / ref_swap_tri_edge / vertex move / '
    'cavity replacement as operators on it): splitEdgeMixed_sound / swapEdgeMixed_sound / collapseEdgeMixed_sound / '
    'nodeTouchesMixed_sound / smoothTetFrozen_sound / cavityFormGate_sound / cavityFaceGate_sound give the exact '
    'criterion of each guard (split/swap: blocked iff a qua/pyr/pri/hex has the edge in its generated e2n table -- '
    'splitEdgeMixed_misses_quad_diagonal: weaker than "lies on the cell"); mixed_frame: over ANY history of guarded '
    'operations the qua/pyr/pri/hex groups and the validity and coordinates of all their vertices are unchanged '
    '(mixed_frame_gated: unconditionally when the grid has a pyramid or prism; otherwise under the stated CavitySafe side '
    'condition of an ungated cavity replacement); mixed_interface_conforming_split / _swap / mixed_interface_history: every '
    'triangular face of a pyramid / prism that had a tet face or boundary tri on it still has one after the guarded '
    'operation and after any history of guarded splits, 2-D swaps and vertex moves (_collapse_partial: given the simplicial '
    'neighbour across the removed cell); mixed_interface_exact_split: the guarded split keeps the NUMBER of tets and of '
    'boundary tris on each such face, i.e. the truth value of the C01 statement there (faceConforming, the predicate the '
    'driver evaluates on every accepted operation of a real run); mixed_interface_conforming_split_2d: no hanging node on '
    'a quadrilateral side of a planar grid. Tied by streams mixed_fn (diff: local '
    'configurations with 0..3 neighbours of each kind in every table position, incl. pyramids-without-prisms, '
    'prisms-without-pyramids, hexes only), mixed_smooth (validate: ref_smooth_tet_improve and both interior loops of '
    'ref_smooth_pass), mixed_run (validate: hooked real passes on hex+pyramid+tet, prism-layer+tet, all-kinds, hex-island and planar tri+quad grids; '
    'frozen cells compared with the initial ones at EVERY hook event) and the end-to-end oracle cli_adapt_mixed.')

ASSUMPTIONS = [
    'mixed-element part: the cavity machine itself is not re-modelled on grids with non-simplex cells (only its gates and the '
    'cell / vertex bookkeeping of ref_cavity_replace); exactly-one-neighbour on a frozen triangular face is proved for the split '
    'only (swap: existence; collapse: existence under the stated neighbour hypothesis; cavity: not at all) and otherwise checked '
    'by the run-level and end-to-end oracles; the 2-D swap next to quadrilaterals is tied (function and run level) but has no '
    'interface theorem; ref_swap_pass (3-D two-face tet removal) is not used by ref adapt and is not covered',
    'IEEE rounding in the numeric guards is modelled (Float instance, compared bit for bit through the decisions), not '
    'verified: theorems (c), (d) hold in exact real arithmetic',
    'the mesh is the list model the guards read: each cell group is the list of its cells in insertion order, '
    'each_ref_cell_having_node visits them newest first once per occurrence of the node (true for a grid built by '
    'successive ref_cell_add, which is what the harness builds; after removals the C visits in free-list order, which '
    'changes the order but not the set: the theorems depend on the order only through REF_INCREASE_LIMIT cut-offs)',
    'no CAD: ref_geom_tri_supported is false for every triangle (the geometry-supported branches of '
    'ref_collapse_edge_same_normal, ref_swap_conforming, normdev guards, ref_geom_constrain are not modelled); '
    'REF_GEOM_NODE/EDGE records enter ref_collapse_edge_geometry as two booleans (tied)',
    'the KERNELS (ref_collapse_edge, ref_split_edge, ref_swap_*, ref_cavity_replace) and ref_collapse_edge_manifold, '
    '_local_cell, _ratio, quality guards belong to other packages (meshops, cavity): collapseGroup / splitGroup here are '
    'only the vocabulary of the frame and id lemmas',
    'conformity of a collapse, curved-patch distance bounds (faceted curved boundaries are bounded only through the '
    '1-1e-8 same-normal guard: sameNormal_bound), and the conservation of a planar patch area under collapse for a '
    'general star are NOT proved: the fan lemma gives the algebra for a closed fan, that the star of an interior patch '
    'vertex is one closed fan is a manifoldness fact established by other guards; covered by the end-to-end oracle',
    'the boundary smoothers are tied one-directionally (validate): frozen by the model => not moved by the C; what they do '
    'to a free vertex (ideal point, quality acceptance) is not modelled',
    'the raw split weight in stream guards_splitpass is recomputed in the harness with the statements of ref_split_pass '
    'from the same public ratio functions; the clamp and the interpolation are what is tied',
    'MIN(0.95,MAX(0.05,w)) passes a NaN weight through (C macro semantics, reproduced by the model): the clamp theorem '
    'is about real weights',
]

TRUSTED = ['harness/h_guards.c, checks/streams_guards.py (generators, float-tolerance oracles)']
