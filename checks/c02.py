from . import streams_guards, cli

ID = 'C02'
PROPS_MODULE = ['Refine.Props.C02']
STREAMS = [streams_guards.RULES, streams_guards.NORMALS, streams_guards.POLYLINE, cli.ADAPT]
EXPLANATION = 'first slice'
ASSUMPTIONS = ['first slice']
