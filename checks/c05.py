"""C05 — every vertex carries the log-Euclidean interpolation of the input metric."""
from . import streams_metric, cli

ID = 'C05'
PROPS_MODULE = ['Refine.Props.C05']
STREAMS = [streams_metric.INTERP_KERNEL, streams_metric.INTERP_GRID, cli.ADAPT_METRIC]

EXPLANATION = (
    'Proved in Lean over the reals, about the executable model (Refine/Model/Metric.lean: interpolateNode = '
    'ref_node_clip_bary4, the `log_m[im] += bary[ibary]*log_parent_m[ibary][im]` loop over the donors\' STORED logs, '
    'ref_node_metric_set_log; nodeMetricSet / nodeMetricSetLog = the stored pair (m, log m) of ref_node; '
    'interpolateEdgeMetric = the metric half of ref_node_interpolate_edge): '
    '(d) uniform reproduction: equal donor logs and weights summing to one combine to the same log '
    '(logCombine_uniform, logCombine_uniform3), so the interpolant of a uniform SPD field is that metric, also through the '
    'clipping code path with arbitrary stored barycentric weights (logEuclid_uniform, interpolateNode_uniform); '
    '(e) log-linear exactness: if the donors\' logs are an affine function of position and the weights are the '
    'barycentric coordinates of the point, the combined log is the affine function at the point, all six components '
    '(logCombine_loglinear, logCombine_loglinear3), so the stored pair is (exp_m(L(p)), L(p)) (logEuclid_loglinear); '
    '(f) spectrum: the quadratic form of the combined log is the convex combination of the donors\' forms and lies '
    'between their min and max (interp_quadratic_form_range); Loewner bounds lo*I <= log_i <= hi*I carry over to the '
    'combination (logCombine_between, logCombine_between3), through exp_m by monotonicity on the spectrum '
    '(expM_between) and from the donors\' metrics through log_m (logM_between): every eigenvalue of the interpolated '
    'metric lies between the smallest and largest eigenvalue of the donors, l_lo |x|^2 <= x^T M x <= l_hi |x|^2 '
    '(interp_spectrum), in particular it is positive definite (between_pos_spd); '
    'code path facts: a successful interpolation always uses weights w >= 0 with sum 1 — never an extrapolation — and '
    'stores m = exp_m(log) (interpolateNode_convex); edge-split insertion is the same kernel with weights (1-t, t) '
    '(interpolateEdge_is_interp); the two setters of ref_node keep the pair consistent (nodeMetricSet_pair, '
    'nodeMetricSetLog_pair, nodeMetricSet_consistent). '
    'Tied, not proved: bit comparison with the C of ref_node_metric_set/_set_log/_get/_get_log, the interpolation '
    'statements of ref_metric_interpolate_node and ref_node_interpolate_edge (stream metric_interp_kernel); the REAL '
    'ref_metric_interpolate_node (moved vertex) and ref_metric_interpolate_between (inserted vertex) run in process on '
    'tet and triangle bricks whose background is cached exactly as `ref adapt` does (ref_node_metric_set per vertex, '
    'ref_grid_cache_background): the donor cell and weights found by the search, the donors\' stored logs and the '
    'receptor\'s stored pair are dumped and recomputed bit for bit by the model (metric_interp_grid, validate). '
    'Oracles (independent 50-digit Jacobi exp/log, exact rational combination): stored log = sum w_i log_i, stored metric = '
    'exp of it, uniform fields reproduced, log-linear fields reproduced at the vertex position to 1e-9, eigenvalues '
    'inside the donors\' range. End to end: `ref adapt` (cli_adapt_metric: uniform reproduction and spectrum bounds at '
    'every output vertex after splits, collapses, swaps and smoothing).')

ASSUMPTIONS = [
    'theorems hold in exact real arithmetic about the model; IEEE rounding is modelled (Float instance, bit-compared), '
    'not verified ("reproduced to round-off" is oracled with 1e-9..1e-13 tolerances, not proved)',
    'wherever exp_m / log_m enter a theorem the inner eigen decompositions are assumed exact (IsEigSys: orthonormal and '
    'formM d = m), as in C16: the QL similarity invariant is not proved; the linear-algebra statements (logCombine_*, '
    'interp_quadratic_form_range, logCombine_between) need no such hypothesis',
    'log-linear exactness needs the weights to be the barycentric coordinates of the vertex in its donor cell, i.e. the '
    'vertex inside the cell (outside, the clipped weights reproduce the field at the clipped point: C11)',
    '2-D backgrounds sum three donors with weights clipped over four slots: the theorems for three donors assume '
    'w0+w1+w2 = 1 (the stored fourth weight is 0 for triangles; observed, not proved)',
    'the donor search (ref_interp_locate_node / _between: walk, tree fallback), ref_interp_pack, ref_interp_from_part and '
    'the migration alignment of (cell, bary, part) are NOT modelled: tied in process for the serial search '
    '(metric_interp_grid) and end to end only (cli_adapt_metric; parallel runs are covered by the C04 streams)',
    'ref_metric_interpolate (the blind-send field transfer) shares the combination loop but is not driven separately',
    'Python oracle arithmetic (fractions, 50-digit decimal Jacobi) is trusted',
]
