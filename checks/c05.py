"""C05 — every vertex carries the log-Euclidean interpolation of the input metric."""
from . import streams_metric, cli

ID = 'C05'
PROPS_MODULE = ['Refine.Props.C05']
STREAMS = [streams_metric.INTERP_KERNEL, streams_metric.INTERP_GRID, cli.ADAPT_METRIC]

EXPLANATION = 'placeholder'
ASSUMPTIONS = ['placeholder']
