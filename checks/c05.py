"""C05 — every vertex carries the log-Euclidean interpolation of the input metric."""
import os
import random

from . import streams_metric, streams_smoothinterp, streams_interppack, cli, meshgen, pyio
from .common import Stream

ID = 'C05'
PROPS_MODULE = ['Refine.Props.C05', 'Refine.Props.C05Smooth', 'Refine.Props.C05Pack']


# ---- regression for the defect repaired in /repo e210980 (known_findings: ref_metric_interpolate:tri-face-id-as-fourth-vertex):
# the parallel whole-field transfer ref_metric_interpolate (adapt -> ref_metric_synchronize on np > 1) read the face id of a
# 2-D donor triangle as a fourth vertex.  Scenario: 2-D mesh whose triangle ids are far beyond the vertex count, refmpi adapt.
def sc_adapt_bigid(ctx, d, case):
    rng = random.Random(int(d.get('mseed', '1')))
    n = [int(x) for x in d.get('n', '6,6').split(',')]
    v, t, e = meshgen.square_tris(n[0], n[1], rng, float(d.get('jitter', '0')))
    fid = int(d.get('triid', '1000000'))
    t = [tuple(list(c[:3]) + [fid]) for c in t]
    mesh = os.path.join(case, 'in.meshb')
    pyio.write_meshb(mesh, 2, v, {'tri': t, 'edg': e})
    met = cli.write_metric(case, 2, v, d.get('metric', 'uniform:0.08'))
    np = int(d.get('np', '2'))
    args = ['adapt', mesh, '--metric', met, '-x', os.path.join(case, 'out.meshb'), '-s', d.get('passes', '2'),
            '--export-metric-as', os.path.join(case, 'out-metric.solb')]
    rc, tail = cli.run_ref(ctx, np, args, case)
    return 'rc=%d dir=%s' % (rc, case)


cli.SCENARIOS['adapt_bigid'] = sc_adapt_bigid


def gen_adapt_bigid(rng, tier, np):
    ops = []
    for k in range(2 if tier == 'quick' else 6):
        metric = ['uniform:%.3f' % rng.uniform(0.06, 0.15),
                  rng.choice(['linh:%.3f,%.3f,%d' % (rng.uniform(0.05, 0.1), rng.uniform(0.15, 0.3), rng.randint(0, 1)),
                              'rot:%.3f,%.3f,1,%.3f' % (rng.uniform(0.04, 0.1), rng.uniform(0.15, 0.3), rng.uniform(0, 3.1)),
                              'aniso:%.3f,%.3f,1' % (rng.uniform(0.05, 0.15), rng.uniform(0.1, 0.3))])][k % 2]
        ops.append('adapt_bigid dim=2 n=%d,%d jitter=%s mseed=%d triid=%d metric=%s passes=2 np=%d' % (
            rng.randint(4, 7), rng.randint(4, 7), rng.choice(['0', '0.3']), rng.randint(1, 10 ** 6),
            rng.choice([1000000, 1000000, 50000, 2000000000]), metric, np))
    return ops


def oracle_adapt_bigid(ops, impl):
    bad = []
    for i, (op, line) in enumerate(zip(ops, impl)):
        rc = cli.parse_out(line).get('rc')
        if rc != '0':
            bad.append((i, 'refmpi adapt on a 2-D mesh with large triangle ids exited with status %s '
                           '(ref_metric_interpolate must not read the face id as a donor vertex)' % rc))
    return bad + list(cli.oracle_adapt_metric(ops, impl))


ADAPT_BIGID_MPI = Stream('cli_adapt_metric_2d_bigid_mpi', cli.cli_harness, None, gen_adapt_bigid, oracle=oracle_adapt_bigid,
                         kind='oracle', np=[2, 3], nontrivial=lambda op, out: out.startswith('rc=0'), timeout=900)

# ---- log-linear exactness end to end (serial and on truly partitioned grids): the field log M(x) = log M0 + 2 (g.x) I is
# affine in x, so every output vertex - inserted, smoothed, migrated - must carry exp(L(x_v)) to round-off.
def gen_adapt_loglin(rng, tier, np=0):
    ops = []
    for k in range(2 if tier == 'quick' else 5):
        th = rng.uniform(0, 3.1)
        g = [rng.uniform(-0.8, 0.8) for _ in range(3)]
        if k % 2 == 0 or tier == 'quick':
            # 2-D, enough vertices that ref_migrate_to_balance keeps several partitions active when np > 1
            n = rng.choice([50, 60, 70]) if np else rng.choice([12, 20, 30])
            hx, hy = rng.uniform(0.03, 0.06), rng.uniform(0.015, 0.03)
            ops.append('adapt dim=2 n=%d,%d jitter=%s mseed=%d metric=loglin:%.4f,%.4f,1,%.4f,%.4f,%.4f,0 passes=%d np=%d' % (
                n, n, rng.choice(['0', '0.2']), rng.randint(1, 10 ** 6), hx, hy, th, g[0], g[1], rng.choice([2, 3, 4]), np))
        else:
            n = rng.choice([14, 16]) if np else rng.choice([4, 6])
            h = [rng.uniform(0.08, 0.14), rng.uniform(0.05, 0.1), rng.uniform(0.08, 0.14)]
            ops.append('adapt dim=3 n=%d,%d,%d jitter=%s mseed=%d metric=loglin:%.4f,%.4f,%.4f,%.4f,%.4f,%.4f,%.4f passes=%d np=%d' % (
                n, n, n, rng.choice(['0', '0.2']), rng.randint(1, 10 ** 6), h[0], h[1], h[2], th, g[0], g[1], g[2],
                rng.choice([2, 3]), np))
    return ops


def oracle_adapt_loglin(ops, impl):
    bad = []
    for i, (op, line) in enumerate(zip(ops, impl)):
        rc = cli.parse_out(line).get('rc')
        if rc != '0':
            bad.append((i, 'adapt with a log-linear metric exited with status %s' % rc))
    return bad + list(cli.oracle_adapt_metric(ops, impl))


ADAPT_LOGLIN = Stream('cli_adapt_loglin', cli.cli_harness, None, gen_adapt_loglin, oracle=oracle_adapt_loglin,
                      kind='oracle', nontrivial=lambda op, out: out.startswith('rc=0'), timeout=1800)
ADAPT_LOGLIN_MPI = Stream('cli_adapt_loglin_mpi', cli.cli_harness, None, gen_adapt_loglin, oracle=oracle_adapt_loglin,
                          kind='oracle', np=[2, 4], nontrivial=lambda op, out: out.startswith('rc=0'), timeout=1800)

STREAMS = [streams_metric.INTERP_KERNEL, streams_metric.INTERP_GRID, cli.ADAPT_METRIC, ADAPT_BIGID_MPI, ADAPT_LOGLIN, ADAPT_LOGLIN_MPI] + \
          list(streams_smoothinterp.STREAMS) + list(streams_interppack.STREAMS)

EXPLANATION = (
    'Proved in Lean over the reals, about the executable model (Refine/Model/Metric.lean: interpolateNode = '
    'ref_node_clip_bary4, the `log_m[im] += bary[ibary]*log_parent_m[ibary][im]` loop over the donors\' STORED logs, '
    'ref_node_metric_set_log; nodeMetricSet / nodeMetricSetLog = the stored pair (m, log m) of ref_node; '
    'interpolateEdgeMetric = the metric half of ref_node_interpolate_edge): '
    '(d) uniform reproduction: equal donor logs and weights summing to one combine to the same log '
    '(logCombine_uniform, logCombine_uniform3), so the interpolant of a uniform SPD field is that metric, also through the '
    'clipping code path with arbitrary stored barycentric weights (logEuclid_uniform, interpolateNode_uniform); '
    '(e) log-linear exactness: if the donors\' logs are an affine function of position and the weights are the '
    'barycentric coordinates of the point, the combined log is the affine function at the point, all six components '
    '(logCombine_loglinear, logCombine_loglinear3), so the stored pair is (exp_m(L(p)), L(p)) (logEuclid_loglinear); '
    '(f) spectrum: the quadratic form of the combined log is the convex combination of the donors\' forms and lies '
    'between their min and max (interp_quadratic_form_range); Loewner bounds lo*I <= log_i <= hi*I carry over to the '
    'combination (logCombine_between, logCombine_between3), through exp_m by monotonicity on the spectrum '
    '(expM_between) and from the donors\' metrics through log_m (logM_between): every eigenvalue of the interpolated '
    'metric lies between the smallest and largest eigenvalue of the donors, l_lo |x|^2 <= x^T M x <= l_hi |x|^2 '
    '(interp_spectrum), in particular it is positive definite (between_pos_spd); '
    'code path facts: a successful interpolation always uses weights w >= 0 with sum 1 — never an extrapolation — and '
    'stores m = exp_m(log) (interpolateNode_convex); edge-split insertion is the same kernel with weights (1-t, t) '
    '(interpolateEdge_is_interp); the donor-side loop of the parallel whole-field transfer ref_metric_interpolate (four '
    'zero-initialised rows, always four weights) computes exactly the per-vertex interpolant for tet and triangle '
    'backgrounds (interpolateDonor_eq_node: serial and parallel paths agree); the two setters of ref_node keep the pair consistent (nodeMetricSet_pair, '
    'nodeMetricSetLog_pair, nodeMetricSet_consistent). '
    'Tied, not proved: bit comparison with the C of ref_node_metric_set/_set_log/_get/_get_log, the interpolation '
    'statements of ref_metric_interpolate_node and ref_node_interpolate_edge (stream metric_interp_kernel); the REAL '
    'ref_metric_interpolate_node (moved vertex) and ref_metric_interpolate_between (inserted vertex) run in process on '
    'tet and triangle bricks whose background is cached exactly as `ref adapt` does (ref_node_metric_set per vertex, '
    'ref_grid_cache_background): the donor cell and weights found by the search, the donors\' stored logs and the '
    'receptor\'s stored pair are dumped and recomputed bit for bit by the model; the real whole-field transfer '
    'ref_metric_interpolate is run the same way on one rank (metric_interp_grid, validate). '
    'Oracles (independent 50-digit Jacobi exp/log, exact rational combination): stored log = sum w_i log_i, stored metric = '
    'exp of it, uniform fields reproduced, log-linear fields reproduced at the vertex position to 1e-9, eigenvalues '
    'inside the donors\' range. End to end: `ref adapt` (cli_adapt_metric: uniform reproduction and spectrum bounds at '
    'every output vertex after splits, collapses, swaps and smoothing) and `refmpi adapt` on 2 and 3 ranks on 2-D meshes '
    'whose triangle ids exceed the vertex count (cli_adapt_metric_2d_bigid_mpi: regression for the defect found by this '
    'package and repaired in /repo e210980 — ref_metric_interpolate read the face id of a 2-D donor triangle as a fourth '
    'donor vertex: out-of-bounds read, SIGSEGV for id 1000000). '
    'Work package smoothinterp (Refine.Props.C05Smooth, model Refine/Model/SmoothInterp.lean): the BOOKKEEPING that connects the '
    'kernel to the moving vertex - ref_interp_locate_node (skip on cell = REF_EMPTY, forget on off-part donor as repaired in '
    '2d4e510, walk, serial sequential fall-back, REF_NOT_FOUND), ref_interp_locate_between (two walks, fall-back recording '
    'part = rank as repaired in 7d5a551), ref_metric_interpolate_node / _between (RAISE, the "location unsuccessful" gate) and '
    'the back-off loops of ref_smooth_no_geom_edge_improve / _tri_improve / ref_smooth_tet_improve (save guess; per try: '
    'set xyz, interpolate, RXS, guards, restore the guess only after REF_NOT_FOUND; final roll-back re-interpolating under RXS) - '
    'with the search outcome (walk / tree) and the acceptance tests as parameters. Proved for ALL outcomes per try, all '
    'acceptance tests, all numbers of tries: a vertex that enters located on this rank leaves an accepted try j at trial_j '
    'with cell/bary a donor of THAT position and metric = interp(cell, bary), and leaves a full rejection with the original '
    'coordinates and a fresh record unless the last re-location itself reports REF_NOT_FOUND from a located guess '
    '(improve_metricAtPosition_partial: the exact condition of the C as coded); with a serial, complete fall-back that case '
    'is impossible (improve_metricAtPosition); unconditionally, a vertex that is located after the call has a fresh record '
    '(improve_located_implies_fresh); the hazard is characterised exactly: an accepted position carries a fresh metric iff '
    'the vertex ENTERED located on this rank (accepted_fresh_iff_entry_local) - entered with cell = REF_EMPTY or an off-part '
    'donor it moves and keeps the old metric, still unlocated (improve_unlocated_keeps_metric, improve_offpart_keeps_metric: '
    'the class of 2d4e510, 7d5a551 and of the seeded late restore of the guess); split insertion yields a fresh record on '
    'the walk path and on the fall-back path (between_located_fresh, between_fresh - the latter needs part = rank, i.e. '
    '7d5a551); history lift by induction over any list of improver calls on any vertices and insertions '
    '(history_located_implies_fresh, history_fresh, history_carries_field); for a log-linear tetrahedral background and '
    'barycentric donors a fresh vertex stores exactly L(x_v) and exp_m(L(x_v)) (fresh_loglinear, via logCombine_loglinear). '
    'Tie: harness h_smoothinterp.c (white-box ref_smooth.c / ref_split.c / ref_interp.c with recording wrappers around '
    'ref_metric_interpolate_node / _between, ref_agents_push / _remove, ref_search_touching; hooks smooth_* begin/end) runs the '
    'improvers directly and through ref_smooth_pass / ref_adapt_pass / ref_split_pass / ref_collapse_pass on thin strips whose '
    'trial positions leave the background (REF_NOT_FOUND tries), strips longer than the 215-step walk limit (fall-back in '
    'ref_interp_locate_between), L / slit / U / comb domains, squares, tet boxes, with tampered donor records (cell = EMPTY, '
    'donor part 1, pretended ref_mpi_para) and without / with a non-continuous background; refdrv smoothinterp replays the '
    'model on every record - every intermediate and the final (xyz, cell, part, bary, m, log m) bit for bit, the metric '
    'recomputed by the kernel of Model/Metric.lean from the dumped background (streams smooth_interp_fn, smooth_interp_run); '
    'the oracle states metric(v) = exp(L(x_v)) (1e-7) on every record and dump; cli_adapt_strip[_mpi]: `ref adapt` / `refmpi '
    'adapt` on such strips, every output vertex. '
    'Work package interppack (Refine.Props.C05Pack, model Refine/Model/InterpPack.lean): the per-slot arrays of REF_INTERP '
    '(agent_hired, cell, part, FLAT bary with stride 4) across a renumbering of the vertex slots - ref_interp_pack as coded '
    '(n read from the receptor ref_node, scratch copies so no monotonicity is needed, new[node] = copy[n2o[node]] for node < n, '
    'cell = part = REF_EMPTY from n on, bary beyond 4n untouched, REIS on agents / hired agents), ref_interp_resize, '
    'ref_interp_reset, ref_interp_remove, and the move ref_node_pack applies to every per-slot array (packSlots). Proved: '
    'PackMap (o2n maps the valid slots onto [0,n), n2o is its inverse) holds for the pair of maps ref_node_stable_compact '
    'computes (stableCompact_packMap, from the NodeIds model of C14: numberSlots / selectSlots); for EVERY pair of maps with '
    'PackMap, after ref_interp_pack the record (cell, part, bary[4]) of new slot o2n[i] is the record of old slot i for every '
    'valid i, slots >= n are reset, max unchanged (interpPack_aligned); every per-slot array of ref_node moves the same way '
    '(packSlots_aligned), so the whole vertex state (xyz, cell, part, bary, metric) of new slot o2n[i] is that of old slot i '
    '(pack_grid_aligned) and the C05 invariants Fresh / MetricAtPosition of C05Smooth are preserved vertex by vertex '
    '(pack_preserves_fresh) and as the grid invariant GridWeak on every slot (pack_preserves_gridWeak); a successful '
    'ref_interp_pack implies n <= max and every n2o[node] < max (interpPack_guard: the `if (n > max) ref_interp_resize(.., max)` '
    'of the C text resizes to the size the arrays already have - latent, every caller resets to ref_node_max first). '
    'Tie: harness h_interppack.c builds a tet brick, caches the background exactly as `ref adapt` does '
    '(ref_grid_cache_background), writes recognisable records, deletes vertices (holes at the start / end / middle / random, '
    'everything dead, nothing dead, n = max = 20), recycles slots with ref_node_add (LIFO free list), marks ghosts (owned-first '
    'NON-monotone renumbering of ref_node_compact), resizes the interp arrays below / above the vertex count, hires agents, '
    'then runs the real ref_node_stable_compact | ref_node_compact + ref_node_pack + ref_cell_pack + ref_geom_pack + '
    'ref_interp_pack and dumps (global, xyz, cell, part, bary) of every valid slot before and after; refdrv interppack replays '
    'NodeIds.add / remove / stableCompact / compact / pack + interpRemove / interpResize / interpPack / packSlots and prints the '
    'same line (stream interppack_pack, diff); interppack_gridpack runs the real ref_grid_pack (ref_edge_rcm) and '
    'ref_grid_stable_pack on the same inputs (oracle only). Oracle on both: the record found at a vertex POSITION (and, where '
    'globals are not renumbered, at a global id) is the same before and after the pack, no slot >= n keeps a record. '
    'ref_interp_from_part (NOT modelled in Lean) is run for real on 1, 2 and 3 ranks by harness h_interpfrompart.c (stream '
    'interp_from_part_mpi, oracle only): tet brick distributed with ref_migrate_shufflin after a generated part array, '
    'background cached (ref_grid_cache_background), then up to three rounds of ref_interp_from_part with generated part arrays '
    '(random, everything to one rank, slabs, unchanged, rotated, a few strays) handed over as ref_migrate_to_balance does; after '
    'every round every vertex is owned once and has a record, the rank the record points to stores a valid donor cell whose '
    'GLOBAL vertex ids and weights are the ones the vertex had before, and the weights reproduce the vertex position from the '
    'donor positions to 1e-12 (so a log-linear field re-interpolated there is exp(L(x_v)) by fresh_loglinear).')

ASSUMPTIONS = [
    'theorems hold in exact real arithmetic about the model; IEEE rounding is modelled (Float instance, bit-compared), '
    'not verified ("reproduced to round-off" is oracled with 1e-9..1e-13 tolerances, not proved)',
    'wherever exp_m / log_m enter a theorem the inner eigen decompositions are assumed exact (IsEigSys: orthonormal and '
    'formM d = m), as in C16: the QL similarity invariant is not proved; the linear-algebra statements (logCombine_*, '
    'interp_quadratic_form_range, logCombine_between) need no such hypothesis',
    'log-linear exactness needs the weights to be the barycentric coordinates of the vertex in its donor cell, i.e. the '
    'vertex inside the cell (outside, the clipped weights reproduce the field at the clipped point: C11)',
    '2-D backgrounds sum three donors with weights clipped over four slots: the theorems for three donors assume '
    'w0+w1+w2 = 1 (the stored fourth weight is 0 for triangles; observed, not proved)',
    'ref_interp_from_part (the re-association of every vertex with its donor record by global id after ref_migrate_to_balance: '
    'four blindsend stages, the neighbour fill of from_part, the re-identification of donor cells by their global vertex ids '
    'after the donor grid itself was re-partitioned) and the migration alignment of (cell, bary, part) are NOT modelled in Lean '
    '(no theorem): oracled in process on 1-3 ranks (interp_from_part_mpi) and end to end (cli_adapt_loglin_mpi, '
    'cli_adapt_strip_mpi; parallel runs are also covered by the C04 streams)',
    'interppack: the maps of ref_node_compact (owned first) and ref_edge_rcm (the one ref_grid_pack uses) enter '
    'interpPack_aligned through the hypothesis PackMap - proved only for ref_node_stable_compact; compact is tied bit for bit '
    '(interppack_pack), rcm is oracled on the real ref_grid_pack (interppack_gridpack; ref_edge_rcm requires every valid vertex '
    'to have an edge - it writes o2n[-1] otherwise - the harness hangs a triangle on vertices without cells); '
    'the uninitialised bary entries ref_interp_resize creates are a parameter (`junk`) no theorem depends on; the case where '
    'ref_interp_pack would index outside its arrays (n > max or a valid slot >= max) is refused by harness and model alike (`oob`)',
    'ref_metric_interpolate (the blind-send whole-field transfer of refmpi) is modelled for its donor-side combination '
    '(interpolateDonor; proved equal to the per-vertex path: interpolateDonor_eq_node) and tied by running the real routine '
    'on one rank (interp_field ops); the blind-send exchange itself is C17 and covered here end to end only',
    'Python oracle arithmetic (fractions, 50-digit decimal Jacobi) is trusted',
    'smoothinterp: the background search enters the bookkeeping theorems only through its outcome (Sound: what a walk / '
    'the sequential search returns is a donor of the position asked for, an enclosing agent keeps the part it started on; '
    'Total: serial run whose sequential fall-back finds every position that has a donor) - the walk and the tree themselves '
    'are C11; the acceptance tests are arbitrary functions (their content is C01/C02/C03/C15)',
    'smoothinterp: the strong invariant (every vertex fresh) is proved for serial runs; on several ranks an accepted or '
    'rolled-back vertex may be left unlocated with a stale metric until the next ref_metric_synchronize '
    '(ref_interp_locate_warm + ref_metric_interpolate, not modelled here): covered end to end by cli_adapt_loglin_mpi and '
    'cli_adapt_strip_mpi; the ref_mpi_para branches of the model are tied in process only by pretending n = 2 on one rank',
    'smoothinterp: a vertex located by the fall-back OUTSIDE its donor cell (position outside the background) gets clipped '
    'weights: the record is "fresh" in the sense of the theorems, but metric = L(x) is not claimed there (the oracle skips '
    'vertices whose stored weights are not inside)',
    'smoothinterp: ref_interp_from_part, the meshlink / EGADS siblings of the improvers '
    '(same loop, different ideal point and guards) and ref_smooth_tet_nso_step are not modelled',
]
