"""streams for the gradation sweeps (C10): harness h_gradation vs driver `gradation`.

Grids are built in process from the op line (mesh block of streams_metric): 2-D quad/triangle lattices and 3-D
hex/prism/pyramid/tet bricks, jittered; fields are SPD with jumps of 10..10^4 in size between neighbouring
vertices, so that the gradation limit is active on most edges.  r in {1.1, 1.5, 3, -1 (default), ...}.

Ops:  edges | ms r k | mixed r t k | gac gradation target | lpchain p gradation ar target | lp (validate) ...

The oracle states the property on the implementation's own output, independently of the model:
  * every tensor after every sweep is finite and positive definite (exact rational leading minors),
  * it dominates the tensor before the sweep in the Loewner order (M' - (1-1e-9) M positive definite, exact),
  * the planar embedding is still in place after gradation_at_complexity on a 2-D grid,
  * the complexity of the field left by gradation_at_complexity equals the target to 1e-10 relative
    (independent integrator of streams_metric: exact volumes and determinants).
"""
import math
import random
from fractions import Fraction

from .common import Stream
from . import streams_matrix as sm
from . import streams_metric as mt
from .streams_matrix import hx, unhx
from .streams_metric import Mesh, parse_mesh, is_spd_exact, embedded, finite_field, complexity_ref, have_vol

# the local edge tables of ref_cell_initialize, restated (for the `edges` oracle only)
E2N = {'tri': [(0, 1), (1, 2), (2, 0)],
       'qua': [(0, 1), (1, 2), (2, 3), (3, 0)],
       'tet': [(0, 1), (0, 2), (0, 3), (1, 2), (1, 3), (2, 3)],
       'pyr': [(0, 1), (0, 2), (0, 3), (1, 2), (1, 4), (2, 3), (2, 4), (3, 4)],
       'pri': [(0, 1), (0, 2), (0, 3), (1, 2), (1, 4), (2, 5), (3, 4), (3, 5), (4, 5)],
       'hex': [(0, 1), (0, 3), (0, 4), (1, 2), (1, 5), (2, 3), (2, 6), (3, 7), (4, 5), (4, 7), (5, 6), (6, 7)]}


# ----------------------------------------------------------------------------------------------
# oracle
# ----------------------------------------------------------------------------------------------
def fields_of(line, nn):
    w = line.split()
    if not w or w[0] != 'ok':
        return (w[0] if w else ''), None
    f = [unhx(t) for t in w[1:]]
    per = 6 * nn
    return 'ok', [[tuple(f[k * per + 6 * i:k * per + 6 * i + 6]) for i in range(nn)] for k in range(len(f) // per)]


def dominates(new, old, tol=Fraction(1, 10 ** 9)):
    """new - (1 - tol) old is positive definite, decided exactly"""
    d = [Fraction(a) - (1 - tol) * Fraction(b) for a, b in zip(new, old)]
    a, b, c, dd, e, f = d
    m1 = a
    m2 = a * dd - b * b
    m3 = a * (dd * f - e * e) - b * (b * f - e * c) + c * (b * e - dd * c)
    return m1 > 0 and m2 > 0 and m3 > 0


NEAR_SINGULAR_SITE = 'gradation:indefinite-by-rounding-at-extreme-anisotropy'


def well_posed(mesh, amax=1e12):
    """SPD vertex tensors of moderate size and conditioning, finite coordinates, no zero-length edge"""
    if not finite_field(mesh.xyz):
        return False
    for m in mesh.metric:
        if not is_spd_exact(m) or max(abs(x) for x in m) > amax:
            return False
        ev = mt.sm_eigs(m)
        if ev[0] <= 0 or ev[2] / ev[0] > 1e7 or ev[0] < 1e-8:
            return False
    for k, ns in mesh.cells:
        if len(set(ns)) != len(ns):
            return False
    return True


def o_sweeps(op, mesh, r_ok, line, out):
    st, fs = fields_of(line, len(mesh.xyz))
    if not well_posed(mesh):
        return
    if st != 'ok':
        out.append('%s: status %s on a well-posed SPD field' % (op, st))
        return
    prev = mesh.metric
    for k, f in enumerate(fs):
        for n, m in enumerate(f):
            if not all(math.isfinite(x) for x in m):
                out.append('%s: sweep %d: non-finite tensor at vertex %d' % (op, k + 1, n))
                return
            if not is_spd_exact(m):
                out.append('%s: sweep %d: tensor at vertex %d is not positive definite: %s' % (op, k + 1, n, (m,)))
                return
            if not dominates(m, prev[n]):
                out.append('%s: sweep %d: vertex %d: output %s does not dominate its input %s (gradation may only refine)'
                           % (op, k + 1, n, (m,), (prev[n],)))
                return
        prev = f
    if not r_ok:
        # log(r) is NaN or negative enough to make the factor non-finite: every intersect is refused, field unchanged
        return


def o_gac(op, mesh, target, line, out, hessian_input=False):
    w = line.split()
    if not finite_field(mesh.xyz) or not (math.isfinite(target) and target > 0):
        return
    if not hessian_input:
        if not well_posed(mesh):
            return
        if mesh.twod and not all(embedded(m) for m in mesh.metric):
            return
        cur, mag = complexity_ref(mesh, mesh.metric)
        if not (cur > 0 and mag < 1.5 * cur):
            return
        if not (1e-12 * cur < target < 1e12 * cur):
            return          # far outside: the ref_math_divisible guard may legitimately answer div_zero
    if mesh.twod != (not have_vol(mesh)) or not all(mesh.owned):
        return
    if w[0] != 'ok':
        if not hessian_input:
            out.append('%s: status %s on a well-posed field' % (op, w[0]))
        return
    f = [unhx(t) for t in w[1:]]
    field = [tuple(f[6 * i:6 * i + 6]) for i in range(len(f) // 6)]
    tmp = []
    if not mt.o_spd_field(op, mesh, field, tmp):
        # KNOWN FINDING gradation:indefinite-by-rounding-at-extreme-anisotropy: with the aspect-ratio limiter at its hidden cap
        # (1e12 between the eigenvalues) a vertex tensor is positive definite only up to a relative 1e-12, and the log/exp/
        # intersect arithmetic of the gradation sweeps (about 1e-16 x conditioning) can leave its smallest eigenvalue slightly
        # NEGATIVE.  Tagged only when that is the whole failure: every tensor finite, the most negative eigenvalue no larger
        # than 1e-6 of the largest in magnitude; a grossly indefinite or non-finite tensor stays an ordinary failure.
        tiny = all(math.isfinite(x) for m in field for x in m)
        if tiny:
            for m in field:
                if not is_spd_exact(m):
                    ev = mt.sm_eigs(m)
                    if not (ev[2] > 0 and ev[0] >= -1e-6 * ev[2]):
                        tiny = False
        for msg in tmp:
            out.append((msg, NEAR_SINGULAR_SITE) if (tiny and hessian_input and 'not positive definite' in msg) else msg)
        return
    c, mag = complexity_ref(mesh, field)
    if not (mag < 1.5 * abs(c)):
        return
    # ref_matrix_det_m (Gaussian elimination in doubles) is accurate to about cond * 1e-16: the 1e-10 statement is
    # made for tensors of conditioning up to 1e4
    for m in field:
        ev = mt.sm_eigs(m)
        if not (ev[0] > 0 and ev[2] / ev[0] <= 1e4):
            return
    if abs(c - target) > 1e-10 * target:
        out.append('%s: complexity of the output field is %.15e, requested %.15e' % (op, c, target))


def o_edges(mesh, line, out):
    w = line.split()
    if w[0] != 'ok':
        out.append('edges: status %s' % w[0])
        return
    v = [int(t) for t in w[1:]]
    got = [(v[1 + 2 * i], v[2 + 2 * i]) for i in range(v[0])]
    want = set()
    for k, ns in mesh.cells:
        for a, b in E2N[k]:
            want.add(frozenset((ns[a], ns[b])))
    if len(got) != len(set(frozenset(e) for e in got)) or set(frozenset(e) for e in got) != want:
        out.append('edges: the edge list is not the duplicate-free set of cell edges')


def oracle(ops, impl):
    bad = []
    for i, (o, r) in enumerate(zip(ops, impl)):
        w = o.split()
        op = w[0]
        out = []
        try:
            if r.startswith('bad-op'):
                continue
            if op == 'edges':
                o_edges(parse_mesh(w[1:]), r, out)
            elif op == 'ms':
                rr = unhx(w[1])
                if rr >= 1.0:
                    o_sweeps(op, parse_mesh(w[3:]), True, r, out)
            elif op == 'mixed':
                o_sweeps(op, parse_mesh(w[4:]), True, r, out)
            elif op == 'gac':
                o_gac(op, parse_mesh(w[3:]), unhx(w[2]), r, out)
            elif op == 'lpchain':
                o_gac(op, parse_mesh(w[5:]), unhx(w[4]), r, out, hessian_input=True)
            elif op == 'lp':
                rw = r.split()
                if rw[0] == 'lpdump' and rw[1] == 'ok':
                    ns = int(w[5])
                    mesh = parse_mesh(w[6 + ns:])
                    o_gac(op, mesh, unhx(w[4]), 'ok ' + ' '.join(rw[6:6 + 6 * ns]), out, hessian_input=True)
        except (ValueError, IndexError, AssertionError, KeyError, ZeroDivisionError):
            continue
        bad.extend(((i, m[0], m[1]) if isinstance(m, tuple) else (i, m)) for m in out)
    return bad


# ----------------------------------------------------------------------------------------------
# generators
# ----------------------------------------------------------------------------------------------
def iso_aniso(rng, twod, h, aniso):
    """SPD tensor of size ~1/h^2 with the given anisotropy"""
    lmax = 1.0 / (h * h)
    l = [lmax, lmax / aniso, lmax / (aniso ** rng.uniform(0, 1))]
    rng.shuffle(l)
    if twod:
        a = rng.uniform(-math.pi, math.pi) if rng.random() < 0.8 else rng.choice([0.0, math.pi / 2, 1e-9])
        c, s = math.cos(a), math.sin(a)
        return (c * c * l[0] + s * s * l[1], c * s * (l[0] - l[1]), 0.0, s * s * l[0] + c * c * l[1], 0.0, 1.0)
    R = sm.rotation(rng) if rng.random() < 0.8 else sm.rot_perm(rng)
    return tuple(sm.build(R, l))


def jump_field(rng, mesh, scale):
    """coarse background with a few fine vertices (jump 10..1e4 in eigenvalue) : gradation is active"""
    n = len(mesh.xyz)
    h0 = scale * 10 ** rng.uniform(-0.5, 0.5)
    jump = 10 ** rng.uniform(0.5, 2.0)
    an = rng.choice([1.0, 1.0, 3.0, 30.0, 10 ** rng.uniform(0, 3)])
    style = rng.random()
    f = []
    for i, p in enumerate(mesh.xyz):
        if style < 0.5:
            fine = rng.random() < 0.25
        elif style < 0.8:
            fine = p[0] < min(q[0] for q in mesh.xyz) + 0.3 * (max(q[0] for q in mesh.xyz) - min(q[0] for q in mesh.xyz))
        else:
            fine = i == 0
        h = h0 / jump if fine else h0 * rng.uniform(0.8, 1.25)
        f.append(iso_aniso(rng, mesh.twod, h, an if rng.random() < 0.7 else 1.0))
    return f


def grid(rng, big=False):
    scale = rng.choice([1.0, 1.0, 10 ** rng.uniform(-3, 3)])
    if rng.random() < 0.55:
        nx, ny = rng.randint(1, 5 if big else 4), rng.randint(1, 4)
        xyz, cells = mt.lattice2(rng, nx, ny, [scale, scale * rng.choice([1.0, 0.3])], rng.choice([0, 1.0, 1.0]),
                                 [rng.uniform(-1, 1) for _ in range(2)])
        twod = True
    else:
        dims = [rng.randint(1, 2) for _ in range(3)]
        if big and rng.random() < 0.4:
            dims[rng.randrange(3)] = 3
        xyz, cells = mt.lattice3(rng, dims[0], dims[1], dims[2], [scale] * 3, rng.choice([0, 1.0, 1.0]),
                                 [rng.uniform(-1, 1) for _ in range(3)])
        twod = False
        if rng.random() < 0.2:
            # boundary triangles next to the volume cells: their edges are appended after the volume edges
            cells = cells + [('tri', rng.sample(range(len(xyz)), 3)) for _ in range(rng.randint(1, 3))]
    mesh = Mesh(twod, xyz, None, [True] * len(xyz), cells[:60])
    return mesh, scale / max(1, len(xyz)) ** (0.5 if twod else 1.0 / 3.0)


R_CHOICES = [1.1, 1.5, 3.0, -1.0, 1.1, 1.5, 3.0, 1.0, 1.0001, 2.0]


def gen_sweep(rng, tier):
    n = 70 if tier == 'quick' else 500
    ops = []
    for it in range(n):
        mesh, h = grid(rng, big=(it % 5 == 0))
        mesh.metric = jump_field(rng, mesh, h)
        if rng.random() < 0.06:
            # tensors the sweeps must survive: indefinite / singular / zero (every intersect refused or div_zero branch)
            mesh.metric = [mt.hessian(rng, mesh.twod) if rng.random() < 0.3 else m for m in mesh.metric]
        if rng.random() < 0.04:
            i = rng.randrange(len(mesh.metric))
            bad = list(mesh.metric[i])
            bad[rng.randrange(6)] = rng.choice([float('nan'), float('inf'), -float('inf')])
            mesh.metric[i] = tuple(bad)
        if it % 4 == 0:
            ops.append(mt.op_line('edges', [], mesh))
        k = rng.choice([1, 1, 2, 3])
        r = rng.choice(R_CHOICES)
        if rng.random() < 0.05:
            r = rng.choice([0.5, 0.0, float('nan'), float('inf'), 1e300])
        ops.append(mt.op_line('ms', [hx(r), str(k)], mesh))
        if rng.random() < 0.6:
            t = rng.choice([-1.0, -1.0, 0.125, 1.0, 2.0, 0.5, 1.5])
            ops.append(mt.op_line('mixed', [hx(rng.choice(R_CHOICES)), hx(t), str(rng.choice([1, 1, 2]))], mesh))
    # cells on random vertices (repeated vertices, any orientation): the edge order and the sweeps are tied only
    for _ in range(6 if tier == 'quick' else 40):
        mesh = mt.rand_mesh(rng, kind=0.95)
        mesh.metric = [mt.spd_metric(rng, mesh.twod) for _ in mesh.xyz]
        ops.append(mt.op_line('edges', [], mesh))
        ops.append(mt.op_line('ms', [hx(1.5), '1'], mesh))
    ops.append('edges 0 1')
    ops.append('ms zz 1 0 1')
    ops.append('ms %s 0 0 1 %s 0 0 0 0 0 0 1 0' % (hx(1.5), ' '.join([hx(0.0)] * 3)))
    ops.append('mixed %s %s 9 0 1' % (hx(1.5), hx(1.0)))
    return ops


def strip(rng):
    nx = rng.randint(16, 26)
    if rng.random() < 0.6:
        xyz, cells = mt.lattice2(random.Random(rng.random()), nx, 1, [1.0, 1.0 / nx], 0, [0.0, 0.0])
        cells = [('qua', [2 * i, 2 * i + 2, 2 * i + 3, 2 * i + 1]) for i in range(nx)]
        twod = True
    else:
        xyz, cells = mt.lattice3(random.Random(rng.random()), nx, 1, 1, [1.0, 1.0 / nx, 1.0 / nx], 0, [0.0] * 3)
        cells = [c for c in cells if c[0] == 'hex'] or cells
        twod = False
    mesh = Mesh(twod, xyz, None, [True] * len(xyz), cells[:40])
    f = []
    for p in xyz:
        big = 1e4 if p[0] < 0.08 else 1.0
        f.append(iso_aniso(rng, twod, 1.0 / math.sqrt(big * rng.uniform(1.0, 1.5)), 1.0))
    mesh.metric = f
    return mesh


def gen_gac(rng, tier):
    n = 36 if tier == 'quick' else 250
    ops = []
    for it in range(n):
        if it % 6 == 0:
            mesh = strip(rng)
            g = rng.choice([1.05, 1.1, 1.2])
        else:
            mesh, h = grid(rng)
            mesh.metric = jump_field(rng, mesh, h)
            g = rng.choice([-1.0, 1.1, 1.5, 3.0, 1.5, 1.0])
        t = rng.choice([50.0, 500.0, 2000.0, 1e5, rng.uniform(50, 1e5)])
        if rng.random() < 0.04:
            t = rng.choice([0.0, -1.0, float('inf'), float('nan'), 1e300])
        if rng.random() < 0.1:
            mesh.owned = [rng.random() < 0.7 for _ in mesh.xyz]
        ops.append(mt.op_line('gac', [hx(g), hx(t)], mesh))
        if it % 3 == 1:
            # the stages of ref_metric_lp after the reconstruction, on Hessian-like fields
            m2 = Mesh(mesh.twod, mesh.xyz, [mt.hessian(rng, mesh.twod) if rng.random() < 0.5 else m for m in mesh.metric],
                      [True] * len(mesh.xyz), mesh.cells)
            p = rng.choice([1, 2, 4, 1, 2, 0])
            ar = rng.choice([-1.0, 10.0, 100.0, 2.0, 1e3])
            ops.append(mt.op_line('lpchain', [str(p), hx(g), hx(ar), hx(t)], m2))
    ops.append('gac %s %s 0 1' % (hx(1.5), hx(100.0)))
    ops.append('lpchain 2000 %s %s %s 0 1' % (hx(1.5), hx(10.0), hx(100.0)))
    return ops


def simplex_grid(rng):
    """triangle / tet lattices (what the L2-projection Hessian of `ref multiscale` is used on)"""
    if rng.random() < 0.55:
        nx, ny = rng.randint(2, 5), rng.randint(2, 4)
        xyz, cells = mt.lattice2(rng, nx, ny, [1.0, 1.0], rng.choice([0, 1.0]), [0.0, 0.0])
        out = []
        for k, q in cells:
            if k == 'qua':
                out += [('tri', [q[0], q[1], q[2]]), ('tri', [q[0], q[2], q[3]])]
            else:
                out.append((k, q))
        return Mesh(True, xyz, None, [True] * len(xyz), out)
    idx = {}
    xyz = []
    nx, ny, nz = rng.randint(1, 2), rng.randint(1, 2), rng.randint(1, 2)
    jit = rng.choice([0, 1.0])
    for i in range(nx + 1):
        for j in range(ny + 1):
            for k in range(nz + 1):
                idx[(i, j, k)] = len(xyz)
                xyz.append(((i + jit * rng.uniform(-0.25, 0.25)) / nx, (j + jit * rng.uniform(-0.25, 0.25)) / ny,
                            (k + jit * rng.uniform(-0.25, 0.25)) / nz))
    cells = []
    for i in range(nx):
        for j in range(ny):
            for k in range(nz):
                h = [idx[(i, j, k)], idx[(i + 1, j, k)], idx[(i + 1, j + 1, k)], idx[(i, j + 1, k)],
                     idx[(i, j, k + 1)], idx[(i + 1, j, k + 1)], idx[(i + 1, j + 1, k + 1)], idx[(i, j + 1, k + 1)]]
                for p in ([h[0], h[1], h[2], h[4], h[5], h[6]], [h[0], h[2], h[3], h[4], h[6], h[7]]):
                    for s in mt.SPLIT['pri']:
                        cells.append(('tet', [p[a] for a in s]))
    cells = [(k, mt.orient(k, ns, xyz)) for k, ns in cells]
    return Mesh(False, xyz, None, [True] * len(xyz), cells)


def scalar_field(rng, xyz):
    k = rng.random()
    if k < 0.3:
        a = [rng.uniform(-3, 3) for _ in range(6)]
        return [a[0] * x * x + a[1] * y * y + a[2] * z * z + a[3] * x * y + a[4] * y * z + a[5] * x for x, y, z in xyz]
    if k < 0.7:
        w, c = 10 ** rng.uniform(0, 1.5), rng.uniform(0.2, 0.8)
        return [math.tanh(w * (x + 0.3 * y - c)) + 0.1 * z * z for x, y, z in xyz]
    if k < 0.9:
        return [math.sin(5 * x) * math.cos(3 * y) + z * x for x, y, z in xyz]
    return [rng.uniform(-1, 1) for _ in xyz]


def gen_lp(rng, tier):
    n = 24 if tier == 'quick' else 160
    ops = []
    for _ in range(n):
        mesh = simplex_grid(rng)
        mesh.metric = [(0.0,) * 6 for _ in mesh.xyz]
        s = scalar_field(rng, mesh.xyz)
        p = rng.choice([1, 2, 4, 2])
        g = rng.choice([-1.0, 1.1, 1.5, 3.0])
        ar = rng.choice([-1.0, 10.0, 100.0])
        t = rng.choice([50.0, 500.0, 2000.0, rng.uniform(50, 1e4)])
        ops.append(' '.join(['lp', str(p), hx(g), hx(ar), hx(t), str(len(s))] + [hx(v) for v in s] + mesh.words()))
    return ops


def nontrivial(op, out):
    return out.startswith('ok ') or out.startswith('lpdump ok') or out in ('div_zero', 'failure', 'invalid')


SWEEP = Stream('gradation_sweeps', 'h_gradation', 'gradation', gen_sweep, oracle=oracle, nontrivial=nontrivial, session='edges')
GAC = Stream('gradation_at_complexity', 'h_gradation', 'gradation', gen_gac, oracle=oracle, nontrivial=nontrivial,
             session='gac')
LP = Stream('gradation_lp_chain', 'h_gradation', 'gradation', gen_lp, oracle=oracle, kind='validate', nontrivial=nontrivial,
            session='lp')
