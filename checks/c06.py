"""C06 — distributed-mesh invariants at sync points (DESIGN.md section 6, L3 Dist)."""
from . import streams_dist

ID = 'C06'
PROPS_MODULE = ['Refine.Props.C06']
STREAMS = streams_dist.STREAMS
EXPLANATION = ('placeholder')
ASSUMPTIONS = ['placeholder']
