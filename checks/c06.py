"""C06 — distributed-mesh invariants at sync points (DESIGN.md section 6, L3 Dist)."""
from . import streams_dist
from . import streams_partmeshb

ID = 'C06'
PROPS_MODULE = ['Refine.Props.C06', 'Refine.Props.C06Part']
STREAMS = streams_dist.STREAMS + [streams_partmeshb.READ, streams_partmeshb.CHUNK_S, streams_partmeshb.CHUNK_MORE]
TECHNIQUE = 'Lean 4 theorems about an executable SPMD model (World = list of per-rank states) + differential ' \
            'execution against the real ref_node/ref_cell/ref_migrate/ref_adapt code under mpiexec + the model ' \
            'invariant evaluated on state dumps of real runs'
EXPLANATION = (
    'Model: Refine.Model.Dist on top of the ref_node id state machine Refine.Model.NodeIds and the collectives of '
    'Refine.Model.Comm. syncGlobals = eliminateUnused o shiftNew copies ref_node_synchronize_globals loop by loop '
    '(allgather of the fresh-id counts, per-rank offset, shift of global[], of the sorted_global tail and of the unused '
    'list; sort of the unused list, allgather of the counts, chunk = MAX(total/np+1,100000), the slice loop of '
    'ref_node_eliminate_active_parts with allgatherv of the active unused ids, the two-pointer walk of '
    'ref_node_eliminate_unused_offset on sorted_global and on the not yet processed unused lists, write-back through '
    'sorted_local). cellOwner is ref_cell_part (part of the first vertex with the smallest global). ghost is '
    'ref_node_ghost_int/_glob/_dbl (alltoall of bucket sizes, alltoallv of the requested globals, reply alltoallv). '
    'distInv is the executable C06 invariant: one owner per vertex and the owner stores it as owned; a rank stores a '
    'cell iff one of its vertices has part = rank; a rank stores a vertex iff it owns it or a stored cell needs it; a '
    'ghost copy carries the owner\'s 15 reals (xyz, metric, log-metric) and aux bit for bit; the cell owner computed '
    'on any rank storing the cell is one rank, which stores it; owned vertices are pairwise distinct, owned cells sum '
    'to the distinct cells, and once synchronised n_global equals the summed owned vertices on every rank and the ids '
    'are exactly 0..N-1. '
    'Proved (Refine.Props.C06, no sorry, axioms within propext/Classical.choice/Quot.sound): sync_bijection (headline, '
    'full strength): for every world of per-rank id states satisfying SyncInv (common old_n_global <= new_n_global, '
    'sorted_global non-decreasing, and the id invariant IdInv on the abstraction: fresh ids of rank r in '
    '[old, old+k_r), all unused ids after the shift pairwise distinct, in range and disjoint from the live ids, every '
    'id below old+sum k live or unused) the loop-by-loop model syncGlobals ends on every rank in the closed-form state '
    '(sorted_global[i] -> newId r (sorted_global[i]), unused list empty, old_n_global = new_n_global = N), and newId '
    'is strictly monotone on every rank, identical on every rank for a shared id, puts fresh ids after shared ones and '
    'orders them by rank, lands in [0,N) and is onto [0,N) (newId_bijection); the unrolling (Refine.Lemmas.DistSync) '
    'uses C17 allgather_spec/allgatherv_spec for the collectives and lifts eliminate_offset_spec (the literal '
    'two-pointer loop lowers every id by the number of unused ids below it), elim_slices (slice-by-slice elimination, '
    'the waiting unused list being offset meanwhile, equals one elimination by the sorted union) and '
    'active_parts_progress (every slice non-empty and inside the rank range) by induction over the slice loop; '
    'sync_table (every live slot named by the sorted arrays holds newId of its old id in global[] after the call); '
    'cellPartNode_min / cellOwner_unique / cellOwner_agree (the owner is the part of a vertex with the smallest '
    'global id, a function of the cell\'s (global, part) list alone, so all ranks that agree on the parts compute the '
    'same single owner); counts_sum (from distInv: summed owned vertices are pairwise distinct ids, summed owned '
    'cells equal the distinct cells, and once synchronised the summed owned count is n_global on every rank and the '
    'owned ids are exactly 0..N-1); ghostRefresh_spec_partial (the store loop of ref_node_ghost_*: every entry named '
    'by a received (global, values) pair takes exactly those values, every other entry - all owned ones - is '
    'unchanged). Non-vacuity examples: a 3-rank world satisfying SyncInv, a 2-rank mesh satisfying distInv, the '
    'literal ghost model on a 3-rank world. '
    'NOT proved, tied by the streams only: that the alltoall/alltoallv exchanges of ghost hand every rank the '
    '(global, owner values) pairs of its ghosts (full ghostRefresh_spec); the post-condition of ref_migrate_shufflin '
    '(no shufflinSpec theorem; the parallel reader placement IS proved, see the end), preservation of the id invariant by the local '
    'operations (IdInv_step) and the reachability lift. '
    'Tie: stream dist_fn runs the same op line (the id states / vertex tables of all ranks) through the real '
    'ref_node_synchronize_globals, ref_node_eliminate_unused_offset, ref_node_eliminate_active_parts, ref_cell_part, '
    'ref_node_ghost_* under mpiexec at np in {1,2,3,4,5,8} and through the model: identical lines required; it '
    'includes structured worlds (empty ranks, all fresh ids on one rank, unused ids at the ends / interleaved, '
    'rejected fresh ids), the exhaustive enumeration of all small {old live, old unused, fresh} assignments '
    '(np=1: 5 ids, np=2: 3 ids, np=3: 2 ids; thorough: one more id), random valid and malformed worlds, and worlds '
    'with more than 100000 unused ids so that the slice loop makes several trips. Stream dist_run runs real '
    'histories in-process: ref_part_by_extension of a pyio-written tet/tri mesh, then a seeded sequence (<= 12) of '
    'ref_migrate_to_balance, ref_adapt_pass (random graded metrics, refining and coarsening), ref_grid_pack, '
    'ref_node_synchronize_globals, ref_node_ghost_real with REF_VERIF_PARTITIONER_FULL; at every sync hook every rank '
    'dumps its vertices (global, part, payload bits) and cells, refdrv evaluates distInv on the gathered state, and at '
    'every ref_node_synchronize_globals the model is re-run on the real pre-state (global[], sorted arrays, unused '
    'list) and compared with the real post-state. Independently the python oracles state the bijection and the C06 '
    'sentence directly on the implementation\'s lines. '
    'PARALLEL READ (work package partmeshb; Refine/Model/PartMeshb.lean, Props/C06Part.lean): readPartition_spec is now '
    'PROVED - for every np >= 1, chunk constant and accepted file with 1 <= nnode < 2^31 whose cell groups have no two '
    'cells on the same vertex set, the model of ref_part_by_extension (vertex blocks by ref_part_first, per-chunk routing '
    'by the implicit owner of the FIRST vertex, ref_cell_add_many_global, ref_migrate_shufflin_cell, ref_geom_ghost, '
    'ref_node_ghost_real) succeeds and its world satisfies distInv, all seven clauses; partCell_routing_complete gives '
    'the closed form (rank r holds, in this order, the cells routed to it and then by source rank the cells routed '
    'elsewhere that touch it; hence cell on r <=> some vertex of it is owned by r).  Tie: streams partmeshb_read '
    '(np 1..5) and partmeshb_chunk (more records than the 1000000-record read chunk, np 2,3 / 4,5 thorough): the '
    'per-rank dump (vertices sorted, cells in LOCAL order, geometry, CAD) taken just before the orientation pass == '
    'the model line; python oracle: the C06 sentence on the dump.')
ASSUMPTIONS = [
    'sync_bijection is proved under the explicit hypothesis SyncInv (common old_n_global >= 0 with new_n_global >= '
    'old_n_global on every rank, sorted_global non-decreasing and consistent with global[] as ref_node maintains it, '
    'and IdInv: live ids of rank r in [0, old+k_r), all unused ids after the shift pairwise distinct, inside '
    '[0, old+sum k) and disjoint from the shifted live ids, every id below old+sum k live somewhere or unused)',
    'the id invariant itself (maintained by ref_node_next_global / ref_node_remove during split/collapse/cavity) is '
    'not proved preserved here; the run-level oracle checks it on every real pre-state of ref_node_synchronize_globals',
    'the exchanges of the ghost refresh, ref_migrate_shufflin (general case) and the history lift '
    'have no theorem (the parallel reader placement has: Props/C06Part.lean, where ref_mpi_alltoallv is used through '
    'its C17 post-condition - a rank receives the blocks addressed to it in source-rank order - and the hypothesis '
    '"no two cells of a group on the same vertex set" is necessary: ref_cell_add_many_global drops the second one): their post-conditions are checked on dumps of real runs (distInv in Lean, the same sentence in '
    'python) and, for ghost, by the function-level diff',
    'MPI semantics is trusted as specified in Refine.Model.Comm (C17): allgather, allgatherv, alltoall, alltoallv',
    'integer width: ids and counts are unbounded Int/Nat in the model ((REF_INT) casts of counts, REF_GLOB ids are '
    'assumed not to wrap); the constant 100000 of the chunk heuristic is copied into the model',
    'ref_sort_in_place_glob is modelled by its result (the sorted list); the heap sort itself is C14',
    'dist_run needs REF_VERIF_PARTITIONER_FULL (all ranks stay active) and the default native partitioner; '
    'geometry-association records (ref_geom) and ages are not dumped',
    'harness compiled with -fsanitize=address,undefined (leak detection off); refine\'s stdout diagnostics are '
    'redirected to /dev/null',
]
