"""Seeded generators of small valid input meshes and fields for the end-to-end CLI streams.
All randomness comes from the `rng` passed in (derived from VERIF_SEED)."""
import math

TET_FACES = [(1, 3, 2), (0, 2, 3), (0, 3, 1), (0, 1, 2)]  # refine f2n for tets (checked against Gen/CellTables by C15)


def tet_vol(a, b, c, d):
    m11 = (a[0] - d[0]) * ((b[1] - d[1]) * (c[2] - d[2]) - (c[1] - d[1]) * (b[2] - d[2]))
    m12 = (a[1] - d[1]) * ((b[0] - d[0]) * (c[2] - d[2]) - (c[0] - d[0]) * (b[2] - d[2]))
    m13 = (a[2] - d[2]) * ((b[0] - d[0]) * (c[1] - d[1]) - (c[0] - d[0]) * (b[1] - d[1]))
    return -(m11 - m12 + m13) / 6.0


def box_tets(nx, ny, nz, rng=None, jitter=0.0, lengths=(1.0, 1.0, 1.0), patches='sides', warp=0.0,
             grade=(1.0, 1.0, 1.0), shear=0.0):
    """(nx,ny,nz) cells; Kuhn split (6 tets per cube, conforming).  patches: 'sides' (6 ids), 'one' (single id),
    'split' (each side cut into 2 ids at the mid line, 12 ids), 'random' (ids random per side in 1..12)."""
    def vid(i, j, k):
        return (i * (ny + 1) + j) * (nz + 1) + k
    verts = []
    for i in range(nx + 1):
        for j in range(ny + 1):
            for k in range(nz + 1):
                # graded spacing (geometric clustering towards 0) gives wall elements of very different size
                x = lengths[0] * (i / nx) ** grade[0]
                y = lengths[1] * (j / ny) ** grade[1]
                z = lengths[2] * (k / nz) ** grade[2]
                x += shear * z
                if rng is not None and jitter > 0 and 0 < i < nx and 0 < j < ny and 0 < k < nz:
                    x += jitter * lengths[0] / nx * (rng.random() - 0.5)
                    y += jitter * lengths[1] / ny * (rng.random() - 0.5)
                    z += jitter * lengths[2] / nz * (rng.random() - 0.5)
                if warp:
                    # warped (curved-facet) top side z = lz : bulge, keeps side facets planar enough
                    z += warp * lengths[2] * (k / nz) * math.sin(math.pi * i / nx) * math.sin(math.pi * j / ny)
                verts.append((x, y, z))
    tets = []
    perms = [(0, 1, 2), (0, 2, 1), (1, 0, 2), (1, 2, 0), (2, 0, 1), (2, 1, 0)]
    for i in range(nx):
        for j in range(ny):
            for k in range(nz):
                for p in perms:
                    cur = [i, j, k]
                    path = [vid(*cur)]
                    for ax in p:
                        cur[ax] += 1
                        path.append(vid(*cur))
                    a, b, c, d = path
                    if tet_vol(verts[a], verts[b], verts[c], verts[d]) < 0:
                        a, b = b, a
                    tets.append((a, b, c, d))
    # boundary faces
    count = {}
    for t in tets:
        for f in TET_FACES:
            tri = (t[f[0]], t[f[1]], t[f[2]])
            key = tuple(sorted(tri))
            count.setdefault(key, []).append(tri)
    side_rand = {}
    tris = []
    for key, lst in sorted(count.items()):
        if len(lst) != 1:
            continue
        tri = lst[0]
        cs = [verts_index(v, ny, nz) for v in tri]
        side = None
        for ax, n in ((0, nx), (1, ny), (2, nz)):
            if all(c[ax] == 0 for c in cs):
                side = 2 * ax + 1
            elif all(c[ax] == n for c in cs):
                side = 2 * ax + 2
        ax = (side - 1) // 2
        oth = (ax + 1) % 3
        nn = (nx, ny, nz)[oth]
        # the ridge between two coplanar patches must be a straight grid line (C02's precondition):
        # classify by cell column, never by centroid (a centroid rule zig-zags through odd middle columns)
        upper = min(c[oth] for c in cs) >= nn // 2 and nn >= 2
        if patches == 'one':
            fid = 1
        elif patches == 'split':
            fid = side + (6 if upper else 0)
        elif patches == 'random':
            # distinct ids for different sides (an id never wraps around a box edge: in no-geometry mode refine
            # cannot know such a corner, which C02's precondition excludes); the two halves of one side get either
            # two distinct ids or one merged id
            half = 1 if upper else 0
            if not side_rand:
                perm = list(range(1, 13))
                if rng:
                    rng.shuffle(perm)
                for sd in range(1, 7):
                    a, b = perm[2 * (sd - 1)], perm[2 * (sd - 1) + 1]
                    if rng and rng.random() < 0.4:
                        b = a
                    side_rand[(sd, 0)], side_rand[(sd, 1)] = a, b
            fid = side_rand[(side, half)]
        else:
            fid = side
        tris.append(tri + (fid,))
    return verts, [t + (0,) for t in tets], tris


def verts_index(v, ny, nz):
    k = v % (nz + 1)
    j = (v // (nz + 1)) % (ny + 1)
    i = v // ((nz + 1) * (ny + 1))
    return (i, j, k)


def square_tris(nx, ny, rng=None, jitter=0.0, lengths=(1.0, 1.0), patches='sides'):
    def vid(i, j):
        return i * (ny + 1) + j
    verts = []
    for i in range(nx + 1):
        for j in range(ny + 1):
            x, y = lengths[0] * i / nx, lengths[1] * j / ny
            if rng is not None and jitter > 0 and 0 < i < nx and 0 < j < ny:
                x += jitter * lengths[0] / nx * (rng.random() - 0.5)
                y += jitter * lengths[1] / ny * (rng.random() - 0.5)
            verts.append((x, y))
    tris = []
    for i in range(nx):
        for j in range(ny):
            a, b, c, d = vid(i, j), vid(i + 1, j), vid(i + 1, j + 1), vid(i, j + 1)
            if (i + j) % 2 == 0:
                tris += [(a, b, c, 1), (a, c, d, 1)]
            else:
                tris += [(a, b, d, 1), (b, c, d, 1)]
    edgs = []
    for i in range(nx):
        edgs.append((vid(i, 0), vid(i + 1, 0), 1 if patches != 'one' else 1))
        edgs.append((vid(i + 1, ny), vid(i, ny), 3 if patches != 'one' else 1))
    for j in range(ny):
        edgs.append((vid(nx, j), vid(nx, j + 1), 2 if patches != 'one' else 1))
        edgs.append((vid(0, j + 1), vid(0, j), 4 if patches != 'one' else 1))
    return verts, tris, edgs


# ---- fields --------------------------------------------------------------
def metric_uniform(h):
    m = 1.0 / (h * h)
    return lambda p: (m, 0.0, 0.0, m, 0.0, m)


def metric_aniso(hx, hy, hz):
    return lambda p: (1.0 / hx ** 2, 0.0, 0.0, 1.0 / hy ** 2, 0.0, 1.0 / hz ** 2)


def metric_linear_h(h0, h1, axis=0, length=1.0):
    def f(p):
        h = h0 + (h1 - h0) * p[axis] / length
        m = 1.0 / (h * h)
        return (m, 0.0, 0.0, m, 0.0, m)
    return f


def solb_metric_row(m, dim):
    """in-memory (m11,m12,m13,m22,m23,m33) -> libMeshb SolAtVertices symmetric-matrix order
    3-D: xx, xy, yy, xz, yz, zz ; 2-D: xx, xy, yy"""
    m11, m12, m13, m22, m23, m33 = m
    if dim == 2:
        return [m11, m12, m22]
    return [m11, m12, m22, m13, m23, m33]


def solb_metric_unrow(row, dim):
    if dim == 2:
        return (row[0], row[1], 0.0, row[2], 0.0, 1.0)
    return (row[0], row[1], row[3], row[2], row[4], row[5])


PRI_FACES_Q = [(0, 3, 4, 1), (1, 4, 5, 2), (0, 2, 5, 3)]   # refine f2n for prisms (quad faces)
PRI_FACES_T = [(0, 1, 2), (3, 5, 4)]                        # and the two triangle faces


def prism_slab(nx, ny, nz, rng=None, jitter=0.0, lengths=(1.0, 1.0, 0.3), big_ids=False):
    """a triangulated nx x ny square extruded into nz layers of prisms: boundary has triangles (bottom/top) AND
    quadrilaterals (the four sides) -- the mixed-boundary case of the UGRID readers"""
    v2, t2, _ = square_tris(nx, ny, rng, jitter, lengths[:2])
    nv2 = len(v2)
    verts = []
    for k in range(nz + 1):
        for p in v2:
            verts.append((p[0], p[1], lengths[2] * k / nz))
    pris = []
    for k in range(nz):
        for t in t2:
            a, b, c = t[:3]
            lo = [a + k * nv2, b + k * nv2, c + k * nv2]
            hi = [x + nv2 for x in lo]
            n = lo + hi
            # positive orientation for refine's sub-tet (0,4,5,3)
            if tet_vol(verts[n[0]], verts[n[4]], verts[n[5]], verts[n[3]]) < 0:
                n = [lo[0], lo[2], lo[1], hi[0], hi[2], hi[1]]
            pris.append(tuple(n) + (0,))
    base = 1000000 if big_ids else 0
    tcount, qcount = {}, {}
    for p in pris:
        for f in PRI_FACES_T:
            tri = tuple(p[i] for i in f)
            tcount.setdefault(tuple(sorted(tri)), []).append(tri)
        for f in PRI_FACES_Q:
            q = tuple(p[i] for i in f)
            qcount.setdefault(tuple(sorted(q)), []).append(q)
    tris, quas = [], []
    for key, lst in sorted(tcount.items()):
        if len(lst) == 1:
            z = verts[lst[0][0]][2]
            tris.append(lst[0] + (base + (1 if z == 0.0 else 2),))
    for key, lst in sorted(qcount.items()):
        if len(lst) == 1:
            q = lst[0]
            xs = [verts[i][0] for i in q]
            ys = [verts[i][1] for i in q]
            if max(ys) == 0.0:
                fid = 3
            elif min(xs) == lengths[0]:
                fid = 4
            elif min(ys) == lengths[1]:
                fid = 5
            else:
                fid = 6
            quas.append(q + (base + fid,))
    return verts, {'pri': pris, 'tri': tris, 'qua': quas}
