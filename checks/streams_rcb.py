"""streams `rcb_*`: the native load balancer of ref_migrate.c under mpiexec (harness h_rcb, driver `rcb`).

One op line carries the vertices of all ranks (`op np header | rank0 | rank1 | ...`); the harness broadcasts it, every
rank builds its REF_NODE and calls the real (static) ref_migrate_new_part + ref_node_ghost_int, or the public
ref_migrate_to_balance / ref_migrate_split_dir / ref_migrate_split_ratio.  libc rand() is replaced in the harness: the
values are part of the op line.  The oracles state the partition property directly on the C output (no Lean model).
"""
import math
import random
import struct

from .common import Stream
from . import streams_dist

RAND_MAX = 2147483647
NP_QUICK = [1, 2, 3, 4, 5, 8]
NP_MORE = [6, 7]


def dhex(x):
    return struct.pack('>d', float(x)).hex()


def hexd(s):
    return struct.unpack('>d', bytes.fromhex(s))[0]


def line(op, np, hdr, groups):
    return ' '.join([op, str(np)] + [str(h) for h in hdr] + [x for g in groups for x in (['|'] + [str(t) for t in g])])


# ---------------------------------------------------------------------------------------------------------
# point sets
# ---------------------------------------------------------------------------------------------------------
KINDS = ['cloud', 'cloud', 'cloud', 'cluster', 'line', 'plane', 'ties', 'dup', 'tiny', 'huge', 'mixed', 'grid']


def points(rng, kind, n, twod):
    """n points of the named kind; 'cloud' is in generic position (distinct coordinates in every direction)"""
    pts = []
    if kind == 'cloud':
        sx, sy, sz = [rng.choice([0.3, 1.0, 1.0, 7.0, 50.0]) for _ in range(3)]
        ox, oy, oz = [rng.uniform(-20.0, 20.0) for _ in range(3)]
        for _ in range(n):
            pts.append((ox + sx * rng.random(), oy + sy * rng.random(), 0.0 if twod else oz + sz * rng.random()))
    elif kind == 'cluster':
        cs = [(rng.uniform(-5, 5), rng.uniform(-5, 5), rng.uniform(-5, 5)) for _ in range(rng.randint(1, 4))]
        for _ in range(n):
            c = rng.choice(cs)
            pts.append((c[0] + rng.gauss(0, 0.01), c[1] + rng.gauss(0, 0.01), 0.0 if twod else c[2] + rng.gauss(0, 0.01)))
    elif kind == 'line':
        d = (rng.uniform(-1, 1), rng.uniform(-1, 1), 0.0 if twod else rng.uniform(-1, 1))
        o = (rng.uniform(-3, 3), rng.uniform(-3, 3), 0.0)
        for _ in range(n):
            t = rng.choice([rng.uniform(-4, 4), float(rng.randint(-3, 3))])
            pts.append((o[0] + t * d[0], o[1] + t * d[1], o[2] + t * d[2]))
    elif kind == 'plane':  # all x equal
        x0 = rng.choice([0.0, 1.5, -2.25])
        for _ in range(n):
            pts.append((x0, rng.uniform(-1, 1), 0.0 if twod else rng.uniform(-1, 1)))
    elif kind == 'ties':  # few distinct values per coordinate: many exact ties at the median
        for _ in range(n):
            pts.append((float(rng.randint(0, 2)), float(rng.randint(0, 1)), 0.0 if twod else float(rng.randint(0, 2))))
    elif kind == 'grid':
        for _ in range(n):
            pts.append((0.25 * rng.randint(0, 7), 0.5 * rng.randint(0, 3), 0.0 if twod else 0.125 * rng.randint(0, 5)))
    elif kind == 'dup':
        base = [(rng.uniform(-1, 1), rng.uniform(-1, 1), 0.0 if twod else rng.uniform(-1, 1)) for _ in range(max(1, n // 4))]
        for _ in range(n):
            pts.append(rng.choice(base))
    elif kind == 'tiny':
        s = 10.0 ** rng.randint(-300, -150)
        for _ in range(n):
            pts.append((s * rng.uniform(-1, 1), s * rng.uniform(-1, 1), 0.0 if twod else s * rng.uniform(-1, 1)))
    elif kind == 'huge':
        s = 10.0 ** rng.randint(100, 150)
        for _ in range(n):
            pts.append((s * rng.uniform(-1, 1), s * rng.uniform(-1, 1), 0.0 if twod else s * rng.uniform(-1, 1)))
    else:  # mixed magnitudes
        for _ in range(n):
            pts.append(tuple(rng.uniform(-1, 1) * 10.0 ** rng.randint(-12, 12) for _ in range(3)))
    return pts


def rands_for(rng, kind, twod):
    """the rand() values; the identity rotation (phi = psi = 0, z = 1) keeps the exact ties of 'ties'/'grid'/'plane'"""
    if kind in ('ties', 'grid', 'plane', 'dup') and rng.random() < 0.6:
        return [0] if twod else [0, RAND_MAX, 0]
    r = rng.random()
    if r < 0.1:
        vals = [rng.choice([0, 1, RAND_MAX, RAND_MAX - 1, RAND_MAX // 2, RAND_MAX // 4]) for _ in range(3)]
    else:
        vals = [rng.randint(0, RAND_MAX) for _ in range(3)]
    vals = vals[:1] if twod else vals
    r = rng.random()
    if r < 0.05:
        vals = vals[:-1]  # short stream: a missing value reads as 0
    elif r < 0.15:
        vals = vals + [rng.randint(0, RAND_MAX)]  # extra values are not consumed
    return vals


def count_split(rng, np, n):
    """how many of the n points each rank owns"""
    kind = rng.choice(['even', 'random', 'random', 'one', 'empty_rank', 'front', 'back'])
    if np == 1:
        return [n]
    if kind == 'even':
        c = [n // np + (1 if r < n % np else 0) for r in range(np)]
    elif kind == 'one':
        c = [0] * np
        c[rng.randrange(np)] = n
    elif kind == 'front':
        c = [0] * np
        c[0] = n
    elif kind == 'back':
        c = [0] * np
        c[np - 1] = n
    else:
        cuts = sorted(rng.randint(0, n) for _ in range(np - 1))
        c = [b - a for a, b in zip([0] + cuts, cuts + [n])]
        if kind == 'empty_rank':
            r = rng.randrange(np)
            q = (r + 1) % np
            c[q] += c[r]
            c[r] = 0
    return c


def build_world(rng, np, pts, ages=None, sparse_ids=False, p_ghost=0.25):
    """-> per-rank token lists; every rank lists its owned vertices and some ghost copies, in random slot order"""
    n = len(pts)
    counts = count_split(rng, np, n)
    ids = list(range(n))
    if sparse_ids:
        ids = sorted(rng.sample(range(3 * n + 5), n))
    rng.shuffle(ids)
    owner = []
    for r, c in enumerate(counts):
        owner += [r] * c
    ranks = [[] for _ in range(np)]
    for i, p in enumerate(pts):
        ranks[owner[i]].append((ids[i], owner[i], i))
        if np > 1 and rng.random() < p_ghost:
            for q in rng.sample(range(np), rng.randint(1, min(2, np - 1))):
                if q != owner[i]:
                    ranks[q].append((ids[i], owner[i], i))
    groups = []
    for r in range(np):
        rng.shuffle(ranks[r])
        g = []
        for (gid, o, i) in ranks[r]:
            f = [str(gid), str(o)]
            if ages is not None:
                f.append(str(ages[i] if o == r else rng.choice([0, 0, ages[i]])))
            # a ghost copy carries the owner's coordinates (they are not read by the partitioner)
            f += [dhex(c) for c in pts[i]]
            g.append(','.join(f))
        groups.append(g)
    return groups


# ---------------------------------------------------------------------------------------------------------
# generators
# ---------------------------------------------------------------------------------------------------------
def gen_fn(rng, tier, np):
    ncase = 36 if tier == 'quick' else 150
    ops = []
    for n in list(range(-2, 20)) + [100, 1001, 999999999, -7]:
        ops.append('ratio %d' % n)
    for _ in range(10 if tier == 'quick' else 40):
        twod = rng.random() < 0.3
        kind = rng.choice(KINDS)
        pts = points(rng, kind, rng.choice([0, 1, 2, 5, 9, 30]), twod)
        counts = count_split(rng, np, len(pts))
        if rng.random() < 0.5:
            t = [1.0, 0, 0, 0, 1.0, 0, 0, 0, 1.0]
        else:
            t = [rng.uniform(-1, 1) for _ in range(9)]
        groups, k = [], 0
        for c in counts:
            groups.append([','.join(dhex(x) for x in p) for p in pts[k:k + c]])
            k += c
        ops.append(line('splitdir', np, [dhex(x) for x in t], groups))
    for case in range(ncase):
        twod = rng.random() < 0.3
        kind = rng.choice(KINDS)
        r = rng.random()
        if r < 0.08:
            n = rng.randint(0, 3)
        elif r < 0.75:
            n = rng.randint(4, 60)
        elif r < 0.95:
            n = rng.randint(61, 300)
        else:
            n = rng.randint(301, 1200 if tier == 'quick' else 3000)
        pts = points(rng, kind, n, twod)
        r = rng.random()
        if np == 1:
            npart = rng.choice([0, 1, 1])
        elif r < 0.55:
            npart = np
        elif r < 0.9:
            npart = rng.randint(2, np)
        else:
            npart = rng.choice([-1, 0, 1])
        method = rng.choice([0, 0, 0, 5, 5, 1, 2, 3, 4]) if rng.random() < 0.97 else rng.choice([6, 7, 12])
        seed = rng.choice([0, 0, 1, 2, 3, 4, 5, rng.randint(0, 1000), 2000000000])
        rv = rands_for(rng, kind, twod)
        groups = build_world(rng, np, pts, sparse_ids=rng.random() < 0.3)
        ops.append(line('newpart', np, [method, npart, seed, int(twod), kind, len(rv)] + rv, groups))
    # malformed share: every one must print bad-op on both sides
    pts = points(rng, 'cloud', 6, False)
    good = build_world(rng, np, pts, p_ghost=0.0)
    hdr = [0, min(2, np), 0, 0, 'cloud', 3, 1, 2, 3]
    bad1 = [list(g) for g in good]
    bad1[0] = bad1[0] + ['7,0,zz']
    ops.append(line('newpart', np, hdr, bad1))
    bad2 = [list(g) for g in good]
    bad2[np - 1] = bad2[np - 1] + ['%d,%d,%s,%s,%s' % (999, np, dhex(0), dhex(0), dhex(0))]
    ops.append(line('newpart', np, hdr, bad2))
    if np > 1:
        bad3 = [list(g) for g in good]  # ghost of a vertex nobody owns
        bad3[0] = bad3[0] + ['%d,%d,%s,%s,%s' % (777, 1, dhex(0), dhex(0), dhex(0))]
        ops.append(line('newpart', np, hdr, bad3))
        ops.append(line('newpart', np, [0, np + 1, 0, 0, 'cloud', 0], good))  # npart > ref_mpi_n: outside the precondition
    ops.append(line('newpart', np, [0, 2, 0, 2, 'cloud', 0], good))
    ops.append('newpart %d 0 2' % np)
    return ops


def gen_balance(rng, tier, np):
    ncase = 14 if tier == 'quick' else 60
    ops = []
    for case in range(ncase):
        twod = rng.random() < 0.3
        kind = rng.choice(KINDS)
        n = rng.randint(0, 80) if rng.random() < 0.85 else rng.randint(81, 400)
        pts = points(rng, kind, n, twod)
        full = 1 if rng.random() < 0.5 else 0
        ages = [rng.choice([0, 0, 0, 1, 5, rng.randint(0, 400)]) for _ in range(n)]
        if full:
            nglobal = n + rng.choice([0, 0, 3])
        else:
            # the keep-small-grids-on-few-ranks heuristic: n_global / MAX(1000, 10*max_age) against np
            nglobal = max(n, rng.choice([n, 999, 1000, 1999, 2000, 2001, 1000 * np - 1, 1000 * np, 1000 * np + 1,
                                         rng.randint(0, 2000 * np), 10 * max(ages + [1]) * rng.randint(1, np + 1)]))
        method = rng.choice([0, 0, 5, 1, 3])
        seed = rng.choice([0, 1, 2, 3, 7, rng.randint(0, 1000)])
        rv = rands_for(rng, kind, twod)
        groups = build_world(rng, np, pts, ages=ages)
        ops.append(line('balance', np, [method, full, nglobal, seed, int(twod), kind, len(rv)] + rv, groups))
    return ops


# ---------------------------------------------------------------------------------------------------------
# oracles (the property, stated on the implementation's output)
# ---------------------------------------------------------------------------------------------------------
def parse_line(o):
    w = o.split()
    op, np = w[0], int(w[1])
    groups, cur, hdr = [], None, []
    for t in w[2:]:
        if t == '|':
            if cur is not None:
                groups.append(cur)
            cur = []
        elif cur is None:
            hdr.append(t)
        else:
            cur.append(t)
    if cur is not None:
        groups.append(cur)
    return op, np, hdr, groups


def split_res(r):
    if r in ('bad-op', 'hang'):
        return None
    return [x.split() for x in r.split(' | ')]


def tol_levels(npart):
    """|size - N/npart| of a part when every cut is exact and no value repeats: each level misses its target
    N*ratio by less than 2 (two truncations (REF_LONG)(total*ratio)), the later levels scale that by <= 2/3"""
    return 6.0


def oracle_fn(ops, impl):
    bad = []
    for i, (o, r) in enumerate(zip(ops, impl)):
        w = o.split()
        if w[0] == 'ratio':
            n = int(w[1])
            f = r.split()
            if n == 0:
                if f[0] != 'div_zero':
                    bad.append((i, 'split_ratio(0) must refuse: %s' % r))
            elif n > 0:
                half = n // 2
                if f[0] != 'ok' or hexd(f[1]) != half / n:
                    bad.append((i, 'split_ratio(%d) = %s, expected %r' % (n, r, half / n)))
            continue
        res = split_res(r)
        if res is None:
            continue
        op, np, hdr, groups = parse_line(o)
        if op == 'splitdir':
            if len({tuple(x) for x in res}) != 1 or res[0][0] != 'ok' or res[0][1] not in ('0', '1', '2'):
                bad.append((i, 'split_dir: ranks disagree or direction out of range: %s' % r))
            continue
        if op != 'newpart':
            continue
        method, npart, seed, twod, kind = int(hdr[0]), int(hdr[1]), int(hdr[2]), int(hdr[3]), hdr[4]
        if method >= 6 and np > 1 and npart >= 2:
            if any(x[0] != 'implement' for x in res):
                bad.append((i, 'unknown partitioner must give REF_IMPLEMENT: %s' % r[:200]))
            continue
        if any(x[0] != 'ok' for x in res):
            bad.append((i, 'new_part / ghost_int failed on a valid world: %s' % r[:200]))
            continue
        nodes = [[t.split(',') for t in g] for g in groups]
        parts = [[int(p) for p in x[3:]] for x in res]
        if any(len(parts[q]) != len(nodes[q]) for q in range(np)):
            bad.append((i, 'part array length differs from the number of stored vertices'))
            continue
        single = np == 1 or npart < 2 or method == 1
        hi = 1 if single else npart
        newpart = {}
        for q in range(np):
            for nd, p in zip(nodes[q], parts[q]):
                if int(nd[1]) == q:
                    if not 0 <= p < hi:
                        bad.append((i, 'owned vertex %s on rank %d got part %d, not in [0,%d)' % (nd[0], q, p, hi)))
                    newpart[int(nd[0])] = p
        for q in range(np):
            for nd, p in zip(nodes[q], parts[q]):
                if int(nd[1]) != q and newpart.get(int(nd[0])) != p:
                    bad.append((i, 'ghost copy of vertex %s on rank %d has part %d, its owner says %s' %
                                (nd[0], q, p, newpart.get(int(nd[0])))))
        if len({x[1] for x in res}) != 1:
            bad.append((i, 'ranks disagree on the partitioner seed afterwards'))
        if not single:
            n = len(newpart)
            sizes = [0] * npart
            for p in newpart.values():
                if 0 <= p < npart:
                    sizes[p] += 1
            if kind == 'cloud' and n >= 8 * npart:
                # generic position, exact cuts: every part within the tolerance of N/npart, in particular non-empty
                for p, s in enumerate(sizes):
                    if abs(s - n / npart) > tol_levels(npart):
                        bad.append((i, 'part %d has %d of %d vertices (npart %d): off target by more than %g' %
                                    (p, s, n, npart, tol_levels(npart))))
        if len(bad) > 20:
            break
    return bad


def oracle_balance(ops, impl):
    bad = []
    for i, (o, r) in enumerate(zip(ops, impl)):
        res = split_res(r)
        if res is None:
            continue
        op, np, hdr, groups = parse_line(o)
        if any(x[0] != 'ok' for x in res):
            bad.append((i, 'ref_migrate_to_balance failed on a valid world: %s' % r[:200]))
            continue
        owned = set()
        for q, g in enumerate(groups):
            for t in g:
                f = t.split(',')
                if int(f[1]) == q:
                    owned.add(int(f[0]))
        seen = {}
        for q, x in enumerate(res):
            for t in x[1:]:
                gid, p = (int(v) for v in t.split(':'))
                if not 0 <= p < np:
                    bad.append((i, 'vertex %d on rank %d has part %d outside [0,%d)' % (gid, q, p, np)))
                if gid in seen:
                    bad.append((i, 'vertex %d stored twice after the migration of a grid without cells' % gid))
                seen[gid] = p
                if p != q:
                    bad.append((i, 'vertex %d is stored on rank %d but its part is %d (no cell needs a ghost)' % (gid, q, p)))
        if set(seen) != owned:
            bad.append((i, 'vertices lost or invented by the migration: %d before, %d after' % (len(owned), len(seen))))
        full, nglobal = int(hdr[1]), int(hdr[2])
        if not full and nglobal < 2000 and any(p != 0 for p in seen.values()):
            bad.append((i, 'a grid of fewer than 2000 vertices must stay on rank 0 without REF_VERIF_PARTITIONER_FULL'))
    return bad


# ---------------------------------------------------------------------------------------------------------
# real runs: ref_migrate_to_balance on generated grids (harness h_dist, driver `dist validate`)
# ---------------------------------------------------------------------------------------------------------
def gen_run(rng, tier, np):
    import os
    from . import meshgen, pyio
    nruns = 2 if tier == 'quick' else 5
    ops = []
    for k in range(nruns):
        mseed = rng.randrange(1 << 30)
        mr = random.Random(mseed)
        path = os.path.join(streams_dist._tmpdir(), 'rcb_%d_%d_%d.meshb' % (np, k, mseed))
        if rng.random() < 0.7:
            n = rng.choice([(2, 2, 2), (3, 2, 2), (3, 3, 2), (4, 3, 2), (4, 1, 1)])
            v, t, s = meshgen.box_tets(n[0], n[1], n[2], mr, rng.choice([0.0, 0.2]), (1.0, 1.0, 1.0),
                                       rng.choice(['sides', 'one', 'split']))
            pyio.write_meshb(path, 3, v, {'tet': t, 'tri': s})
        else:
            n = rng.choice([(3, 3), (4, 3), (6, 2), (5, 5)])
            v, t, e = meshgen.square_tris(n[0], n[1], mr, rng.choice([0.0, 0.2]), (1.0, 1.0), 'sides')
            pyio.write_meshb(path, 2, v, {'tri': t, 'edg': e})
        # repeated balancing: every call consumes rand() and bumps the partitioner seed (ratio shift 0, 1/3, 2/3)
        steps = ['bal'] * rng.randint(3, 6)
        if rng.random() < 0.5:
            steps.insert(rng.randint(1, len(steps)), 'ghost')
        ops.append('run %d %s %d %s' % (np, path, mseed, ' '.join(steps)))
    return ops


def _nontrivial(op, out):
    return out not in ('bad-op', 'hang') and 'ok' in out


def _mk(name, gen, oracle, nps, thorough_only=False):
    s = Stream(name, 'h_rcb', 'rcb', gen, oracle=oracle, np=nps, whitebox=('ref_migrate',), timeout=280,
               nontrivial=_nontrivial, session='\x00none', batches={'quick': 1, 'thorough': 3})
    s.thorough_only = thorough_only
    s.ops_file = True
    return s


def _mk_run(name, nps, thorough_only=False):
    s = Stream(name, 'h_dist', 'dist', gen_run, oracle=streams_dist.oracle_run, kind='validate', np=nps,
               driver_args=('validate',), timeout=290, nontrivial=streams_dist._nontrivial, session='run',
               env={'REF_VERIF_PARTITIONER_FULL': '1'}, batches={'quick': 1, 'thorough': 2})
    s.thorough_only = thorough_only
    s.ops_file = True
    return s


FN = _mk('rcb_fn', gen_fn, oracle_fn, NP_QUICK)
BALANCE = _mk('rcb_balance', gen_balance, oracle_balance, NP_QUICK)
RUN = _mk_run('rcb_run', [2, 3, 4, 5, 8])
FN_MORE = _mk('rcb_fn_more', gen_fn, oracle_fn, NP_MORE, True)
BALANCE_MORE = _mk('rcb_balance_more', gen_balance, oracle_balance, NP_MORE, True)
RUN_MORE = _mk_run('rcb_run_more', NP_MORE, True)
STREAMS = [FN, BALANCE, RUN, FN_MORE, BALANCE_MORE, RUN_MORE]
