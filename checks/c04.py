"""C04 — parallel adaptation is as safe as serial; the gathered output has every vertex and cell exactly once."""
from . import cli, streams_par, streams_subdiv, streams_rcb

ID = 'C04'
PROPS_MODULE = ['Refine.Props.C04', 'Refine.Props.C13Subdiv', 'Refine.Props.C04Rcb']
STREAMS = [streams_par.GUARDS, streams_par.GATHER_NODE, streams_par.GATHER_CELL, streams_par.GATHER_FILE,
           streams_par.ADAPT_ALL_NP, streams_subdiv.FN,
           cli.ADAPT_MPI, cli.ADAPT_MPI_WIDE] + streams_rcb.STREAMS
# the all-np stream already covers np = 2,3,4 in the quick tier; the two wider cli streams run in the thorough tier
cli.ADAPT_MPI.thorough_only = True
EXPLANATION = (
    'Proved in Lean 4 about the executable model Refine.Model.Par: (a) the four ownership guards '
    '(ref_cell_local_gem, ref_swap_local_cell, ref_smooth_local_cell_about, ref_collapse_edge_local_cell; control '
    'flow copied incl. early exits) answer true exactly when every cell of the set the kernel touches - cells '
    'containing both edge nodes for split/swap, tets and triangles around either end for collapse, the ball of the '
    'node for smoothing - has all its nodes owned by the calling rank (local_gem_sound, swap_local_sound, '
    'smooth_local_sound, collapse_local_sound); hence for ranks r != q that agree on the partition the cells '
    'modified in one sweep are disjoint, no cell modified by r is stored on q under the storage rule (no ghost copy '
    'goes stale) and a modified cell has no ghost vertex (ownership_disjoint, sweep_disjoint). (b) ref_gather_node: '
    'if every global id in [0,N) is owned by exactly one rank then for every chunk size >= 1 (i.e. '
    'reduce_byte_limit <= 0 or >= 32), every rank count and partition each slot has hit count 1, the call succeeds '
    'and rank 0 writes the owners\' payloads in global order 0..N-1; it reports "node used more or less than once" '
    'exactly when some id has 0 or >= 2 owners (gathered_vertices_once, gathered_vertices_checked); ref_gather_cell '
    'with the ref_cell_part owner rule emits every cell of the global mesh exactly once and ref_cell_ncell counts '
    'them (gathered_cells_once). (c) generated from the sources on every run: no MPI_ANY_SOURCE / MPI_ANY_TAG / '
    'MPI_Probe / MPI_Iprobe / MPI_Waitany (no_wildcard_receive), so the collective specifications of C17 do not '
    'depend on message arrival order. The model is tied to the C by differential execution: the real guards on '
    'random local configurations (serial harness, ref_mpi->id = me), the real static ref_gather_node / '
    'ref_gather_cell / ref_cell_ncell and the public ref_gather_by_extension (.meshb, read back by the harness) under '
    'mpiexec at np = 1,2,3,4,5,8 on generated worlds (every chunk size, empty ranks, np > N, duplicated / missing '
    'owners). End to end (no model side): refmpi adapt at np = 1,2,3,4,5,8 '
    'with every available partitioner, REF_VERIF_PARTITIONER_FULL, both alltoallv implementations and small reduce '
    'limits; exit status, a wall-time bound per run, and the C01 validity (no unused or duplicated vertex, no '
    'duplicated cell, conformity, positive volumes) and C02 domain oracles on the gathered output. '
    '(d) ref_subdiv, which splits the edges whose cells span partitions: the refinement of a tet face is the triangle '
    'template of the face\'s side marks only - it does not depend on which tet, local vertex order or rank the face '
    'is seen from and reverses with the face (subdiv_tet_conforming, subdiv_face_reverse, subdiv_face_rotate, '
    'tet_face_marks), and children keep orientation and total volume (subdiv_tet_volume, subdiv_tet_orientation); '
    'tied serially by stream subdiv_fn (see C13). '
    '(e) the load balancer (Refine.Model.Rcb, Refine.Props.C04Rcb): ref_migrate_new_part / ref_migrate_native_rcb_part / '
    'the recursive ref_migrate_native_rcb_direction with ref_migrate_split_dir, ref_migrate_split_ratio, '
    'ref_search_selection, ref_mpi_balance, ref_mpi_front_comm, the leaf ref_mpi_blindsend and the rand()-derived '
    'rotation are modelled (well-founded recursion on npart, no fuel). Proved for every rank count, every number of '
    'vertices per rank (empty ranks), every rand stream, seed and direction, with npart <= ref_mpi_n (rcb_npart_le: '
    'what ref_migrate_to_balance passes) and fewer than 2^31 vertices: the call returns on every rank, every rank '
    'ends in exactly one leaf, no point is lost or duplicated by the copy loop / balance for ANY selection result '
    '(rcb_partition_of_points, rcb_level), part ids lie in [offset, offset+npart) with the two halves on disjoint '
    'adjacent ranges and every id used (rcb_total_in_range), every owned slot of node_part is written exactly once '
    'with an id in [0,npart) and the other slots keep REF_EMPTY, so the range check of '
    'ref_migrate_report_load_balance never fires (rcb_part_total, rcb_new_part_ok, rcb_single_cases); split_ratio '
    'and termination (rcb_ratio); half sizes up to the ties at the cut values given exact k-th values '
    '(rcb_balanced_partial; with the truncated positions the C computes half 0 is within 2 plus the surplus ties of '
    'N*npart0/npart: rcb_balanced_target_partial); the part of a vertex is a function of its coordinates and of the multiset of owned '
    'coordinates, the rand stream, seed and np - not of the distribution over ranks, the order on a rank or slot '
    'labels (rcb_cut_data_only, rcb_deterministic_in_data, rcb_equal_points_same_part, rcb_part_deterministic for the '
    'node_part arrays). Tie: streams rcb_fn '
    '(white-box static ref_migrate_new_part + ref_node_ghost_int, ref_migrate_split_dir, ref_migrate_split_ratio; '
    'libc rand() replaced in the harness so the stream is an input) and rcb_balance (the real ref_migrate_to_balance '
    'on grids without cells, incl. the keep-small-grids-on-few-ranks heuristic) at np = 1,2,3,4,5,8: part arrays '
    'identical to the model bit for bit; rcb_run: real grids, repeated ref_migrate_to_balance, distInv evaluated on '
    'the migrate_shufflin dumps (parts in range, owner and ghost copies agree).')
ASSUMPTIONS = [
    'the ranks agree on part for every node they both store (distInv clause; ghost part refresh is package dist / C06)',
    'the kernels modify only cells of the set named in the guard theorems (split/swap: cells containing both edge '
    'nodes; collapse: cells around node0 or node1; smooth: the ball) - tied by C13/C01 streams, not proved here',
    'ref_collapse_edge_local_cell does not test the edg group: an edg cell around the collapsed node is assumed to be '
    'a side of a tested triangle',
    'cavity PARTITION_CONSTRAINED transitions, ref_migrate_to_balance and ref_grid_pack are covered only by the '
    'end-to-end adapt streams (and package dist), not by theorems here; ref_subdiv: the templates are proved consistent '
    'across a shared face given equal marks on the shared edges - that the ranks do hold equal marks and the same new '
    'vertex per edge after ref_edge_ghost_int / _ghost_min_int / ref_subdiv_new_node is NOT modelled (end-to-end only)',
    'deadlock freedom is tested (wall-time bound on every MPI run), not proved; no_wildcard_receive removes message '
    'races as a source of schedule dependence',
    'hit counts are modelled as Nat; the C adds the doubles 0.0 / 1.0 (exact below 2^53 ranks)',
    'payload addition only needs 0 + x = x = x + 0; for IEEE doubles this holds bit-for-bit except that a coordinate '
    '-0.0 is written as +0.0 when np > 1 (MPI_SUM with the other ranks\' +0.0)',
    'only ParMETIS-/Zoltan-free partitioners exist in this build (recommended, single, native RCB)',
    'load balancer: the xyz/owners/locals arrays balanced by three ref_mpi_balance calls of equal counts travel as one '
    'record in the model, the two leaf blindsends as one pair; ref_mpi_front_comm is take/drop of the rank list; the '
    'balance claim assumes exact k-th values from ref_search_selection (C17 proves only the 2^-40 bracket) and is up to '
    'ties; |coordinates| < 1e200 (REF_DBL_MAX sentinels) in the generated inputs; the ghost refresh of the part '
    'array is the model Dist.ghost (tied here by diff, its exchange is not proved - C06); ref_migrate_shufflin is not '
    'modelled here (C06): for rcb_balance the driver predicts that on a grid without cells rank r ends with exactly '
    'the vertices whose new part is r',
    'C integer arithmetic is modelled with unbounded Int/Nat (no 32-bit wrap-around of chunk or global ids)',
]
