"""streams of the formats work package (C08 text mesh formats, C09 .rst/.snap fields, C20 malformed text / binary input,
mapbc).

Harness `h_formats` (real refine readers/writers, every call in a forked child) vs driver `formats` (Lean models
Refine.Model.Formats, FormatsBin, FormatsMapbc).  The oracles use the independent writers / parsers below (written from
the format descriptions: AFLR3 UGRID ASCII, FAST fgrid, SU2 mesh file, Gmsh MSH 4.1, COFFE .rst, FUN3D .snap, FUN3D
.mapbc) and never the Lean model.  A FILE travels as tokens: `i:<int>` `f:<16 hex>` (a double, written %.17g) `w:<text>`
`x:<hex of raw text>` `g:<hex of raw text>:<16 hex>` `n:` (newline) `r:` (CR LF), or `b:<hex>` for a binary file.
"""
import struct
import subprocess

from .common import Stream, REFDRV
from .streams_codec import dbits, fmt
from . import streams_ugrid as SU

KINDS = ['edg', 'tri', 'qua', 'tet', 'pyr', 'pri', 'hex']
PER = {'edg': 2, 'tri': 3, 'qua': 4, 'tet': 4, 'pyr': 5, 'pri': 6, 'hex': 8}
TAGGED = {'edg', 'tri', 'qua'}
Z = '0000000000000000'
ONE = '3ff0000000000000'

SITE_MSH_TOKEN = 'msh-token-buffer-overflow'
SITE_INDEX = 'import-vertex-index-unchecked'
SITE_PREALLOC = 'tri-fgrid-vertices-allocated-before-read'
SITE_R8 = 'r8-ugrid-record-size-overflow'
SITE_RST = 'rst-header-counts-trusted'
SITE_SNAP = 'snap-field-count-trusted'
SITE_PLT = 'plt-zone-size-trusted'
SITE_SNAP_BCAST = 'snap-nnode-bcast-as-int'
SITE_MSH_O2N = 'msh-export-skips-renumbering'
SITE_MSH_FLIP = 'msh-roundtrip-reverses-faces'
SITE_SU2_TAG = 'su2-marker-tag-ignored'
SITE_SU2_NOBND = 'su2-export-no-marker-overflow'


# ------------------------------------------------------------------------------------------------
# tokens
# ------------------------------------------------------------------------------------------------
def ti(n):
    return 'i:%d' % n


def tf(h):
    return 'f:' + h


def tw(s):
    return 'w:' + s


def tx(s):
    return 'x:' + s.encode().hex()


def tg(s, h):
    return 'g:' + s.encode().hex() + ':' + h


NL = 'n:'


def line(*toks):
    return list(toks) + [NL]


def pieces(toks):
    """the blank-separated pieces of a token file, line ends dropped"""
    return [t for t in toks if t not in ('n:', 'r:')]


def lines_of(toks):
    out, cur = [], []
    for t in toks:
        if t in ('n:', 'r:'):
            out.append(cur)
            cur = []
        else:
            cur.append(t)
    if cur:
        out.append(cur)
    return out


def tok_int(t):
    if t.startswith('i:'):
        return int(t[2:])
    raise ValueError('not an integer: %s' % t[:20])


def tok_dbl(t):
    """bit pattern (16 hex) of a number token"""
    if t.startswith('f:'):
        return t[2:]
    if t.startswith('i:'):
        return struct.pack('>d', float(int(t[2:]))).hex()
    raise ValueError('not a number: %s' % t[:20])


# ------------------------------------------------------------------------------------------------
# meshes
# ------------------------------------------------------------------------------------------------
def coord(rng, plain=True):
    return SU.coord(rng, plain)


def gen_mesh(rng, kinds=None, twod=False, holes=False, ids=None, allused=False):
    """{'twod', 'slots', 'cells'}: boundary faces over node set A, volume cells over the disjoint set B (no face of a
    volume cell is a boundary face: ref_grid_inward_boundary_orientation has nothing to flip)"""
    ns = rng.choice([9, 12, 17, 24])
    slots = []
    for _ in range(ns):
        if holes and rng.random() < 0.15:
            slots.append(None)
        else:
            slots.append((coord(rng), coord(rng), Z if twod else coord(rng)))
    live = [i for i, s in enumerate(slots) if s is not None]
    while len(live) < 9:
        i = rng.choice([j for j in range(ns) if slots[j] is None])
        slots[i] = (coord(rng), coord(rng), Z if twod else coord(rng))
        live = [j for j, s in enumerate(slots) if s is not None]
    rng.shuffle(live)
    cut = rng.randint(4, len(live) - 4)
    a, b = live[:cut], live[cut:]
    kinds = KINDS if kinds is None else kinds
    base = rng.choice([1, 1, 1, 3, 0, -2, 1000]) if ids is None else ids
    cells = {k: [] for k in KINDS}
    for k in kinds:
        pool = live if twod else (a if k in TAGGED else b)
        n = rng.choice([1, 2, 3, 5])
        rows, seen = [], set()
        for _ in range(n):
            for _try in range(50):
                r = rng.sample(pool, PER[k]) if len(pool) >= PER[k] else [rng.choice(pool) for _ in range(PER[k])]
                if frozenset(r) not in seen:
                    break
            if frozenset(r) in seen:
                continue
            seen.add(frozenset(r))
            if k in TAGGED:
                r = r + [base + rng.randint(0, 3)]
            rows.append(r)
        cells[k] = rows
    if allused:
        used = {x for k in KINDS for r in cells[k] for x in r[:PER[k]]}
        slots = [s if i in used else None for i, s in enumerate(slots)]
    return {'twod': twod, 'slots': slots, 'cells': cells}


def mesh_words(m):
    w = ['twod', '1' if m['twod'] else '0', 'n', '%d' % len(m['slots'])]
    for s in m['slots']:
        if s is None:
            w.append('-')
        else:
            w.extend(s)
    for k in KINDS:
        rows = m['cells'][k]
        w += [k, '%d' % len(rows)]
        for r in rows:
            w += ['%d' % x for x in r]
    return w


def parse_mesh_words(w):
    assert w[0] == 'twod' and w[2] == 'n'
    twod = w[1] == '1'
    ns = int(w[3])
    k = 4
    slots = []
    for _ in range(ns):
        if w[k] == '-':
            slots.append(None)
            k += 1
        else:
            slots.append((w[k], w[k + 1], w[k + 2]))
            k += 3
    cells = {}
    for kd in KINDS:
        assert w[k] == kd
        nc = int(w[k + 1])
        k += 2
        sp = PER[kd] + (1 if kd in TAGGED else 0)
        cells[kd] = [[int(x) for x in w[k + sp * i:k + sp * (i + 1)]] for i in range(nc)]
        k += sp * nc
    assert k == len(w)
    return {'twod': twod, 'slots': slots, 'cells': cells}


def compact(m):
    """what a writer has to store: vertices renumbered without the removed slots"""
    o2n, nodes = {}, []
    for i, s in enumerate(m['slots']):
        if s is not None:
            o2n[i] = len(nodes)
            nodes.append(s)
    cells = {k: [[o2n[x] for x in r[:PER[k]]] + r[PER[k]:] for r in m['cells'][k]] for k in KINDS}
    return {'twod': m['twod'], 'nodes': nodes, 'cells': cells}


def dump_of(c):
    w = ['ok', 'twod', '1' if c['twod'] else '0', 'n', '%d' % len(c['nodes'])]
    for n in c['nodes']:
        w += [fmt(h) for h in n]
    for k in KINDS:
        rows = c['cells'].get(k) or []
        w += [k, '%d' % len(rows)]
        for r in rows:
            w += ['%d' % x for x in r]
    return ' '.join(w)


def parse_dump(r):
    """`ok twod T n N xyz.. edg N rows ..` -> compact mesh (None if it is not a dump)"""
    w = r.split()
    if len(w) < 5 or w[0] != 'ok' or w[1] != 'twod' or w[3] != 'n':
        return None
    n = int(w[4])
    k = 5
    nodes = [tuple(w[k + 3 * i:k + 3 * i + 3]) for i in range(n)]
    k += 3 * n
    cells = {}
    for kd in KINDS:
        if k >= len(w) or w[k] != kd:
            return None
        nc = int(w[k + 1])
        k += 2
        sp = PER[kd] + (1 if kd in TAGGED else 0)
        cells[kd] = [[int(x) for x in w[k + sp * i:k + sp * (i + 1)]] for i in range(nc)]
        k += sp * nc
    return {'twod': w[2] == '1', 'nodes': nodes, 'cells': cells}


def diff_at(a, b):
    wa, wb = a.split(), b.split()
    for i, (x, y) in enumerate(zip(wa, wb)):
        if x != y:
            return 'token %d: %s vs %s' % (i, x, y)
    return 'length %d vs %d' % (len(wa), len(wb))


def by_tag(rows, per):
    return sorted(rows, key=lambda r: r[per])


EMPTY = {k: [] for k in KINDS}


# ------------------------------------------------------------------------------------------------
# independent writers (-> tokens, fields) and parsers (tokens -> compact mesh), one pair per format.
# fields: (kind, position in the token list) with kind in count / index / coord / id / type / key
# ------------------------------------------------------------------------------------------------
class TFile:
    def __init__(self):
        self.toks = []
        self.fields = []

    def put(self, kind, tok):
        if kind:
            self.fields.append((kind, len(self.toks)))
        self.toks.append(tok)

    def nl(self):
        self.toks.append(NL)

    def conn(self, rows, per, base=1, lead=None, trail=()):
        for r in rows:
            if lead is not None:
                self.put('type', ti(lead))
            for x in r[:per]:
                self.put('index', ti(x + base))
            for t in trail:
                self.put(None, ti(t))
            self.nl()


def write_ugrid(c):
    """ASCII AFLR3: counts; xyz; tri; quad; tri ids; quad ids; tet; pyramid; prism; hex (1-based)"""
    f = TFile()
    for n in [len(c['nodes'])] + [len(c['cells'][k]) for k in ('tri', 'qua', 'tet', 'pyr', 'pri', 'hex')]:
        f.put('count', ti(n))
    f.nl()
    for n in c['nodes']:
        for h in n:
            f.put('coord', tf(h))
        f.nl()
    f.conn(c['cells']['tri'], 3)
    f.conn(c['cells']['qua'], 4)
    for k in ('tri', 'qua'):
        for r in c['cells'][k]:
            f.put('id', ti(r[PER[k]]))
            f.nl()
    for k in ('tet', 'pyr', 'pri', 'hex'):
        f.conn(c['cells'][k], PER[k])
    return f


def parse_ugrid(toks):
    p = pieces(toks)
    cnt = [tok_int(t) for t in p[:7]]
    if any(x < 0 for x in cnt):
        raise ValueError('negative count')
    k = 7
    nodes = [tuple(tok_dbl(t) for t in p[k + 3 * i:k + 3 * i + 3]) for i in range(cnt[0])]
    if any(len(n) != 3 for n in nodes):
        raise ValueError('short')
    k += 3 * cnt[0]
    cells = {kd: [] for kd in KINDS}
    for kd, n in (('tri', cnt[1]), ('qua', cnt[2])):
        for _ in range(n):
            cells[kd].append([tok_int(t) - 1 for t in p[k:k + PER[kd]]])
            k += PER[kd]
    for kd, n in (('tri', cnt[1]), ('qua', cnt[2])):
        for r in cells[kd]:
            r.append(tok_int(p[k]))
            k += 1
    for kd, n in (('tet', cnt[3]), ('pyr', cnt[4]), ('pri', cnt[5]), ('hex', cnt[6])):
        for _ in range(n):
            cells[kd].append([tok_int(t) - 1 for t in p[k:k + PER[kd]]])
            k += PER[kd]
    if k != len(p):
        raise ValueError('size')
    check_rows(cells, len(nodes))
    return {'twod': False, 'nodes': nodes, 'cells': cells}


def check_rows(cells, nnode):
    for kd in KINDS:
        for r in cells[kd]:
            if len(r) != PER[kd] + (1 if kd in TAGGED else 0):
                raise ValueError('short row')
            if any(not 0 <= x < nnode for x in r[:PER[kd]]):
                raise ValueError('vertex index outside 1..nnode')


def write_tri(c):
    f = TFile()
    f.put('count', ti(len(c['nodes'])))
    f.put('count', ti(len(c['cells']['tri'])))
    f.nl()
    for n in c['nodes']:
        for h in n:
            f.put('coord', tf(h))
        f.nl()
    f.conn(c['cells']['tri'], 3)
    for r in c['cells']['tri']:
        f.put('id', ti(r[3]))
        f.nl()
    return f


def parse_tri(toks):
    p = pieces(toks)
    nn, nt = tok_int(p[0]), tok_int(p[1])
    if nn < 0 or nt < 0:
        raise ValueError('negative count')
    k = 2
    nodes = [tuple(tok_dbl(t) for t in p[k + 3 * i:k + 3 * i + 3]) for i in range(nn)]
    k += 3 * nn
    cells = {kd: [] for kd in KINDS}
    for _ in range(nt):
        cells['tri'].append([tok_int(t) - 1 for t in p[k:k + 3]])
        k += 3
    for r in cells['tri']:
        r.append(tok_int(p[k]))
        k += 1
    if k != len(p) or any(len(n) != 3 for n in nodes):
        raise ValueError('size')
    check_rows(cells, nn)
    return {'twod': False, 'nodes': nodes, 'cells': cells}


def write_fgrid(c):
    """FAST formatted grid: nnode ntri ntet; all x, all y, all z; triangles; triangle ids; tets"""
    f = TFile()
    for n in (len(c['nodes']), len(c['cells']['tri']), len(c['cells']['tet'])):
        f.put('count', ti(n))
    f.nl()
    for j in range(3):
        for n in c['nodes']:
            f.put('coord', tf(n[j]))
            f.nl()
    f.conn(c['cells']['tri'], 3)
    for r in c['cells']['tri']:
        f.put('id', ti(r[3]))
        f.nl()
    f.conn(c['cells']['tet'], 4)
    return f


def parse_fgrid(toks):
    p = pieces(toks)
    nn, nt, nv = (tok_int(t) for t in p[:3])
    if nn < 0 or nt < 0 or nv < 0:
        raise ValueError('negative count')
    k = 3
    col = [tok_dbl(t) for t in p[k:k + 3 * nn]]
    if len(col) != 3 * nn:
        raise ValueError('short')
    nodes = [(col[i], col[nn + i], col[2 * nn + i]) for i in range(nn)]
    k += 3 * nn
    cells = {kd: [] for kd in KINDS}
    for _ in range(nt):
        cells['tri'].append([tok_int(t) - 1 for t in p[k:k + 3]])
        k += 3
    for r in cells['tri']:
        r.append(tok_int(p[k]))
        k += 1
    for _ in range(nv):
        cells['tet'].append([tok_int(t) - 1 for t in p[k:k + 4]])
        k += 4
    if k != len(p):
        raise ValueError('size')
    check_rows(cells, nn)
    return {'twod': False, 'nodes': nodes, 'cells': cells}


def write_surf(c):
    """AFLR surf: ntri nquad nnode; `x y z spacing` per vertex; `a b c id 0 1` per triangle; `a b c d id 0 1` per quad"""
    f = TFile()
    for n in (len(c['cells']['tri']), len(c['cells']['qua']), len(c['nodes'])):
        f.put('count', ti(n))
    f.nl()
    for i, n in enumerate(c['nodes']):
        for h in n:
            f.put('coord', tf(h))
        if i % 2:
            f.put(None, tf(ONE))
        f.nl()
    for k in ('tri', 'qua'):
        for r in c['cells'][k]:
            for x in r[:PER[k]]:
                f.put('index', ti(x + 1))
            f.put('id', ti(r[PER[k]]))
            f.put(None, ti(0))
            f.put(None, ti(1))
            f.nl()
    return f


def parse_surf(toks):
    ls = lines_of(toks)
    nt, nq, nn = (tok_int(t) for t in ls[0][:3])
    if min(nt, nq, nn) < 0 or len(ls) != 1 + nn + nt + nq:
        raise ValueError('size')
    nodes = [tuple(tok_dbl(t) for t in l[:3]) for l in ls[1:1 + nn]]
    cells = {kd: [] for kd in KINDS}
    for l in ls[1 + nn:1 + nn + nt]:
        cells['tri'].append([tok_int(t) - 1 for t in l[:3]] + [tok_int(l[3])])
    for l in ls[1 + nn + nt:]:
        cells['qua'].append([tok_int(t) - 1 for t in l[:4]] + [tok_int(l[4])])
    if any(len(n) != 3 for n in nodes):
        raise ValueError('short')
    check_rows(cells, nn)
    return {'twod': False, 'nodes': nodes, 'cells': cells}


# SU2 uses the VTK element types and node orders; refine keeps the UGRID order for pyramids and prisms
VTK = {'tet': 10, 'pyr': 14, 'pri': 13, 'hex': 12, 'tri': 5, 'qua': 9, 'edg': 3}
# ugrid pyramid: base 0-3-4-1 apex 2; VTK pyramid: base 0-1-2-3 apex 4 with the opposite base orientation:
# vtk = (u1, u0, u3, u4, u2);  ugrid prism 0-1-2 / 3-4-5, VTK wedge = (u1, u0, u2, u4, u3, u5)
PYR_TO_VTK = [1, 0, 3, 4, 2]
PRI_TO_VTK = [1, 0, 2, 4, 3, 5]


def inv(p):
    q = [0] * len(p)
    for i, x in enumerate(p):
        q[x] = i
    return q


def write_su2(c, tags=None):
    """SU2 native mesh: NDIME, NPOIN + coordinates, NELEM + `type nodes` (0-based), NMARK + MARKER_TAG / MARKER_ELEMS.
    tags: the marker names in file order (default: the ids present, ascending)"""
    f = TFile()
    twod = c['twod']
    f.put('key', tw('NDIME='))
    f.put(None, ti(2 if twod else 3))
    f.nl()
    f.put('key', tw('NPOIN='))
    f.put('count', ti(len(c['nodes'])))
    f.nl()
    for n in c['nodes']:
        for h in (n[:2] if twod else n):
            f.put('coord', tf(h))
        f.nl()
    vol = ('tri', 'qua') if twod else ('tet', 'pyr', 'pri', 'hex')
    f.put('key', tw('NELEM='))
    f.put('count', ti(sum(len(c['cells'][k]) for k in vol)))
    f.nl()
    for k in vol:
        for r in c['cells'][k]:
            nodes = r[:PER[k]]
            if k == 'pyr':
                nodes = [nodes[i] for i in PYR_TO_VTK]
            if k == 'pri':
                nodes = [nodes[i] for i in PRI_TO_VTK]
            f.put('type', ti(VTK[k]))
            for x in nodes:
                f.put('index', ti(x))
            f.nl()
    bnd = ('edg',) if twod else ('tri', 'qua')
    ids = sorted({r[PER[k]] for k in bnd for r in c['cells'][k]}) if tags is None else tags
    f.put('key', tw('NMARK='))
    f.put('count', ti(len(ids)))
    f.nl()
    for t in ids:
        f.put('key', tw('MARKER_TAG='))
        f.put('tag', ti(t))
        f.nl()
        f.put('key', tw('MARKER_ELEMS='))
        f.put('count', ti(sum(1 for k in bnd for r in c['cells'][k] if r[PER[k]] == t)))
        f.nl()
        for k in bnd:
            for r in c['cells'][k]:
                if r[PER[k]] == t:
                    f.put('type', ti(VTK[k]))
                    for x in r[:PER[k]]:
                        f.put('index', ti(x))
                    f.nl()
    return f


def parse_su2(toks, by_name=True):
    """by_name: a marker's id is the integer its MARKER_TAG names (what the file says); else its position 1, 2, .."""
    ls = [l for l in lines_of(toks) if l]
    k = 0

    def key(name):
        nonlocal k
        l = ls[k]
        if l[0] != 'w:' + name + '=' or len(l) != 2:
            raise ValueError('expected %s' % name)
        k += 1
        return tok_int(l[1])
    ndime = key('NDIME')
    if ndime not in (2, 3):
        raise ValueError('NDIME')
    twod = ndime == 2
    npoin = key('NPOIN')
    nodes = []
    for l in ls[k:k + npoin]:
        if len(l) != ndime:
            raise ValueError('coordinates')
        nodes.append(tuple(tok_dbl(t) for t in l) + ((Z,) if twod else ()))
    k += npoin
    cells = {kd: [] for kd in KINDS}
    rev = {v: kd for kd, v in VTK.items()}

    def elem(l, tag):
        kd = rev.get(tok_int(l[0]))
        if kd is None or len(l) != 1 + PER[kd]:
            raise ValueError('element')
        nodes_ = [tok_int(t) for t in l[1:]]
        if kd == 'pyr':
            nodes_ = [nodes_[i] for i in inv(PYR_TO_VTK)]
        if kd == 'pri':
            nodes_ = [nodes_[i] for i in inv(PRI_TO_VTK)]
        cells[kd].append(nodes_ + ([tag] if kd in TAGGED else []))
    nelem = key('NELEM')
    for l in ls[k:k + nelem]:
        elem(l, 0)
    k += nelem
    nmark = key('NMARK')
    for m in range(nmark):
        tag = key('MARKER_TAG')
        ne = key('MARKER_ELEMS')
        for l in ls[k:k + ne]:
            elem(l, tag if by_name else m + 1)
        k += ne
    if k != len(ls) or len(nodes) != npoin:
        raise ValueError('size')
    check_rows(cells, npoin)
    return {'twod': twod, 'nodes': nodes, 'cells': cells}


# Gmsh MSH 4.1 element types; Gmsh pyramid: base 0-1-2-3 apex 4 = ugrid (u0, u3, u4, u1, u2)
GMSH = {'edg': 1, 'tri': 2, 'qua': 3, 'tet': 4, 'hex': 5, 'pri': 6, 'pyr': 7}
PYR_TO_GMSH = [0, 3, 4, 1, 2]


def write_msh(c, blocks=1):
    """$MeshFormat 4.1 0 8; $Nodes in `blocks` entity blocks; $Elements one block per kind: `tag nodes` (1-based).
    Gmsh expects boundary faces pointing outward, refine keeps them pointing inward: triangles and quads are stored
    reversed (the convention ref_export_msh documents)"""
    f = TFile()
    f.toks += [tw('$MeshFormat'), NL, tf(struct.pack('>d', 4.1).hex())]
    f.put(None, ti(0))
    f.put(None, ti(8))
    f.toks += [NL, tw('$EndMeshFormat'), NL]
    f.put('key', tw('$Nodes'))
    f.nl()
    nn = len(c['nodes'])
    cuts = [nn * i // blocks for i in range(blocks + 1)]
    f.put('count', ti(blocks))
    f.put('count', ti(nn))
    f.toks += [ti(1), ti(nn), NL]
    for b in range(blocks):
        lo, hi = cuts[b], cuts[b + 1]
        f.toks += [ti(3), ti(b + 1), ti(0)]
        f.put('count', ti(hi - lo))
        f.nl()
        for i in range(lo, hi):
            f.toks += [ti(i + 1), NL]
        for i in range(lo, hi):
            for h in c['nodes'][i]:
                f.put('coord', tf(h))
            f.nl()
    f.toks += [tw('$EndNodes'), NL]
    f.put('key', tw('$Elements'))
    f.nl()
    present = [k for k in KINDS if c['cells'][k]]
    f.put('count', ti(len(present)))
    f.toks += [ti(sum(len(c['cells'][k]) for k in present)), ti(1), ti(max([len(c['cells'][k]) for k in present] + [0])), NL]
    for b, k in enumerate(present):
        f.toks += [ti(2 if k in ('tri', 'qua') else 3 if k != 'edg' else 1), ti(b + 1)]
        f.put('type', ti(GMSH[k]))
        f.put('count', ti(len(c['cells'][k])))
        f.nl()
        for j, r in enumerate(c['cells'][k]):
            nodes = r[:PER[k]]
            if k == 'pyr':
                nodes = [nodes[i] for i in PYR_TO_GMSH]
            if k in ('tri', 'qua'):
                nodes = nodes[::-1]
            f.put('id', ti(r[PER[k]] if k in TAGGED else j + 1))
            for x in nodes:
                f.put('index', ti(x + 1))
            f.nl()
    f.toks += [tw('$EndElements'), NL]
    return f


def parse_msh(toks):
    p = pieces(toks)
    k = 0

    def expect(w):
        nonlocal k
        if k >= len(p) or p[k] != 'w:' + w:
            raise ValueError('expected %s' % w)
        k += 1

    def ints(n):
        nonlocal k
        v = [tok_int(t) for t in p[k:k + n]]
        if len(v) != n:
            raise ValueError('short')
        k += n
        return v
    expect('$MeshFormat')
    tok_dbl(p[k])
    k += 1
    if ints(2) != [0, 8]:
        raise ValueError('format')
    expect('$EndMeshFormat')
    expect('$Nodes')
    nb, nn, _, _ = ints(4)
    nodes = []
    for _ in range(nb):
        _, _, _, n = ints(4)
        ints(n)
        for i in range(n):
            nodes.append(tuple(tok_dbl(t) for t in p[k:k + 3]))
            k += 3
    if len(nodes) != nn or any(len(n) != 3 for n in nodes):
        raise ValueError('node count')
    expect('$EndNodes')
    expect('$Elements')
    nb, ne, _, _ = ints(4)
    cells = {kd: [] for kd in KINDS}
    rev = {v: kd for kd, v in GMSH.items()}
    tot = 0
    for _ in range(nb):
        _, _, ty, n = ints(4)
        kd = rev.get(ty)
        if kd is None:
            raise ValueError('type')
        for _ in range(n):
            v = ints(1 + PER[kd])
            nodes_ = [x - 1 for x in v[1:]]
            if kd == 'pyr':
                nodes_ = [nodes_[i] for i in inv(PYR_TO_GMSH)]
            if kd in ('tri', 'qua'):
                nodes_ = nodes_[::-1]
            cells[kd].append(nodes_ + ([v[0]] if kd in TAGGED else []))
        tot += n
    if tot != ne:
        raise ValueError('element count')
    expect('$EndElements')
    if k != len(p):
        raise ValueError('size')
    check_rows(cells, nn)
    return {'twod': False, 'nodes': nodes, 'cells': cells}


def write_grid(c, chains):
    """'I like CFD' 2-D grid: nnode ntri nquad; x y; triangles; quads; the number of boundaries; their vertex counts;
    one vertex per line.  chains: lists of 0-based vertices"""
    f = TFile()
    for n in (len(c['nodes']), len(c['cells']['tri']), len(c['cells']['qua'])):
        f.put('count', ti(n))
    f.nl()
    for n in c['nodes']:
        f.put('coord', tf(n[0]))
        f.put('coord', tf(n[1]))
        f.nl()
    f.conn(c['cells']['tri'], 3)
    f.conn(c['cells']['qua'], 4)
    f.put('count', ti(len(chains)))
    f.nl()
    for ch in chains:
        f.put('count', ti(len(ch)))
        f.nl()
    for ch in chains:
        for x in ch:
            f.put('index', ti(x + 1))
            f.nl()
    return f


def parse_grid(toks):
    ls = lines_of(toks)
    nn, nt, nq = (tok_int(t) for t in ls[0][:3])
    k = 1
    nodes = [(tok_dbl(l[0]), tok_dbl(l[1]), Z) for l in ls[k:k + nn]]
    k += nn
    cells = {kd: [] for kd in KINDS}
    for l in ls[k:k + nt]:
        cells['tri'].append([tok_int(t) - 1 for t in l[:3]] + [1])
    k += nt
    for l in ls[k:k + nq]:
        cells['qua'].append([tok_int(t) - 1 for t in l[:4]] + [1])
    k += nq
    nb = tok_int(ls[k][0])
    k += 1
    counts = [tok_int(l[0]) for l in ls[k:k + nb]]
    k += nb
    for b, n in enumerate(counts):
        ch = [tok_int(l[0]) - 1 for l in ls[k:k + n]]
        k += n
        for x, y in zip(ch, ch[1:]):
            cells['edg'].append([x, y, b + 1])
    if k != len(ls) or min([nn, nt, nq, nb] + counts) < 0 or len(nodes) != nn:
        raise ValueError('size')
    check_rows(cells, nn)
    return {'twod': True, 'nodes': nodes, 'cells': cells}


def write_r8(c):
    """big-endian FORTRAN-record AFLR3 file: [28|7 counts|28] [len| xyz, tri, quad, tri ids, quad ids, tet, pyr, pri, hex |len]"""
    cnt = [len(c['nodes'])] + [len(c['cells'][k]) for k in ('tri', 'qua', 'tet', 'pyr', 'pri', 'hex')]
    out = bytearray(struct.pack('>i', 28) + struct.pack('>7i', *cnt) + struct.pack('>i', 28))
    fields = [('count', 4 + 4 * i) for i in range(7)]
    body = bytearray()
    for n in c['nodes']:
        for h in n:
            body += bytes.fromhex(h)
    base = len(out) + 4

    def conn(k):
        for r in c['cells'][k]:
            for x in r[:PER[k]]:
                fields.append(('index', base + len(body)))
                body.extend(struct.pack('>i', x + 1))
    conn('tri')
    conn('qua')
    for k in ('tri', 'qua'):
        for r in c['cells'][k]:
            fields.append(('id', base + len(body)))
            body.extend(struct.pack('>i', r[PER[k]] % 2 ** 32 - (2 ** 32 if r[PER[k]] % 2 ** 32 >= 2 ** 31 else 0)))
    for k in ('tet', 'pyr', 'pri', 'hex'):
        conn(k)
    fields.append(('count', len(out)))
    out += struct.pack('>i', len(body)) + body
    fields.append(('count', len(out)))
    out += struct.pack('>i', len(body))
    return bytes(out), fields


def parse_r8(b):
    if len(b) < 40 or struct.unpack_from('>i', b, 0)[0] != 28 or struct.unpack_from('>i', b, 32)[0] != 28:
        raise ValueError('header')
    cnt = struct.unpack_from('>7i', b, 4)
    if any(x < 0 for x in cnt):
        raise ValueError('negative')
    size = 24 * cnt[0] + 16 * cnt[1] + 20 * cnt[2] + 16 * cnt[3] + 20 * cnt[4] + 24 * cnt[5] + 32 * cnt[6]
    if len(b) != 44 + size or struct.unpack_from('>i', b, 36)[0] != size or struct.unpack_from('>i', b, 40 + size)[0] != size:
        raise ValueError('record size')
    p = 40
    nodes = []
    for _ in range(cnt[0]):
        nodes.append(tuple(b[p + 8 * j:p + 8 * j + 8].hex() for j in range(3)))
        p += 24
    cells = {kd: [] for kd in KINDS}

    def conn(k, n):
        nonlocal p
        for _ in range(n):
            cells[k].append([x - 1 for x in struct.unpack_from('>%di' % PER[k], b, p)])
            p += 4 * PER[k]
    conn('tri', cnt[1])
    conn('qua', cnt[2])
    for k in ('tri', 'qua'):
        for r in cells[k]:
            r.append(struct.unpack_from('>i', b, p)[0])
            p += 4
    for k, n in zip(('tet', 'pyr', 'pri', 'hex'), cnt[3:]):
        conn(k, n)
    check_rows(cells, cnt[0])
    return {'twod': False, 'nodes': nodes, 'cells': cells}


WRITERS = {'ugrid': write_ugrid, 'tri': write_tri, 'fgrid': write_fgrid, 'surf': write_surf, 'su2': write_su2,
           'msh': write_msh}
PARSERS = {'ugrid': parse_ugrid, 'tri': parse_tri, 'fgrid': parse_fgrid, 'surf': parse_surf, 'su2': parse_su2,
           'msh': parse_msh, 'grid': parse_grid}
# the cell kinds a format stores
STORES = {'ugrid': ['tri', 'qua', 'tet', 'pyr', 'pri', 'hex'], 'tri': ['tri'], 'fgrid': ['tri', 'tet'],
          'surf': ['tri', 'qua'], 'su2': ['tri', 'qua', 'tet', 'pyr', 'pri', 'hex'], 'msh': KINDS,
          'r8.ugrid': ['tri', 'qua', 'tet', 'pyr', 'pri', 'hex']}


def restrict(c, ext):
    return {'twod': c['twod'], 'nodes': c['nodes'], 'cells': {k: (c['cells'][k] if k in STORES[ext] else []) for k in KINDS}}


def gen_for(rng, ext, holes=False, ids=None):
    if ext == 'su2' and rng.random() < 0.35:
        m = gen_mesh(rng, kinds=['edg', 'tri', 'qua'], twod=True, holes=holes, ids=ids)
    else:
        m = gen_mesh(rng, kinds=STORES[ext], holes=holes, ids=ids, allused=(ext == 'tri'))
    if ext == 'su2' and ids is not None:
        # the smallest marker id is exactly `ids` (the SU2 reader numbers the markers by position, from 1)
        bnd = ('edg',) if m['twod'] else ('tri', 'qua')
        present = [r[PER[k]] for k in bnd for r in m['cells'][k]]
        if present:
            d = min(present) - ids
            for k in bnd:
                for r in m['cells'][k]:
                    r[PER[k]] -= d
    return m


def model(ops):
    """the Lean model's answer to op lines (generator support: routing of mutants, never an oracle)"""
    p = subprocess.run([REFDRV, 'formats'], input='\n'.join(ops) + '\n', capture_output=True, text=True, timeout=900)
    out = p.stdout.splitlines()
    if p.returncode != 0 or len(out) != len(ops):
        raise RuntimeError('refdrv formats failed: %s' % p.stderr[-300:])
    return out


HAZ = ('ub', 'null', 'hang')


# ------------------------------------------------------------------------------------------------
# C08: writers, readers, round trips
# ------------------------------------------------------------------------------------------------
def expected_after_write(ext, c):
    """what the format's file must hold for the mesh (independent statement of the layout)"""
    r = restrict(c, ext)
    if ext == 'ugrid':
        r['cells']['tri'] = by_tag(r['cells']['tri'], 3)
        r['cells']['qua'] = by_tag(r['cells']['qua'], 4)
        r['twod'] = False
    if ext in ('tri', 'fgrid', 'msh'):
        r['twod'] = False
    if ext == 'su2':
        if c['twod']:
            r['nodes'] = [(n[0], n[1], Z) for n in c['nodes']]
            r['cells'] = dict(EMPTY, edg=by_tag(c['cells']['edg'], 2), tri=[x[:3] + [0] for x in c['cells']['tri']],
                              qua=[x[:4] + [0] for x in c['cells']['qua']])
        else:
            ids = sorted({x[PER[k]] for k in ('tri', 'qua') for x in r['cells'][k]})
            r['cells']['tri'] = [x for t in ids for x in r['cells']['tri'] if x[3] == t]
            r['cells']['qua'] = [x for t in ids for x in r['cells']['qua'] if x[4] == t]
    return r


def expected_roundtrip(ext, c):
    """the mesh C08 requires after write + read: the same cells, orientation and tags (boundary faces in the writer's
    order)"""
    return expected_after_write(ext, c)


def gen_write(rng, tier):
    ops = []
    n = 2 if tier == 'quick' else 8
    for ext in ('ugrid', 'tri', 'fgrid', 'su2', 'msh'):
        for i in range(n):
            # su2: ids from 1 (the reader numbers the markers 1, 2, ..); msh: no removed slots, no tri/qua (see the
            # finding streams)
            m = gen_for(rng, ext, holes=(ext not in ('msh',)) and i % 2 == 0, ids=1 if ext == 'su2' else None)
            ops.append(' '.join(['exp', ext] + mesh_words(m)))
            m = gen_for(rng, ext, holes=(ext not in ('msh',)) and i % 2 == 1, ids=1 if ext == 'su2' else None)
            if ext == 'msh':
                m['cells']['tri'] = []
                m['cells']['qua'] = []
            ops.append(' '.join(['rt', ext] + mesh_words(m)))
    rng.shuffle(ops)
    return ops


def oracle_write(ops, impl):
    """C08: the file refine wrote, read by the independent parser, is the mesh; write + read gives the mesh back"""
    bad = []
    for i, (o, r) in enumerate(zip(ops, impl)):
        w = o.split()
        if w[0] not in ('exp', 'rt'):
            continue
        ext = w[1]
        c = compact(parse_mesh_words(w[2:]))
        if not r.startswith('ok'):
            bad.append((i, 'C08 %s %s of a well-formed mesh returned %s' % (w[0], ext, r[:60])))
            continue
        if w[0] == 'rt':
            exp = dump_of(expected_roundtrip(ext, c))
            if r != exp:
                bad.append((i, 'C08 export + import of .%s is not the mesh: %s' % (ext, diff_at(r, exp))))
            continue
        toks = r.split()[2:]
        try:
            got = PARSERS[ext](toks)
        except (ValueError, IndexError) as ex:
            bad.append((i, 'C08 .%s written by refine does not parse: %s' % (ext, ex)))
            continue
        exp = expected_after_write(ext, c)
        if dump_of(got) != dump_of(exp):
            bad.append((i, 'C08 .%s written by refine does not hold the mesh: %s' % (ext, diff_at(dump_of(got), dump_of(exp)))))
    return bad


def file_of(rng, ext, c):
    """an independently written file of the mesh, with some layout freedom the format allows"""
    if ext == 'su2':
        # markers 1, 2, .., max: position and name agree (refine numbers by position; see finding su2-marker-tag-ignored)
        bnd = ('edg',) if c['twod'] else ('tri', 'qua')
        ids = [r[PER[k]] for k in bnd for r in c['cells'][k]]
        return write_su2(c, tags=list(range(1, max(ids) + 1)) if ids else [])
    if ext == 'grid':
        chains = [rng.sample(range(len(c['nodes'])), rng.randint(2, 4)) for _ in range(rng.randint(1, 3))]
        f = write_grid(dict(c, cells=dict(EMPTY, tri=[r[:3] for r in c['cells']['tri']],
                                          qua=[r[:4] for r in c['cells']['qua']])), chains)
    elif ext == 'msh':
        f = write_msh(c, blocks=rng.choice([1, 2, 3]))
    else:
        f = WRITERS[ext](c)
    return f


def gen_read(rng, tier):
    ops = []
    n = 2 if tier == 'quick' else 8
    for ext in ('ugrid', 'tri', 'fgrid', 'surf', 'su2', 'msh', 'grid'):
        for i in range(n):
            if ext == 'grid':
                m = gen_mesh(rng, kinds=['tri', 'qua'], twod=True)
            else:
                m = gen_for(rng, ext, ids=1 if ext == 'su2' else None)
            c = restrict(compact(m), ext) if ext != 'grid' else compact(m)
            if ext == 'msh':
                c['cells']['tri'] = []
                c['cells']['qua'] = []
            f = file_of(rng, ext, c)
            toks = f.toks
            if i % 2 and ext not in ('su2',):
                toks = ['r:' if t == NL else t for t in toks]          # Windows line ends
            ops.append('imp %s | %s' % (ext, ' '.join(toks)))
    for i in range(n):
        m = gen_for(rng, 'r8.ugrid')
        b, _ = write_r8(restrict(compact(m), 'r8.ugrid'))
        ops.append('imp r8.ugrid | b:%s' % b.hex())
    rng.shuffle(ops)
    return ops


def parse_op_file(w):
    """(ext, tokens or bytes) of an `imp`-like op"""
    bar = w.index('|')
    ext = w[bar - 1]
    rest = w[bar + 1:]
    if len(rest) == 1 and rest[0].startswith('b:'):
        return ext, (bytes.fromhex(rest[0][2:]) if rest[0] != 'b:-' else b'')
    return ext, rest


def independent(ext, data):
    """the mesh the file holds according to the independent parser (raises ValueError / IndexError when malformed)"""
    if ext == 'r8.ugrid':
        return parse_r8(data)
    toks = [('i:' + t[2:] if False else t) for t in data]
    if ext == 'su2':
        return parse_su2(toks, by_name=False)
    return PARSERS[ext](toks)


def oracle_read(ops, impl):
    """C08: the reader recovers the mesh an independent writer stored"""
    bad = []
    for i, (o, r) in enumerate(zip(ops, impl)):
        w = o.split()
        if w[0] != 'imp':
            continue
        ext, data = parse_op_file(w)
        try:
            c = independent(ext, data)
        except (ValueError, IndexError, struct.error):
            continue
        exp = dump_of(c)
        if r != exp:
            bad.append((i, 'C08 reader on a valid .%s file does not return the stored mesh: %s' % (ext, diff_at(r, exp))))
    return bad


WRITE = Stream('formats_write', 'h_formats', 'formats', gen_write, oracle=oracle_write, whitebox=['ref_import'],
               nontrivial=lambda op, out: True, session='\x00none', harness_args=['--limit', '20'])
READ = Stream('formats_read', 'h_formats', 'formats', gen_read, oracle=oracle_read, whitebox=['ref_import'],
              nontrivial=lambda op, out: True, session='\x00none', harness_args=['--limit', '20'])


# ------------------------------------------------------------------------------------------------
# C20: mutation engine over token files
# ------------------------------------------------------------------------------------------------
LONG = 'A' * 5000
COUNT_SUBS = [-1, 0, 1, 2 ** 31 - 1, 2 ** 31, 10 ** 10]
INDEX_SUBS = [0, -1, 2 ** 31 - 1]


def mutants_text(rng, f, nnode, nsub=10):
    """(label, tokens) list: truncation, deletion, duplication, count / index / type / coordinate / id substitution, a
    5000-character piece, Windows line ends"""
    toks = f.toks
    out = []
    n = len(toks)
    for _ in range(3):
        c = rng.randrange(1, n)
        cut = toks[:c]
        out.append(('trunc@%d' % c, cut))
    c = rng.randrange(1, n)
    out.append(('trunc-nonl@%d' % c, [t for t in toks[:c]] + ([toks[c]] if toks[c] not in (NL, 'r:') else [ti(1)])))
    for _ in range(2):
        c = rng.randrange(n)
        out.append(('delete@%d' % c, toks[:c] + toks[c + 1:]))
        c = rng.randrange(n)
        out.append(('dup@%d' % c, toks[:c] + [toks[c]] + toks[c:]))
    by = {}
    for kind, pos in f.fields:
        by.setdefault(kind, []).append(pos)

    def sub(pos, tok, lab):
        out.append((lab, toks[:pos] + [tok] + toks[pos + 1:]))
    for pos in by.get('count', []):
        old = tok_int(toks[pos])
        for v in COUNT_SUBS + [old + 1]:
            if rng.random() < 0.45:
                sub(pos, ti(v), 'count@%d:=%d' % (pos, v))
    for _ in range(nsub):
        if by.get('index'):
            pos = rng.choice(by['index'])
            v = rng.choice(INDEX_SUBS + [nnode + 1, nnode + 2, nnode, 50000001, -2 ** 31, 2 ** 32 + 1])
            sub(pos, ti(v), 'index@%d:=%d' % (pos, v))
    for _ in range(3):
        if by.get('type'):
            pos = rng.choice(by['type'])
            v = rng.choice([0, -1, 99, 15, 8, 11, 2, 5, 10])
            sub(pos, ti(v), 'type@%d:=%d' % (pos, v))
        if by.get('coord'):
            pos = rng.choice(by['coord'])
            t = rng.choice([tf('7ff8000000000000'), tf('7ff0000000000000'), tf('fff0000000000000'),
                            tg('1e999', '7ff0000000000000'), tg('-1e999', 'fff0000000000000'), tg('nan', '7ff8000000000000'),
                            tg('0x1p+1', '4000000000000000'), tw('abc'), tx('1.5.2'), ti(7)])
            sub(pos, t, 'coord@%d:=%s' % (pos, t[:12]))
        if by.get('id'):
            pos = rng.choice(by['id'])
            v = rng.choice([0, -1, 2 ** 31 - 1, -2 ** 31, 2 ** 31, 65536])
            sub(pos, ti(v), 'id@%d:=%d' % (pos, v))
    for _ in range(2):
        pos = rng.randrange(n)
        if toks[pos] not in (NL, 'r:'):
            sub(pos, tx(LONG), 'long@%d' % pos)
    if by.get('key'):
        pos = rng.choice(by['key'])
        sub(pos, tx(LONG), 'longkey@%d' % pos)
        sub(pos, tw('Bogus'), 'key@%d' % pos)
    pos = rng.randrange(n)
    if toks[pos] not in (NL, 'r:'):
        sub(pos, tx('1' * 30), 'digits@%d' % pos)
        sub(pos, tx('12abc'), 'intword@%d' % pos)
    out.append(('crlf', ['r:' if t == NL else t for t in toks]))
    out.append(('nofinalnl', toks[:-1] if toks and toks[-1] == NL else toks))
    out.append(('empty', []))
    return out


def put_be(data, off, width, value):
    b = bytearray(data)
    b[off:off + width] = (value % (1 << (8 * width))).to_bytes(width, 'big')
    return bytes(b)


def mutants_r8(rng, data, fields, nnode):
    out = []
    for _ in range(4):
        c = rng.randrange(len(data))
        out.append(('trunc@%d' % c, data[:c]))
    for kind, off in fields:
        if kind == 'count':
            for v in (-1, 0, 1, 2 ** 31 - 1, 2 ** 30, 90000000, -2 ** 31):
                if rng.random() < 0.4:
                    out.append(('count@%d:=%d' % (off, v), put_be(data, off, 4, v)))
    idx = [off for kind, off in fields if kind == 'index']
    for _ in range(8):
        if idx:
            off = rng.choice(idx)
            v = rng.choice([0, -1, nnode + 1, nnode + 2, 2 ** 31 - 1, -2 ** 31, 50000001])
            out.append(('index@%d:=%d' % (off, v), put_be(data, off, 4, v)))
    for _ in range(4):
        off = rng.randrange(len(data))
        b = bytearray(data)
        b[off] ^= 1 << rng.randrange(8)
        out.append(('flip@%d' % off, bytes(b)))
    out.append(('append', data + bytes(rng.getrandbits(8) for _ in range(5))))
    return out


def all_mesh_mutants(rng, tier):
    """(ext, label, op-file-text) for every text format and .r8.ugrid"""
    res = []
    nf = 1 if tier == 'quick' else 4
    for ext in ('ugrid', 'tri', 'fgrid', 'surf', 'su2', 'msh', 'grid'):
        for _ in range(nf):
            if ext == 'grid':
                m = gen_mesh(rng, kinds=['tri', 'qua'], twod=True)
                c = compact(m)
            else:
                c = restrict(compact(gen_for(rng, ext, ids=1 if ext == 'su2' else None)), ext)
            f = file_of(rng, ext, c)
            for lab, toks in mutants_text(rng, f, len(c['nodes']), nsub=6 if tier == 'quick' else 14):
                res.append((ext, lab, ' '.join(toks) if toks else 'n:'))
    for _ in range(nf):
        c = restrict(compact(gen_for(rng, 'r8.ugrid')), 'r8.ugrid')
        data, fields = write_r8(c)
        for lab, d in mutants_r8(rng, data, fields, len(c['nodes'])):
            res.append(('r8.ugrid', lab, 'b:' + (d.hex() or '-')))
    return res


def has_bad_index(dump):
    c = parse_dump(dump)
    if c is None:
        return False
    n = len(c['nodes'])
    return any(not 0 <= x < n for k in KINDS for r in c['cells'][k] for x in r[:PER[k]])


def gen_c20_mut(rng, tier):
    """exact status + dump of the static readers on every mutant for which the model predicts a status and no vertex
    index outside the mesh (those are the finding streams)"""
    items = all_mesh_mutants(rng, tier)
    ops = ['imp %s | %s' % (ext, txt) for ext, _, txt in items]
    keep = []
    for op, pred in zip(ops, model(ops)):
        if pred in HAZ or pred in ('unmodelled', 'bloat', 'bad-op') or has_bad_index(pred):
            continue
        keep.append(op)
    return keep


def gen_c20_robust(rng, tier):
    """the same mutants through the user-facing entry points: import, and import + export; must come back"""
    items = all_mesh_mutants(rng, tier)
    ops = ['imp %s | %s' % (ext, txt) for ext, _, txt in items]
    out = []
    for (ext, lab, txt), pred in zip(items, model(ops)):
        if pred in HAZ or pred in ('bloat', 'bad-op') or has_bad_index(pred):
            continue
        wide = lab.startswith('id@') or lab.startswith('dup@') or lab.startswith('delete@') or pred == 'unmodelled'
        if ext == 'su2' and pred.startswith('ok'):
            c = parse_dump(pred)
            # ref_export_su2 of a mesh without marker elements: finding su2-export-no-marker-overflow (own stream)
            wide = wide or not (c['cells']['edg'] if c['twod'] else c['cells']['tri'] + c['cells']['qua'])
        # an id far from the others makes the exporters sweep the id range (finding ugrid-export-faceid-range-sweep)
        out.append(('robust_imp' if wide or ext in ('surf', 'r8.ugrid') else 'robust') + ' %s | %s' % (ext, txt))
    return out


def oracle_returns(ops, impl):
    """C20, stated directly: the call came back with a status"""
    bad = []
    for i, (o, r) in enumerate(zip(ops, impl)):
        first = r.split()[0] if r.split() else ''
        if first in ('crash', 'timeout', 'bloat', 'hazard'):
            w = o.split()
            bad.append((i, 'C20 %s of a .%s input did not come back cleanly: %s' % (w[0], w[1], r)))
    return bad


def oracle_mut(ops, impl):
    """C20: the reader came back, and what it accepted has every vertex index inside the mesh it declares"""
    bad = oracle_returns(ops, impl)
    for i, (o, r) in enumerate(zip(ops, impl)):
        if r.startswith('ok') and has_bad_index(r):
            bad.append((i, 'C20 .%s reader ACCEPTED a vertex index outside the vertices of the file' % o.split()[1]))
    return bad


C20_MUT = Stream('c20_formats_mut', 'h_formats', 'formats', gen_c20_mut, oracle=oracle_mut, whitebox=['ref_import'],
                 nontrivial=lambda op, out: True, session='\x00none', harness_args=['--limit', '10'])
C20_ROBUST = Stream('c20_formats_robust', 'h_formats', 'formats', gen_c20_robust, oracle=oracle_returns,
                    whitebox=['ref_import'], nontrivial=lambda op, out: True, session='\x00none',
                    harness_args=['--limit', '10'])


# ------------------------------------------------------------------------------------------------
# C20: the witnesses of the findings (Props/C20Formats.lean `*_counterexample`) against the real readers
# ------------------------------------------------------------------------------------------------
XYZ4 = [(Z, Z, Z), (ONE, Z, Z), (Z, ONE, Z), (Z, Z, ONE)]
TET4 = {'twod': False, 'nodes': XYZ4, 'cells': dict(EMPTY, tet=[[0, 1, 2, 3]])}
TRI3 = {'twod': False, 'nodes': XYZ4[:3], 'cells': dict(EMPTY, tri=[[0, 1, 2, 7]])}


def _sub(f, kind, nth, tok):
    pos = [p for k, p in f.fields if k == kind][nth]
    return f.toks[:pos] + [tok] + f.toks[pos + 1:]


def witnesses():
    w = {}
    # .msh: a file that is one 1024-character piece: `fscanf("%s", line)` with `char line[1024]`
    w['msh_token'] = ('msh', [tx('A' * 1024), NL])
    # vertex index nnode+1 / 50000001 of the last cell
    w['tri_index'] = ('tri', _sub(write_tri(TRI3), 'index', 2, ti(4)))
    w['tri_index_far'] = ('tri', _sub(write_tri(TRI3), 'index', 2, ti(50000001)))
    w['fgrid_index'] = ('fgrid', _sub(write_fgrid(TET4), 'index', 3, ti(5)))
    w['fgrid_index_far'] = ('fgrid', _sub(write_fgrid(TET4), 'index', 3, ti(50000001)))
    w['surf_index'] = ('surf', _sub(write_surf(TRI3), 'index', 2, ti(4)))
    w['su2_index'] = ('su2', _sub(write_su2(TET4, tags=[]), 'index', 3, ti(4)))
    w['su2_index_far'] = ('su2', _sub(write_su2(dict(TET4, cells=dict(EMPTY, tet=[[0, 1, 2, 3]], tri=[[0, 1, 2, 1]]))), 'index', 3, ti(50000000)))
    w['msh_index'] = ('msh', _sub(write_msh(TET4), 'index', 3, ti(5)))
    w['grid_index'] = ('grid', _sub(write_grid({'twod': True, 'nodes': XYZ4[:3], 'cells': dict(EMPTY, tri=[[0, 1, 2]])}, []), 'index', 2, ti(4)))
    # 2 500 000 vertices declared, none present (2^31-1 behaves the same, a few seconds later)
    w['tri_prealloc'] = ('tri', [ti(2500000), ti(0), NL])
    w['fgrid_prealloc'] = ('fgrid', [ti(2500000), ti(0), ti(0), NL])
    return w


WITNESS = witnesses()
R8_TET, R8_FIELDS = write_r8(TET4)
# .r8.ugrid: 2^30 vertices declared: `nnode * 3 * 8` in int
BWITNESS = {
    'r8_record': put_be(put_be(R8_TET, 4, 4, 2 ** 30), 36, 4, 0),
    'r8_index': put_be(R8_TET, [o for k, o in R8_FIELDS if k == 'index'][3], 4, 5),
    'r8_index_far': put_be(R8_TET, [o for k, o in R8_FIELDS if k == 'index'][3], 4, 50000001),
}


def gen_c20_index(rng, tier):
    """finding import-vertex-index-unchecked: the witnesses (accepted by the static reader, and `translate` of the far
    ones), thorough: the index mutants the model accepts"""
    ops = []
    for k in ('tri_index', 'fgrid_index', 'surf_index', 'su2_index', 'msh_index', 'grid_index'):
        ext, toks = WITNESS[k]
        ops.append('imp %s | %s' % (ext, ' '.join(toks)))
    ops.append('imp r8.ugrid | b:' + BWITNESS['r8_index'].hex())
    for k in ('tri_index_far', 'fgrid_index_far', 'su2_index_far'):
        ext, toks = WITNESS[k]
        ops.append('hazard %s | %s' % (ext, ' '.join(toks)))
    ops.append('hazard r8.ugrid | b:' + BWITNESS['r8_index_far'].hex())
    if tier == 'quick':
        return ops
    items = all_mesh_mutants(rng, tier)
    cand = ['imp %s | %s' % (ext, txt) for ext, _, txt in items]
    for op, pred in zip(cand, model(cand)):
        if pred.startswith('ok') and has_bad_index(pred):
            ops.append(op)
    return ops[:150]


def oracle_index(ops, impl):
    bad = []
    for i, f in enumerate(oracle_mut(ops, impl)):
        bad.append((f[0], f[1], SITE_INDEX))
    return bad


def gen_c20_token(rng, tier):
    ext, toks = WITNESS['msh_token']
    ops = ['hazard_imp msh | ' + ' '.join(toks)]
    if tier == 'quick':
        return ops
    items = [it for it in all_mesh_mutants(rng, tier) if it[0] == 'msh' and it[1].startswith('long')]
    cand = ['imp %s | %s' % (ext, txt) for ext, _, txt in items]
    for op, pred in zip(cand, model(cand)):
        if pred == 'ub':
            ops.append('hazard_' + op)
    return ops[:40]


def gen_c20_prealloc(rng, tier):
    ops = []
    for k in ('tri_prealloc', 'fgrid_prealloc'):
        ext, toks = WITNESS[k]
        ops.append('hazard_imp %s | %s' % (ext, ' '.join(toks)))
    return ops


def gen_c20_r8(rng, tier):
    ops = ['hazard_imp r8.ugrid | b:' + BWITNESS['r8_record'].hex()]
    if tier == 'quick':
        return ops
    items = [it for it in all_mesh_mutants(rng, tier) if it[0] == 'r8.ugrid' and it[1].startswith('count')]
    cand = ['imp %s | %s' % (ext, txt) for ext, _, txt in items]
    for op, pred in zip(cand, model(cand)):
        if pred == 'ub':
            ops.append('hazard_' + op)
    return ops[:40]


def tagged(site):
    def oracle(ops, impl):
        return [(i, m, site) for i, m in oracle_returns(ops, impl)]
    return oracle


def _finding(name, gen, oracle, site):
    return Stream(name, 'h_formats', 'formats', gen, oracle=oracle, whitebox=['ref_import'], site=site,
                  nontrivial=lambda op, out: True, session='\x00none', harness_args=['--limit', '10'])


C20_INDEX = _finding('c20_formats_index', gen_c20_index, oracle_index, SITE_INDEX)
C20_TOKEN = _finding('c20_formats_token', gen_c20_token, tagged(SITE_MSH_TOKEN), SITE_MSH_TOKEN)
C20_PREALLOC = _finding('c20_formats_prealloc', gen_c20_prealloc, tagged(SITE_PREALLOC), SITE_PREALLOC)
C20_R8 = _finding('c20_formats_r8', gen_c20_r8, tagged(SITE_R8), SITE_R8)


# ------------------------------------------------------------------------------------------------
# field files: .rst (COFFE restart), .snap (FUN3D snapshot), .plt (Tecplot binary)
# ------------------------------------------------------------------------------------------------
def dle(h):
    return bytes.fromhex(h)[::-1]


def write_rst(dim, variables, steps, dof, field):
    """length-prefixed magic, version 2, dim, variables, steps, dof, 0 doubles; then step-major blocks: for each step, for
    each vertex, `variables` doubles.  field[v] = the steps*variables values of vertex v (hex bit patterns).
    -> bytes, {name: offset of the 4-byte header field}"""
    out = bytearray(struct.pack('<i', 8) + b'COFFERST')
    offs = {}
    for name, v in (('version', 2), ('dim', dim), ('variables', variables), ('steps', steps), ('dof', dof), ('doubles', 0)):
        offs[name] = len(out)
        out += struct.pack('<i', v)
    offs['len'] = 0
    for s in range(steps):
        for v in range(dof):
            for i in range(variables):
                out += dle(field[v][s * variables + i])
    return bytes(out), offs


def write_snap(version, nnode, fields, names=None):
    """u64 version, u64 number of fields; per field (v2): u64 name length, name, u64 length of the rest, u64 vertex
    count, i32 association -1, doubles; (v3): u64 remaining length, u64 vertex count, u64 entry length 1, u64 number of
    key/value pairs, pairs (u64 length + text each), doubles.  fields[f][v] hex"""
    out = bytearray(struct.pack('<QQ', version, len(fields)))
    offs = {'version': 0, 'nfields': 8}
    for f, col in enumerate(fields):
        data = b''.join(dle(h) for h in col)
        name = (names[f] if names else 'field%d' % f).encode()
        if version == 2:
            offs.setdefault('nchars', len(out))
            out += struct.pack('<Q', len(name)) + name
            body = struct.pack('<Q', nnode) + struct.pack('<i', -1) + data
            offs.setdefault('flen', len(out))
            out += struct.pack('<Q', len(body))
            offs.setdefault('nnode', len(out))
            out += body
        else:
            pairs = struct.pack('<Q', 1) + struct.pack('<Q', 4) + b'name' + struct.pack('<Q', len(name)) + name
            body = struct.pack('<Q', nnode) + struct.pack('<Q', 1) + pairs + data
            offs.setdefault('flen', len(out))
            out += struct.pack('<Q', len(body))
            offs.setdefault('nnode', len(out))
            offs.setdefault('elen', len(out) + 8)
            offs.setdefault('npairs', len(out) + 16)
            out += body
    return bytes(out), offs


def pstr(t):
    return b''.join(struct.pack('<i', ord(ch)) for ch in t) + struct.pack('<i', 0)


def write_plt(nvar, zones, aux=False):
    """Tecplot binary (#!TDV112), FE zones, block packing, doubles.  zones: (zonetype, rows) with rows[v] = nvar hex
    values; -> bytes, offsets"""
    out = bytearray(b'#!TDV112' + struct.pack('<ii', 1, 0) + pstr('t'))
    offs = {'numvar': len(out)}
    out += struct.pack('<i', nvar)
    for i in range(nvar):
        out += pstr('v%d' % i)
    if aux:
        out += struct.pack('<f', 799.0) + pstr('a') + struct.pack('<i', 0) + pstr('b')
    for zt, rows in zones:
        out += struct.pack('<f', 299.0) + pstr('z') + struct.pack('<ii', -1, -1) + struct.pack('<d', 0.0)
        out += struct.pack('<i', -1)
        offs.setdefault('zonetype', len(out))
        out += struct.pack('<iiii', zt, 0, 0, 0)
        offs.setdefault('numpts', len(out))
        out += struct.pack('<i', len(rows))
        offs.setdefault('numelem', len(out))
        out += struct.pack('<i', 1) + struct.pack('<iiii', 0, 0, 0, 0)
    offs['endmarker'] = len(out)
    out += struct.pack('<f', 357.0)
    per = {1: 2, 2: 3, 3: 4, 4: 4, 5: 8}
    for zt, rows in zones:
        out += struct.pack('<f', 299.0)
        offs.setdefault('dataformat', len(out))
        out += struct.pack('<%di' % nvar, *([2] * nvar))
        out += struct.pack('<iii', 0, 0, -1)
        out += struct.pack('<%dd' % (2 * nvar), *([0.0] * (2 * nvar)))
        for i in range(nvar):
            for r in rows:
                out += dle(r[i])
        out += struct.pack('<%di' % per.get(zt, 3), *([1] * per.get(zt, 3)))
    return bytes(out), offs


def put_le(data, off, width, value):
    b = bytearray(data)
    b[off:off + width] = (value % (1 << (8 * width))).to_bytes(width, 'little')
    return bytes(b)


def gen_field(rng, n, ldim):
    return [[dbits(rng, nan=False) for _ in range(ldim)] for _ in range(n)]


INT_SUBS = [-1, 0, 1, 2, 3, 2 ** 31 - 1, 2 ** 30, 10 ** 8, -2 ** 31, 7]
U64_SUBS = [0, 1, 2, 3, 4, 2 ** 31 - 1, 2 ** 31, 2 ** 32, 2 ** 32 + 1, 10 ** 8, 2 ** 63 - 1, 2 ** 63, 2 ** 64 - 1]


def field_mutants(rng, tier):
    """(ext, n, twod, label, bytes)"""
    res = []
    nf = 2 if tier == 'quick' else 6
    for _ in range(nf):
        n = rng.choice([1, 3, 4, 7])
        variables, steps = rng.choice([1, 2, 3]), rng.choice([1, 2])
        dof = n + rng.choice([0, 0, 2])
        data, offs = write_rst(rng.choice([2, 3]), variables, steps, dof, gen_field(rng, dof, variables * steps))
        muts = [('valid', data)]
        for name, off in offs.items():
            for v in INT_SUBS + ([n - 1, dof + 1] if name == 'dof' else []):
                if rng.random() < 0.5:
                    muts.append(('%s:=%d' % (name, v), put_le(data, off, 4, v)))
        for _ in range(3):
            c = rng.randrange(len(data))
            muts.append(('trunc@%d' % c, data[:c]))
        muts.append(('append', data + b'\x01\x02\x03'))
        muts.append(('zero-vars-many-steps', put_le(put_le(data, offs['variables'], 4, 0), offs['steps'], 4, 2 ** 31 - 1)))
        muts.append(('both-negative', put_le(put_le(data, offs['variables'], 4, -1), offs['steps'], 4, -2)))
        res += [('rst', n, 0, lab, d) for lab, d in muts]
    for _ in range(nf):
        n = rng.choice([1, 3, 4, 7])
        ver = rng.choice([2, 3])
        nfld = rng.choice([1, 2, 3])
        nn = rng.choice([n, n, 2 * n, 2 * n + 1])
        cols = [[dbits(rng, nan=False) for _ in range(nn)] for _ in range(nfld)]
        data, offs = write_snap(ver, nn, cols)
        muts = [('valid', data)]
        for name, off in offs.items():
            for v in U64_SUBS + ([n - 1, nn + 1, 2 * n + 2] if name == 'nnode' else []):
                if rng.random() < 0.4:
                    muts.append(('%s:=%d' % (name, v), put_le(data, off, 8, v)))
        for _ in range(3):
            c = rng.randrange(len(data))
            muts.append(('trunc@%d' % c, data[:c]))
        muts.append(('append', data + b'\x01\x02\x03'))
        res += [('snap', n, 0, lab, d) for lab, d in muts]
    for _ in range(nf):
        n = rng.choice([2, 4, 6])
        nvar = rng.choice([3, 4, 5])
        twod = rng.choice([0, 1])
        zones = []
        for _z in range(rng.choice([1, 2])):
            rows = []
            for v in rng.sample(range(n), rng.randint(1, n)):
                xyz = [float(v), 0.0, 2.0 * v] if twod else [float(v), 2.0 * v, 3.0 * v]
                rows.append([struct.pack('>d', x).hex() for x in xyz] + [dbits(rng, nan=False) for _ in range(nvar - 3)])
            zones.append((rng.choice([1, 2, 3, 4, 5]), rows))
        data, offs = write_plt(nvar, zones, aux=rng.random() < 0.3)
        muts = [('valid', data)]
        for name, off in offs.items():
            for v in INT_SUBS + [6, 99]:
                if rng.random() < 0.4:
                    muts.append(('%s:=%d' % (name, v), put_le(data, off, 4, v)))
        muts.append(('endmarker:=nan', put_le(data, offs['endmarker'], 4, 0x7fc00000)))
        for _ in range(4):
            c = rng.randrange(len(data))
            muts.append(('trunc@%d' % c, data[:c]))
        for _ in range(3):
            off = rng.randrange(len(data))
            b = bytearray(data)
            b[off] ^= 1 << rng.randrange(8)
            muts.append(('flip@%d' % off, bytes(b)))
        res += [('plt', n, twod, lab, d) for lab, d in muts]
    return res


def gen_c20_fields(rng, tier):
    items = field_mutants(rng, tier)
    ops = ['scalar %s %d %d | b:%s' % (ext, n, twod, d.hex() or '-') for ext, n, twod, _, d in items]
    return [op for op, pred in zip(ops, model(ops)) if pred not in HAZ and pred not in ('bloat', 'unmodelled', 'bad-op')]


def rst_expect(n, b):
    """independent reading of a .rst for a grid of n vertices: (ldim, rows) or ValueError"""
    if len(b) < 40 or struct.unpack_from('<i', b, 0)[0] != 8:
        raise ValueError('magic')
    ver, dim, variables, steps, dof, doubles = struct.unpack_from('<6i', b, 12)
    if ver != 2 or dim not in (2, 3) or doubles != 0 or min(variables, dof) < 0 or steps < 1 or dof < n:
        raise ValueError('header')          # a restart holds at least one time step
    if len(b) < 36 + 8 * variables * steps * dof:
        raise ValueError('short')
    if variables == 0:
        return 0, [[] for _ in range(n)]
    rows = [[None] * (variables * steps) for _ in range(n)]
    p = 36
    for s in range(steps):
        for v in range(dof):
            for i in range(variables):
                if v < n:
                    rows[v][s * variables + i] = b[p:p + 8][::-1].hex()
                p += 8
    return variables * steps, rows


def snap_expect(n, b):
    def u64(p):
        if not 0 <= p <= len(b) - 8:
            raise ValueError('short')
        return struct.unpack_from('<Q', b, p)[0]
    ver, nf = u64(0), u64(8)
    if ver not in (2, 3) or nf > len(b):
        raise ValueError('header')
    p = 16
    rows = [[] for _ in range(n)]
    for _ in range(nf):
        if ver == 2:
            nc = u64(p)
            if nc > len(b):
                raise ValueError('name length')
            p += 8 + nc
            flen = u64(p)
            if flen >= 2 ** 62:
                raise ValueError('field length')
            p += 8
            end = p + flen
            nn = u64(p)
            if p + 12 > len(b) or struct.unpack_from('<i', b, p + 8)[0] != -1:
                raise ValueError('association')
            p += 12
        else:
            flen = u64(p)
            if flen >= 2 ** 62:
                raise ValueError('field length')
            p += 8
            end = p + flen
            nn, el, npair = u64(p), u64(p + 8), u64(p + 16)
            if el != 1 or npair > len(b):
                raise ValueError('entry length')
            p += 24
            for _ in range(2 * npair):
                ln = u64(p)
                if ln > len(b):
                    raise ValueError('pair length')
                p += 8 + ln
        if nn != n and nn // 2 != n:
            raise ValueError('vertex count')
        if p + 8 * nn > len(b) or (nn == n and p + 8 * nn != end):
            raise ValueError('size')
        for v in range(n):
            rows[v].append(b[p + 8 * v:p + 8 * v + 8][::-1].hex())
        p += 8 * nn
    return nf, rows


def oracle_fields(ops, impl):
    """C20: the reader came back; C09: a well-formed .rst / .snap is read into the values it holds, in its order"""
    bad = oracle_returns(ops, impl)
    for i, (o, r) in enumerate(zip(ops, impl)):
        w = o.split()
        if w[0] != 'scalar' or w[1] not in ('rst', 'snap'):
            continue
        b = bytes.fromhex(w[5][2:]) if w[5] != 'b:-' else b''
        try:
            ldim, rows = (rst_expect if w[1] == 'rst' else snap_expect)(int(w[2]), b)
        except (ValueError, struct.error, IndexError):
            continue        # leniency of the reader on a malformed file is not a C20 matter
        exp = ' '.join(['ok', '%d' % ldim] + [fmt(h) for row in rows for h in row])
        if r != exp:
            bad.append((i, 'C09 .%s: the values read differ from the file: %s' % (w[1], diff_at(r, exp))))
    return bad


C20_FIELDS = Stream('c20_fields_mut', 'h_formats', 'formats', gen_c20_fields, oracle=oracle_fields, whitebox=['ref_import'],
                    nontrivial=lambda op, out: True, session='\x00none', harness_args=['--limit', '10'])

RST4, RST4_OFF = write_rst(3, 1, 2, 4, [[ONE, ONE]] * 4)
FWITNESS = {
    # 60-byte... header only: dof 10^8 declared for a 4-vertex grid: 800 MB allocated and initialised before the first read
    'rst_dof': put_le(RST4[:36], RST4_OFF['dof'], 4, 10 ** 8),
    # variables * steps leaves int
    'rst_ldim': put_le(RST4, RST4_OFF['variables'], 4, 2 ** 30),
    # variables * chunk leaves int
    'rst_chunk': put_le(put_le(RST4, RST4_OFF['variables'], 4, 50000), RST4_OFF['dof'], 4, 100000),
    # no variables, 2^31-1 steps: 8.6e9 passes of the vertex loop that read nothing
    'rst_idle': put_le(put_le(RST4, RST4_OFF['variables'], 4, 0), RST4_OFF['steps'], 4, 2 ** 31 - 1),
    # 2*10^8 fields declared in a 16-byte file: ldim * ref_node_max leaves int
    'snap_fields': struct.pack('<QQ', 2, 2 * 10 ** 8),
}
_PLT, _PLT_OFF = write_plt(4, [(2, [[Z, Z, Z, ONE]])])
FWITNESS['plt_numpts'] = put_le(_PLT, _PLT_OFF['numpts'], 4, 2 ** 30)


def _field_ops(keys, ext):
    return ['hazard_scalar %s 4 0 | b:%s' % (ext, FWITNESS[k].hex()) for k in keys]


def _field_more(rng, tier, ext, ops):
    if tier == 'quick':
        return ops
    items = [it for it in field_mutants(rng, tier) if it[0] == ext]
    cand = ['scalar %s %d %d | b:%s' % (e, n, twod, d.hex() or '-') for e, n, twod, _, d in items]
    for op, pred in zip(cand, model(cand)):
        if pred in ('ub', 'hang', 'bloat'):
            ops.append('hazard_' + op)
    return ops[:40]


def gen_c20_rst(rng, tier):
    return _field_more(rng, tier, 'rst', _field_ops(['rst_dof', 'rst_ldim', 'rst_chunk', 'rst_idle'], 'rst'))


def gen_c20_snap(rng, tier):
    return _field_more(rng, tier, 'snap', _field_ops(['snap_fields'], 'snap'))


def gen_c20_plt(rng, tier):
    return _field_more(rng, tier, 'plt', _field_ops(['plt_numpts'], 'plt'))


C20_RST = _finding('c20_fields_rst', gen_c20_rst, tagged(SITE_RST), SITE_RST)
C20_RST.harness_args = ['--limit', '4']      # the idle-loop witness needs minutes: 4 s is as good as 10
C20_SNAP = _finding('c20_fields_snap', gen_c20_snap, tagged(SITE_SNAP), SITE_SNAP)
C20_PLT = _finding('c20_fields_plt', gen_c20_plt, tagged(SITE_PLT), SITE_PLT)


# ------------------------------------------------------------------------------------------------
# .mapbc
# ------------------------------------------------------------------------------------------------
WALL_CODES = [4000, -4000, 4075, 4100, 4110, -4110, -4100, 6200, 6210]
OTHER_CODES = [5000, 5050, 3000, 6662, 6021, 7011, 7012, 4001, 0, -1, 40000, 620]
NAMES = ['wall', 'farfield', 'symmetry_y', 'inflate_wing', 'inflate', 'box', 'outflow-1', 'tunnel_wall']


def write_mapbc(entries, count=None):
    """number of entries, then `id bc_code family_name` per line"""
    toks = [ti(len(entries) if count is None else count), NL]
    for e in entries:
        toks += [ti(e[0]), ti(e[1])] + [tw(x) for x in e[2:]] + [NL]
    return toks


def mapbc_expect(toks):
    """independent reading: {id: code} (a later line replaces an earlier one) or ValueError"""
    ls = lines_of(toks)
    if not ls or not ls[0]:
        raise ValueError('empty')
    n = tok_int(ls[0][0])
    d = {}
    body = [l for l in ls[1:]]
    if len([l for l in body if l]) < n:
        raise ValueError('short')
    k = 0
    for l in body:
        if k >= n:
            break
        if not l:
            continue
        d[tok_int(l[0])] = tok_int(l[1])
        k += 1
    return d


def gen_mapbc(rng, tier):
    ops = []
    # every viscous code and its neighbours once: a change of any single code of ref_phys_wall_distance_bc shows
    codes = sorted(set(WALL_CODES + [c + d for c in WALL_CODES for d in (-1, 1)] + OTHER_CODES))
    ops.append('mapbc | ' + ' '.join(write_mapbc([[i + 1, c, 'patch'] for i, c in enumerate(codes)])))
    for _ in range(6 if tier == 'quick' else 30):
        n = rng.choice([1, 2, 4, 7])
        ids = rng.sample(range(1, 40), n)
        if rng.random() < 0.3 and n > 1:
            ids[-1] = ids[0]                                   # a repeated id: the later line wins
        entries = [[i, rng.choice(WALL_CODES if rng.random() < 0.5 else OTHER_CODES), rng.choice(NAMES)] +
                   (['extra'] if rng.random() < 0.2 else []) for i in ids]
        toks = write_mapbc(entries)
        muts = [toks, ['r:' if t == NL else t for t in toks], write_mapbc(entries, count=n + 1),
                write_mapbc(entries, count=max(n - 1, 0)), write_mapbc(entries, count=-1),
                write_mapbc(entries, count=2 ** 31 - 1), write_mapbc(entries, count=10 ** 10), toks[:-1],
                toks[:rng.randrange(1, len(toks))]]
        t2 = list(toks)
        pos = rng.choice([i for i, t in enumerate(t2) if t.startswith('w:')])
        t2[pos] = tx(LONG)
        muts.append(t2)
        t3 = list(toks)
        pos = rng.choice([i for i, t in enumerate(t3) if t.startswith('i:')])
        t3[pos] = rng.choice([tw('abc'), tx('12abc'), tx(LONG), tf(ONE), ti(2 ** 31), ti(-2 ** 31 - 1)])
        muts.append(t3)
        muts.append([t for t in toks if not t.startswith('w:')])          # no family names
        muts.append([])
        for m in muts:
            ops.append('mapbc | ' + (' '.join(m) if m else 'n:'))
            if rng.random() < 0.6:
                ops.append('mapbc_token %s | %s' % (rng.choice(['inflate', 'wall', 'inflate_wing', 'x']), ' '.join(m) if m else 'n:'))
    keep = [op for op, pred in zip(ops, model(ops)) if pred not in ('unmodelled', 'bad-op')]
    rng.shuffle(keep)
    return keep


def oracle_mapbc(ops, impl):
    """C20: the reader came back; C12: the walls of a well-formed map are exactly the ids whose code is viscous"""
    bad = oracle_returns(ops, impl)
    for i, (o, r) in enumerate(zip(ops, impl)):
        w = o.split()
        if w[0] != 'mapbc':
            continue
        toks = w[2:]
        try:
            d = mapbc_expect(toks)
        except (ValueError, IndexError):
            continue
        if any(t.startswith('x:') or t.startswith('f:') or (t.startswith('i:') and not -2 ** 31 <= int(t[2:]) < 2 ** 31)
               for t in toks):
            continue
        exp = 'ok %d' % len(d) + ''.join(' %d %d' % (k, d[k]) for k in sorted(d)) + ' wall' + \
              ''.join(' %d' % k for k in sorted(d) if d[k] in WALL_CODES)
        if r != exp:
            bad.append((i, 'C12/C20 mapbc: the dictionary / wall set read differs from the file: %s' % diff_at(r, exp)))
    return bad


MAPBC = Stream('formats_mapbc', 'h_formats', 'formats', gen_mapbc, oracle=oracle_mapbc, whitebox=['ref_import'],
               nontrivial=lambda op, out: True, session='\x00none', harness_args=['--limit', '10'])


# ------------------------------------------------------------------------------------------------
# C08: the round-trip findings, one stream per site
# ------------------------------------------------------------------------------------------------
def _has_hole(w):
    return '-' in w


def _words_cells(w):
    return parse_mesh_words(w[2:])['cells']


def gen_msh_o2n(rng, tier):
    """a removed vertex slot below a cell's vertices: ref_export_msh writes the stored numbers"""
    ops = []
    for _ in range(1 if tier == 'quick' else 6):
        m = gen_mesh(rng, kinds=['tet', 'pyr', 'pri', 'hex', 'edg'], holes=False)
        live = [i for i, s in enumerate(m['slots']) if s is not None]
        used = sorted({x for k in KINDS for r in m['cells'][k] for x in r[:PER[k]]})
        free = [i for i in live if i not in used and i < max(used)]
        if not free:
            continue
        m['slots'][free[0]] = None
        ops.append(' '.join(['rt', 'msh'] + mesh_words(m)))
    if not ops:
        ops.append('rt msh twod 0 n 5 %s - %s edg 0 tri 0 qua 0 tet 1 0 2 3 4 pyr 0 pri 0 hex 0'
                   % (' '.join([Z] * 3), ' '.join([ONE, Z, Z, Z, ONE, Z, Z, Z, ONE])))
    return ops


def gen_msh_flip(rng, tier):
    """boundary faces that no volume cell backs (a surface or 2-D mesh): written reversed (outward, what Gmsh expects),
    read as written"""
    ops = []
    for _ in range(1 if tier == 'quick' else 6):
        m = gen_mesh(rng, kinds=['tri', 'qua', 'edg'], holes=False)
        ops.append(' '.join(['rt', 'msh'] + mesh_words(m)))
        c = restrict(compact(gen_mesh(rng, kinds=['tri', 'qua', 'tet'], holes=False)), 'msh')
        ops.append('imp msh | ' + ' '.join(write_msh(c).toks))
    return ops


def gen_su2_tag(rng, tier):
    """marker ids that do not start at 1: the reader numbers the markers by position"""
    ops = []
    for _ in range(1 if tier == 'quick' else 6):
        m = gen_for(rng, 'su2', ids=rng.choice([0, 2, 3, 7, -1, 1000]))
        ops.append(' '.join(['rt', 'su2'] + mesh_words(m)))
    return ops


def gen_su2_nobnd(rng, tier):
    """a mesh without marker elements: `max_faceid - min_faceid + 1` on the empty range"""
    m = gen_mesh(rng, kinds=['tet', 'pri'], holes=False)
    ops = [' '.join(['hazard_exp', 'su2'] + mesh_words(m))]
    f = write_su2(dict(TET4, cells=dict(EMPTY, tet=[[0, 1, 2, 3]])), tags=[])
    ops.append('hazard su2 | ' + ' '.join(f.toks))        # the same through translate of a file without markers
    return ops


def tagged_write(site):
    def oracle(ops, impl):
        return [(i, m, site) for i, m in oracle_write(ops, impl) + oracle_read(ops, impl) + oracle_returns(ops, impl)]
    return oracle


def _c08(name, gen, site):
    return Stream(name, 'h_formats', 'formats', gen, oracle=tagged_write(site), whitebox=['ref_import'], site=site,
                  nontrivial=lambda op, out: True, session='\x00none', harness_args=['--limit', '20'])


C08_MSH_O2N = _c08('formats_msh_renumber', gen_msh_o2n, SITE_MSH_O2N)
C08_MSH_FLIP = _c08('formats_msh_faces', gen_msh_flip, SITE_MSH_FLIP)
C08_SU2_TAG = _c08('formats_su2_tags', gen_su2_tag, SITE_SU2_TAG)
C08_SU2_NOBND = _c08('formats_su2_nomarker', gen_su2_nobnd, SITE_SU2_NOBND)


# ------------------------------------------------------------------------------------------------
# C09: .rst / .snap on several ranks (harness h_sol, op rd_scalar; driver formats)
# ------------------------------------------------------------------------------------------------
from . import streams_sol as SS          # noqa: E402  (rank layouts and the op format of h_sol)


def gen_fields_mpi(rng, tier, np=None, exts=('rst', 'snap')):
    npr = np or 1
    ops = []
    for _ in range(5 if tier == 'quick' else 25):
        for ext in exts:
            N = rng.choice([1, 2, 3, 5, 9, 14])
            ranks = SS.read_ranks(rng, N, npr)
            floor = SS.pick_floor(rng, N)
            if ext == 'rst':
                variables, steps = rng.choice([1, 2, 3]), rng.choice([1, 2, 3])
                dof = N + rng.choice([0, 0, 1, 3])
                data, _ = write_rst(rng.choice([2, 3]), variables, steps, dof, gen_field(rng, dof, variables * steps))
            else:
                nn = rng.choice([N, N, 2 * N, 2 * N + 1])
                data, _ = write_snap(rng.choice([2, 3]), nn,
                                     [[dbits(rng, nan=False) for _ in range(nn)] for _ in range(rng.choice([1, 2, 4]))])
            ops.append(SS.read_op('rd_scalar', npr, ['.' + ext, floor, N], ['x:' + data.hex()], ranks))
    return ops


def gen_rst_mpi(rng, tier, np=None):
    return gen_fields_mpi(rng, tier, np, exts=('rst',))


def gen_snap_mpi(rng, tier, np=None):
    """one op: the reader does not survive it on two or more ranks (finding snap-nnode-bcast-as-int)"""
    return gen_fields_mpi(rng, tier, np, exts=('snap',))[:1]


def oracle_fields_mpi(ops, lines):
    """C09: every rank holds, for each of its vertices, the values the file stores for that vertex, in file order"""
    bad = []
    for i, (o, r) in enumerate(zip(ops, lines)):
        w = o.split()
        if w[0] != 'rd_scalar':
            continue
        ext, N = w[2], int(w[4])
        groups = ' '.join(w[5:]).split('|')[1:]
        b = bytes.fromhex(groups[0].split()[0][2:])
        ranks = [[int(x) for x in g.split()[1:]] for g in groups[1:]]
        try:
            ldim, rows = (rst_expect if ext == '.rst' else snap_expect)(N, b)
        except (ValueError, struct.error, IndexError):
            continue
        exp = 'ok %d' % ldim + ''.join(' |' + ''.join(' ' + fmt(h) for g in gl for h in rows[g]) for gl in ranks)
        if ' '.join(r.split()) != ' '.join(exp.split()):
            bad.append((i, 'C09 %s on %d ranks: the values a rank holds differ from the file: %s'
                        % (ext, len(ranks), diff_at(r, exp))))
    return bad


def _mpi(name, gen, nps, site=None):
    s = Stream(name, 'h_sol', 'formats', gen, oracle=oracle_fields_mpi, np=nps, whitebox=('ref_part',),
               nontrivial=lambda op, out: True, session='\x00none', timeout=240, batches={'quick': 1, 'thorough': 3},
               site=site)
    if nps is not None:
        s.ops_file = True
    return s


FIELDS_SER = _mpi('formats_fields', gen_fields_mpi, None)
FIELDS_RST_MPI = _mpi('formats_rst_mpi', gen_rst_mpi, [2, 3])
FIELDS_SNAP_MPI = _mpi('formats_snap_mpi', gen_snap_mpi, [2], site=SITE_SNAP_BCAST)
FIELDS_SNAP_MPI.crash_site = SITE_SNAP_BCAST


# ------------------------------------------------------------------------------------------------
# the witnesses as Lean text (checks/c20.py verifies that Props/C20Formats.lean contains exactly these)
# ------------------------------------------------------------------------------------------------
def lean_tok(t):
    if t == 'n:':
        return '.nl'
    if t == 'r:':
        return '.crlf'
    if t.startswith('i:'):
        v = int(t[2:])
        return '.int %d' % v if v >= 0 else '.int (%d)' % v
    if t.startswith('f:'):
        return '.num 0x%s' % t[2:]
    if t.startswith('w:'):
        return '.word "%s"' % t[2:]
    if t.startswith('x:'):
        s = bytes.fromhex(t[2:]).decode()
        if len(s) > 100 and s == s[0] * len(s):
            return ".word (String.ofList (List.replicate %d '%s'))" % (len(s), s[0])
        return '.word "%s"' % s
    raise ValueError(t)


def lean_tokens(toks):
    return '[' + ', '.join(lean_tok(t) for t in toks) + ']'


def lean_witness_text():
    out = {}
    for k, (ext, toks) in WITNESS.items():
        out[k] = lean_tokens(toks)
    for k, b in list(BWITNESS.items()) + list(FWITNESS.items()) + [('snap_ok', SNAP_OK)]:
        out[k] = '[' + ', '.join('%d' % x for x in b) + ']'
    return out


# a well-formed one-field version-2 .snap for a one-vertex grid (52 bytes)
SNAP_OK = write_snap(2, 1, [[ONE]], names=[''])[0]
