"""Streams for the `cavity` work package (C01): the cavity machine of ref_cavity.c.

diff streams (harness h_cavity  <->  refdrv cavity):
  cavity_ops     edge-split / edge-collapse / star cavities on generated tet and tri meshes, random insertion
                 orders, replace, repeated cavities on the same grid (slot reuse in cavity, ref_cell and ref_node)
  cavity_bad     deliberately inconsistent insertions (same tet twice, same-orientation duplicate face, non-manifold
                 face sets, faces with dangling sides, ghost nodes, wrong states, junk ops)
  cavity_valid   the C01 predicate `Valid` against refine's own ref_validation_* on valid and damaged meshes
oracle (Python, exact rational arithmetic, on the implementation's own output): after every successful replace the
  signed boundary of the mesh is unchanged, total volume is conserved exactly, every face of the new star is shared
  by two tets or a tet and a tri, and every new tet has volume > 1e-15 when the cavity passed check_visible.
"""
import random
import struct
from fractions import Fraction

from . import meshgen, cli, common
from .common import Stream


def hx(x):
    return '%016x' % struct.unpack('<Q', struct.pack('<d', float(x)))[0]


def unhx(s):
    return struct.unpack('<d', struct.pack('<Q', int(s, 16)))[0]


TET_FACES = [(1, 3, 2), (0, 2, 3), (0, 3, 1), (0, 1, 2)]


# ------------------------------------------------------------------ mesh -> ops
def grid_ops(verts, tets, tris, edgs=(), twod=False):
    ops = ['reset twod' if twod else 'reset']
    for p in verts:
        p = tuple(p) + (0.0,) * (3 - len(p))
        ops.append('node %s %s %s' % (hx(p[0]), hx(p[1]), hx(p[2])))
    for t in tets:
        ops.append('tet %d %d %d %d' % tuple(t[:4]))
    for t in tris:
        ops.append('tri %d %d %d %d' % tuple(t[:4]))
    for e in edgs:
        ops.append('edg %d %d %d' % tuple(e[:3]))
    return ops


def box(rng, small=True):
    n = [rng.randint(1, 2) for _ in range(3)] if small else [rng.randint(2, 3) for _ in range(3)]
    v, t, s = meshgen.box_tets(n[0], n[1], n[2], rng, rng.choice([0.0, 0.15, 0.3]),
                               patches=rng.choice(['sides', 'one', 'split']))
    return [tuple(p) for p in v], [tuple(x[:4]) for x in t], [tuple(x[:4]) for x in s]


def square(rng):
    n = [rng.randint(2, 4) for _ in range(2)]
    v, t, e = meshgen.square_tris(n[0], n[1], rng, rng.choice([0.0, 0.2]), patches=rng.choice(['sides', 'one']))
    # the harness works on twod grids in the plane z=0
    return [tuple(p) + (0.0,) for p in v], [tuple(x[:4]) for x in t], [tuple(x[:3]) for x in e]


def edges_of(cells, k):
    es = set()
    for c in cells:
        for i in range(k):
            for j in range(i + 1, k):
                es.add((min(c[i], c[j]), max(c[i], c[j])))
    return sorted(es)


def mid(verts, a, b, t=0.5):
    return tuple((1 - t) * x + t * y for x, y in zip(verts[a], verts[b]))


TAIL = ['dump', 'visible', 'dump', 'verify', 'replace', 'dump', 'grid']


# ------------------------------------------------------------------ generators
def session_split3(rng, ncav):
    v, t, s = box(rng, small=rng.random() < 0.7)
    ops = grid_ops(v, t, s)
    nn = len(v)
    for _ in range(ncav):
        # the model keeps its own grid, so cavities can be chained on the adapted mesh; edges are taken from the
        # ORIGINAL mesh: after a replace some may have disappeared, which exercises the empty-cavity paths
        a, b = rng.choice(edges_of(t, 4))
        if rng.random() < 0.5:
            a, b = b, a
        p = mid(v, a, b, rng.choice([0.5, 0.3, 0.7]))
        ops.append('node %s %s %s' % (hx(p[0]), hx(p[1]), hx(p[2])))
        ops.append('form_split %d %d %d' % (a, b, nn))
        nn += 1
        ops += TAIL
    return ops


def session_collapse3(rng, ncav):
    v, t, s = box(rng, small=False)
    ops = grid_ops(v, t, s)
    for _ in range(ncav):
        a, b = rng.choice(edges_of(t, 4))
        if rng.random() < 0.5:
            a, b = b, a
        ops.append('form_collapse %d %d' % (a, b))
        ops += TAIL
    return ops


def session_2d(rng, ncav):
    v, t, e = square(rng)
    ops = grid_ops(v, [], t, e, twod=True)
    nn = len(v)
    for _ in range(ncav):
        a, b = rng.choice(edges_of(t, 3))
        if rng.random() < 0.5:
            a, b = b, a
        if rng.random() < 0.6:
            p = mid(v, a, b, rng.choice([0.5, 0.4]))
            ops.append('node %s %s %s' % (hx(p[0]), hx(p[1]), hx(p[2])))
            ops.append('form_split %d %d %d' % (a, b, nn))
            nn += 1
        else:
            ops.append('form_collapse %d %d' % (a, b))
        ops += TAIL
    return ops


def session_star(rng):
    """the tets around a vertex (or an edge) added one by one in random order: the face list depends on the order
    only through the slot numbering"""
    v, t, s = box(rng, small=False)
    ops = grid_ops(v, t, s)
    if rng.random() < 0.5:
        c = rng.randrange(len(v))
        star = [i for i, x in enumerate(t) if c in x]
    else:
        a, b = rng.choice(edges_of(t, 4))
        c = a
        star = [i for i, x in enumerate(t) if a in x and b in x]
    for rep in range(2):
        rng.shuffle(star)
        ops.append('new')
        ops.append('form %d' % c)
        for i in star:
            ops.append('add_tet %d' % i)
            if rng.random() < 0.2:
                ops.append('dump')
        if rng.random() < 0.3 and star:
            ops.append('add_tet %d' % rng.choice(star))  # already have it
        ops += ['dump', 'verify', 'visible', 'dump']
    ops += ['replace', 'dump', 'grid']
    return ops


def gen_ops(rng, tier):
    ops = []
    k = 1 if tier == 'quick' else 3
    for _ in range(10 * k):
        ops += session_split3(rng, rng.randint(1, 4))
    for _ in range(8 * k):
        ops += session_collapse3(rng, rng.randint(1, 3))
    for _ in range(10 * k):
        ops += session_2d(rng, rng.randint(1, 4))
    for _ in range(8 * k):
        ops += session_star(rng)
    return ops


# ------------------------------------------------------------------ inconsistent / malformed
def session_bad(rng):
    v, t, s = box(rng, small=True)
    ops = grid_ops(v, t, s)
    kind = rng.choice(['twice', 'dupface', 'nonmanifold', 'dangling', 'ghost', 'state', 'junk', 'faces', 'segs',
                       'rev2', 'pinch'])
    c = rng.randrange(len(v))
    ops.append('form %d' % c)
    if kind == 'twice':
        i = rng.randrange(len(t))
        ops += ['add_tet %d' % i, 'add_tet %d' % i, 'dump', 'add_tet %d' % (len(t) + rng.randint(0, 3)), 'add_tet -1']
    elif kind == 'dupface':
        i = rng.randrange(len(t))
        f = [t[i][k] for k in rng.choice(TET_FACES)]
        r = rng.randrange(3)
        f = f[r:] + f[:r]
        ops += ['add_tet %d' % i, 'insert_face %d %d %d' % tuple(f), 'dump']
    elif kind == 'nonmanifold':
        # two tets sharing only an edge or only a vertex: after both are added some directed side has two partners
        pairs = [(i, j) for i in range(len(t)) for j in range(i + 1, len(t))
                 if 1 <= len(set(t[i]) & set(t[j])) <= 2]
        if pairs:
            i, j = rng.choice(pairs)
            ops += ['add_tet %d' % i, 'add_tet %d' % j]
        ops += ['dump', 'verify', 'dump', 'set_state 1', 'replace', 'dump']
    elif kind == 'dangling':
        i = rng.randrange(len(t))
        ops += ['add_tet %d' % i]
        f = [t[i][k] for k in rng.choice(TET_FACES)]
        ops += ['insert_face %d %d %d' % (f[2], f[1], f[0]), 'dump', 'verify', 'set_state 1', 'replace', 'dump', 'grid']
    elif kind == 'ghost':
        ops.append('ghost %d' % rng.randrange(len(v)))
        for i in rng.sample(range(len(t)), min(4, len(t))):
            ops.append('add_tet %d' % i)
        for i in rng.sample(range(len(s)), min(3, len(s))):
            ops.append('add_tri %d' % i)
        a, b = rng.choice(edges_of(t, 4))
        ops += ['dump', 'form_collapse %d %d' % (a, b), 'dump', 'form_split %d %d %d' % (a, b, c), 'dump']
    elif kind == 'state':
        i = rng.randrange(len(t))
        ops += ['set_state %d' % rng.randint(0, 6), 'add_tet %d' % i, 'dump', 'visible', 'verify', 'replace', 'dump',
                'set_state 5', 'verify', 'replace']
    elif kind == 'faces':
        # random face soup: exercises find_face rotations / reversals and slot reuse past the first growth (10 -> 110)
        m = rng.choice([6, 15, 40, 130])
        pool = rng.randint(4, 9)
        for _ in range(m):
            f = rng.sample(range(pool), 3)
            ops.append('insert_face %d %d %d' % tuple(f))
            if rng.random() < 0.25:
                g = rng.sample(range(pool), 3)
                ops.append('find_face %d %d %d' % tuple(g))
        ops += ['dump', 'verify', 'dump']
    elif kind == 'segs':
        m = rng.choice([5, 14, 120])
        pool = rng.randint(3, 8)
        for _ in range(m):
            a, b = rng.sample(range(pool), 2)
            ops.append('insert_seg %d %d %d' % (a, b, rng.choice([1, 1, 1, 2])))
            if rng.random() < 0.1:
                ops.append('set_state 0')
        ops += ['dump', 'verify', 'dump']
    elif kind == 'rev2':
        # a face, its reverse (cancels), the face again (fits the freed slot), a rotation of it (invalid)
        f = rng.sample(range(len(v)), 3)
        ops += ['insert_face %d %d %d' % (f[0], f[1], f[2]), 'insert_face %d %d %d' % (f[1], f[0], f[2]), 'dump',
                'insert_face %d %d %d' % (f[2], f[0], f[1]), 'insert_face %d %d %d' % (f[1], f[2], f[0]), 'dump']
    elif kind == 'pinch':
        # closed face sets that touch along an edge: each directed side of the shared edge has two partners
        a, b, p, q, r, u = rng.sample(range(max(6, len(v))), 6) if len(v) >= 6 else (0, 1, 2, 3, 4, 5)
        for (x, y, z, w) in [(a, b, p, q), (b, a, r, u)]:
            for k in TET_FACES:
                n = (x, y, z, w)
                ops.append('insert_face %d %d %d' % (n[k[0]], n[k[1]], n[k[2]]))
        ops += ['dump', 'verify', 'dump']
    else:
        for _ in range(12):
            ops.append(rng.choice(['add_tet x', 'insert_face 1 2', 'insert_face -1 2 3', 'form -7', 'replace now',
                                   'tet 0 0 1 2', 'tet 0 1 2 %d' % (len(v) + 5), 'tri 0 1 1 3', 'frobnicate',
                                   'add_tri 99999', 'insert_seg 1 -4 1', 'visible', 'verify', 'dump', 'grid',
                                   'surf_node %d' % rng.randrange(len(v)), 'node zz 0 0', 'set_state 9']))
    return ops


def gen_bad(rng, tier):
    ops = []
    for _ in range(60 if tier == 'quick' else 200):
        ops += session_bad(rng)
    return ops


# ------------------------------------------------------------------ Valid vs ref_validation
def valid_line(dim, v, cells, bnd):
    w = ['valid%d' % dim, str(len(v)), str(len(cells)), str(len(bnd))]
    for p in v:
        p = tuple(p) + (0.0,) * (3 - len(p))
        w += [hx(p[0]), hx(p[1]), hx(p[2])]
    for c in cells:
        w += [str(x) for x in c[:4]]
    for c in bnd:
        w += [str(x) for x in c[:(4 if dim == 3 else 3)]]
    return ' '.join(w)


def damage3(rng, v, t, s):
    v, t, s = list(v), list(t), list(s)
    kind = rng.choice(['none', 'none', 'flip', 'drop_tet', 'dup_tet', 'drop_tri', 'dup_tri', 'extra_node', 'move',
                       'range', 'tri_off', 'flip_tri'])
    if kind == 'flip':
        i = rng.randrange(len(t)); a = t[i]; t[i] = (a[1], a[0], a[2], a[3])
    elif kind == 'drop_tet':
        t.pop(rng.randrange(len(t)))
    elif kind == 'dup_tet':
        t.append(t[rng.randrange(len(t))])
    elif kind == 'drop_tri':
        s.pop(rng.randrange(len(s)))
    elif kind == 'dup_tri':
        s.append(s[rng.randrange(len(s))])
    elif kind == 'extra_node':
        v.append((0.5, 0.5, 0.5))
    elif kind == 'move':
        i = rng.randrange(len(v)); v[i] = tuple(x + rng.uniform(-1.5, 1.5) for x in v[i])
    elif kind == 'range':
        i = rng.randrange(len(t)); a = list(t[i]); a[rng.randrange(4)] = len(v) + rng.randint(0, 2); t[i] = tuple(a)
    elif kind == 'tri_off':
        i = rng.randrange(len(s)); a = list(s[i]); a[rng.randrange(3)] = rng.randrange(len(v))
        if len(set(a[:3])) == 3:
            s[i] = tuple(a)
    elif kind == 'flip_tri':
        i = rng.randrange(len(s)); a = s[i]; s[i] = (a[1], a[0], a[2], a[3])
    return kind, v, t, s


def gen_valid(rng, tier):
    ops = []
    for _ in range(40 if tier == 'quick' else 150):
        v, t, s = box(rng, small=rng.random() < 0.6)
        kind, v, t, s = damage3(rng, v, t, s)
        ops.append('# ' + kind)
        ops.append(valid_line(3, v, t, s))
    for _ in range(15 if tier == 'quick' else 50):
        v, t, e = square(rng)
        if rng.random() < 0.4:
            i = rng.randrange(len(t)); a = t[i]; t[i] = (a[1], a[0], a[2], a[3])
        ops.append(valid_line(2, v, t, e))
    return ops


# ------------------------------------------------------------------ oracle for cavity_ops / cavity_bad
def fvol(v, a, b, c, d):
    """-det/6 with exact rationals (ref_node_tet_vol)"""
    A, B, C, D = (tuple(Fraction(x) for x in v[k]) for k in (a, b, c, d))
    m11 = (A[0] - D[0]) * ((B[1] - D[1]) * (C[2] - D[2]) - (C[1] - D[1]) * (B[2] - D[2]))
    m12 = (A[1] - D[1]) * ((B[0] - D[0]) * (C[2] - D[2]) - (C[0] - D[0]) * (B[2] - D[2]))
    m13 = (A[2] - D[2]) * ((B[0] - D[0]) * (C[1] - D[1]) - (C[0] - D[0]) * (B[1] - D[1]))
    return -(m11 - m12 + m13) / 6


def parse_rows(s):
    s = s.strip()
    if s == '-' or not s:
        return []
    return [tuple(int(x) for x in r.split(',')) for r in s.split()]


def parse_grid(line):
    p = line.split('|')
    return parse_rows(p[0]), parse_rows(p[1]), parse_rows(p[2])


def signed_boundary(tets, tris):
    """the chain  sum_tets d(tet) - sum_tris tri  with coefficients in Z on oriented faces (key = sorted triple,
    sign = parity of the sorting permutation): the C01 conformity statement at chain level"""
    ch = {}

    def add(f, c):
        k = tuple(sorted(f))
        perm = [k.index(x) for x in f]
        sgn = 1 if perm in ([0, 1, 2], [1, 2, 0], [2, 0, 1]) else -1
        ch[k] = ch.get(k, 0) + sgn * c
        if ch[k] == 0:
            del ch[k]
    for t in tets:
        for f in TET_FACES:
            add((t[f[0]], t[f[1]], t[f[2]]), 1)
    for t in tris:
        add(t[:3], -1)
    return ch


def unsigned_cover(tets, tris):
    cnt = {}
    for t in tets:
        for f in TET_FACES:
            k = tuple(sorted((t[f[0]], t[f[1]], t[f[2]])))
            c = cnt.setdefault(k, [0, 0]); c[0] += 1
    for t in tris:
        k = tuple(sorted(t[:3]))
        c = cnt.setdefault(k, [0, 0]); c[1] += 1
    return cnt


def oracle_ops(ops, impl):
    """C01 stated on the implementation's own dumps: a successful ref_cavity_replace on a conforming grid keeps it
    conforming (unsigned: every face in 2 tets or 1 tet + 1 tri), keeps the signed boundary chain, conserves the
    volume exactly (rational arithmetic on the bit patterns) and, after check_visible said VISIBLE, every new tet has
    volume > 1e-15."""
    bad = []
    verts = {}
    before = None      # (tets, tris) at the last `grid` dump of this session
    visible = False
    twod = False
    nnode = 0
    for i, (op, line) in enumerate(zip(ops, impl)):
        w = op.split()
        if not w:
            continue
        if w[0] == 'reset':
            verts, before, visible, nnode = {}, None, False, 0
            twod = len(w) > 1 and w[1] == 'twod'
            pending = None
        elif w[0] == 'node' and line.startswith('ok '):
            try:
                verts[int(line.split()[1])] = (unhx(w[1]), unhx(w[2]), unhx(w[3]))
            except Exception:
                pass
        elif w[0] == 'visible':
            visible = line == 'ok 1'
        elif w[0] in ('new', 'form_split', 'form_collapse', 'set_state'):
            visible = False
        elif w[0] == 'grid' and '|' in line:
            tets, tris, edgs = parse_grid(line)
            if before is not None and before[2] and not twod:
                bt, bs = before[0], before[1]
                ok_before = all((c == [2, 0] or c == [1, 1]) for c in unsigned_cover(bt, bs).values()) and \
                    not signed_boundary(bt, bs)
                if ok_before:
                    cover = unsigned_cover(tets, tris)
                    if any(not (c == [2, 0] or c == [1, 1]) for c in cover.values()):
                        k = [k for k, c in cover.items() if not (c == [2, 0] or c == [1, 1])][0]
                        bad.append((i, 'after replace face %s is in %d tets and %d tris' % (k, cover[k][0], cover[k][1])))
                    if signed_boundary(tets, tris):
                        bad.append((i, 'after replace the signed boundary chain is not zero'))
                    try:
                        v0 = sum(fvol(verts, *t[:4]) for t in bt)
                        v1 = sum(fvol(verts, *t[:4]) for t in tets)
                        # exact conservation is a theorem when only tets change (cone4 for ANY position of the
                        # cavity node); when boundary tris are replaced the domain itself may move
                        if sorted(bs) == sorted(tris) and v0 != v1:
                            bad.append((i, 'replace changed the total volume by %s' % float(v1 - v0)))
                        if before[3]:
                            old = set(bt)
                            for t in tets:
                                if t not in old and fvol(verts, *t[:4]) <= Fraction(1e-15) / 2:
                                    bad.append((i, 'visible cavity produced tet %s with volume %s' % (t, float(fvol(verts, *t[:4])))))
                                    break
                    except KeyError:
                        pass
            before = [tets, tris, False, False]
        elif w[0] == 'replace' and len(w) == 1:
            if before is not None:
                before[2] = line.startswith('ok ')
                before[3] = visible
            visible = False
    return bad


def session_wrap(sess):
    """every cavity session dumps the grid before its first cavity so that the oracle has a `before`"""
    return sess


def with_grid_dumps(ops):
    out = []
    for op in ops:
        if op.startswith(('form_split', 'form_collapse', 'new')):
            out.append('grid')
        out.append(op)
    return out


def gen_ops_g(rng, tier):
    return with_grid_dumps(gen_ops(rng, tier))


def gen_bad_g(rng, tier):
    return gen_bad(rng, tier)


def nontrivial(op, out):
    return not out.startswith('bad-op')


OPS = Stream('cavity_ops', 'h_cavity', 'cavity', gen_ops_g, oracle=oracle_ops, whitebox=['ref_cavity'],
             nontrivial=nontrivial)
BAD = Stream('cavity_bad', 'h_cavity', 'cavity', gen_bad_g, oracle=oracle_ops, whitebox=['ref_cavity'],
             nontrivial=nontrivial)
VALID = Stream('cavity_valid', 'h_cavity', 'cavity', gen_valid, whitebox=['ref_cavity'], nontrivial=nontrivial)


# ------------------------------------------------------------------ end-to-end: pass counts 0 and 1 always present
def gen_adapt_passes(rng, tier, np=None):
    ops = []
    for passes in (0, 1):
        ops.append('adapt dim=3 n=%d,%d,%d jitter=%.2f patches=%s mseed=%d metric=uniform:%.3f passes=%d' %
                   (rng.randint(1, 2), rng.randint(1, 2), rng.randint(1, 2), rng.choice([0, 0.3]),
                    rng.choice(['sides', 'one', 'random']), rng.randint(1, 10 ** 6), rng.uniform(0.3, 0.7), passes))
        ops.append('adapt dim=2 n=%d,%d jitter=%.2f patches=%s mseed=%d metric=uniform:%.3f passes=%d' %
                   (rng.randint(2, 4), rng.randint(2, 4), rng.choice([0, 0.3]), rng.choice(['sides', 'one']),
                    rng.randint(1, 10 ** 6), rng.uniform(0.15, 0.5), passes))
    # strongly anisotropic 2-D requests on a mesh that is not aligned with them: the regime in which a smoothing
    # move can leave the star of its vertex (orientation guard of ref_smooth_no_geom_tri_improve)
    for passes in (2, 4):
        ops.append('adapt dim=2 n=%d,%d jitter=%.2f patches=sides mseed=%d metric=%s passes=%d' %
                   (rng.randint(3, 5), rng.randint(3, 5), rng.choice([0.2, 0.3]), rng.randint(1, 10 ** 6),
                    rng.choice(['aniso:0.100,%.4f,1' % rng.uniform(0.0003, 0.0006),
                                'rot:%.4f,0.100,1,%.3f' % (rng.uniform(0.0003, 0.0006), rng.uniform(0.2, 1.3))]), passes))
    return ops


ADAPT_PASSES = Stream('cli_adapt_passes01', cli.cli_harness, None, gen_adapt_passes, oracle=cli.oracle_adapt,
                      kind='oracle', nontrivial=lambda op, out: out.startswith('rc=0'), timeout=900)

STREAMS = [OPS, BAD, VALID]
