"""Independent reader/writer for binary libMeshb files (.meshb / .solb), written from the libMeshb
file layout, not from refine's sources (Stage-B oracle for C08/C09, mutant factory for C20).

Layout (libMeshb 7, little endian):
  int32 code (=1), int32 version
  then a chain of keywords:  int32 keyword, <pos> next-keyword position (0 = none),  payload
     <pos>  : 4 bytes for versions 1,2 ; 8 bytes for versions 3,4
     <int>  : 4 bytes for versions 1..3 ; 8 bytes for version 4        (counts and 'i' fields)
     <real> : 4 bytes (float) for version 1 ; 8 bytes otherwise          ('r' fields)
  Dimension (3)            : int32 dim                         (no count)
  regular keywords         : <int> count, then count lines of fields
     Vertices (4)          : dim x <real>, <int> ref
     elements              : nodes x <int> (1-based), <int> ref
     VerticesOnGeometricVertices (40) : <int> vertex, <int> geometry id
     VerticesOnGeometricEdges (41)    : <int> vertex, <int> id, double t, double gref
     VerticesOnGeometricTriangles(42) : <int> vertex, <int> id, double u, double v, double gref
     SolAtVertices (62)    : <int> count, int32 ntypes, ntypes x int32 type, count x (sum of sizes) doubles
                             type 1 scalar(1) 2 vector(dim) 3 symmetric matrix(dim(dim+1)/2, stored
                             xx,xy,yy[,xz,yz,zz]) 4 matrix(dim^2)
     ByteFlow (126)        : <int> nbytes, raw bytes               (refine's convention for the CAD model)
  End (54)
"""
import struct

ELEMENTS = {  # keyword: (name, nodes per element)  -- libMeshb7 keyword table
    5: ('edg', 2), 6: ('tri', 3), 7: ('qua', 4), 8: ('tet', 4), 9: ('pri', 6), 10: ('hex', 8),
    49: ('pyr', 5), 25: ('ed2', 3), 24: ('tr2', 6), 27: ('qu2', 9), 30: ('te2', 10), 33: ('he2', 27),
    86: ('pr2', 18), 87: ('py2', 14), 92: ('ed3', 4), 90: ('tr3', 10),
}
KW_OF = {v[0]: k for k, v in ELEMENTS.items()}
NODES_OF = {v[0]: v[1] for v in ELEMENTS.values()}
SOL_SIZE = {1: lambda d: 1, 2: lambda d: d, 3: lambda d: d * (d + 1) // 2, 4: lambda d: d * d}


class FormatError(Exception):
    pass


def widths(version):
    return (8 if version >= 3 else 4), (8 if version >= 4 else 4), (4 if version == 1 else 8)


def _u(fmt, b, off):
    n = struct.calcsize(fmt)
    if off < 0 or off + n > len(b):
        raise FormatError('read past end at %d' % off)
    return struct.unpack_from(fmt, b, off)[0], off + n


def parse(b):
    """-> dict(version, dim, order=[keywords in file order], sections={kw: dict}, ...)"""
    code, off = _u('<i', b, 0)
    if code != 1:
        raise FormatError('code %d' % code)
    version, off = _u('<i', b, off)
    if not 1 <= version <= 4:
        raise FormatError('version %d' % version)
    pw, iw, rw = widths(version)
    pf, itf, rf = ('<q' if pw == 8 else '<i'), ('<q' if iw == 8 else '<i'), ('<d' if rw == 8 else '<f')
    out = {'version': version, 'dim': None, 'order': [], 'sections': {}, 'offsets': {}, 'next': {}}
    pos = off
    seen = set()
    while pos != 0:
        if pos in seen:
            raise FormatError('keyword chain loops at %d' % pos)
        seen.add(pos)
        kw, o = _u('<i', b, pos)
        nxt, o = _u(pf, b, o)
        out['order'].append(kw)
        out['offsets'][kw] = pos
        out['next'][kw] = nxt
        if kw == 54:
            break
        if kw == 3:
            out['dim'], o = _u('<i', b, o)
        elif kw == 4 or kw in ELEMENTS or kw in (40, 41, 42, 62, 126):
            n, o = _u(itf, b, o)
            sec = {'count': n}
            dim = out['dim']
            if kw == 4:
                if dim not in (2, 3):
                    raise FormatError('vertices before dimension')
                rows = []
                for _ in range(n):
                    c = []
                    for _ in range(dim):
                        x, o = _u(rf, b, o)
                        c.append(x)
                    ref, o = _u(itf, b, o)
                    rows.append((tuple(struct.pack('<d', x) for x in c), ref))
                sec['rows'] = rows
            elif kw in ELEMENTS:
                npe = ELEMENTS[kw][1]
                rows = []
                for _ in range(n):
                    r = []
                    for _ in range(npe + 1):
                        x, o = _u(itf, b, o)
                        r.append(x)
                    rows.append(r)
                sec['rows'] = rows
            elif kw in (40, 41, 42):
                t = kw - 40
                rows = []
                for _ in range(n):
                    v, o = _u(itf, b, o)
                    gid, o = _u(itf, b, o)
                    ps = []
                    for _ in range(t):
                        ps.append(b[o:o + 8])
                        _, o = _u('<d', b, o)
                    gref = None
                    if t > 0:
                        gref, o = _u('<d', b, o)
                    rows.append((v, gid, ps, gref))
                sec['rows'] = rows
            elif kw == 62:
                nt, o = _u('<i', b, o)
                types = []
                for _ in range(nt):
                    t, o = _u('<i', b, o)
                    types.append(t)
                dim = out['dim']
                if dim not in (2, 3) or any(t not in SOL_SIZE for t in types):
                    raise FormatError('solution types %r dim %r' % (types, dim))
                w = sum(SOL_SIZE[t](dim) for t in types)
                rows = []
                for _ in range(n):
                    if o + 8 * w > len(b):
                        raise FormatError('solution rows past end')
                    rows.append([b[o + 8 * k:o + 8 * k + 8] for k in range(w)])
                    o += 8 * w
                sec.update(types=types, rows=rows)
            elif kw == 126:
                if o + n > len(b) or n < 0:
                    raise FormatError('byte flow past end')
                sec['bytes'] = bytes(b[o:o + n])
                o += n
            out['sections'][kw] = sec
            sec['end'] = o
            if nxt != 0 and nxt != o:
                raise FormatError('keyword %d: next position %d but payload ends at %d' % (kw, nxt, o))
        pos = nxt
        if pos > len(b):
            raise FormatError('next position %d beyond the file' % pos)
    if out['order'][-1:] != [54]:
        raise FormatError('no End keyword')
    return out


class Writer:
    """assembles a file and remembers where every field lives (for the C20 mutations)"""

    def __init__(self, version):
        self.v = version
        self.pw, self.iw, self.rw = widths(version)
        self.b = bytearray(struct.pack('<ii', 1, version))
        self.fields = [('code', 0, 4), ('version', 4, 4)]  # (kind, offset, width)
        self.bounds = [0, 4, 8]      # record boundaries
        self.sections = []           # (kw, start, end)
        self._open = None

    def _int(self, x, kind):
        self.fields.append((kind, len(self.b), self.iw))
        self.b += struct.pack('<q' if self.iw == 8 else '<i', x)

    def _real(self, bits):
        """bits: 8 bytes of a double"""
        if self.rw == 8:
            self.b += bits
        else:
            x = struct.unpack('<d', bits)[0]
            try:
                self.b += struct.pack('<f', x)
            except OverflowError:
                self.b += struct.pack('<f', float('inf') if x > 0 else float('-inf'))

    def begin(self, kw):
        start = len(self.b)
        self.fields.append(('keyword', start, 4))
        self.b += struct.pack('<i', kw)
        self.fields.append(('next', len(self.b), self.pw))
        self._open = (kw, start, len(self.b))
        self.b += b'\0' * self.pw
        self.bounds.append(len(self.b))

    def end(self, nxt=None):
        kw, start, at = self._open
        val = len(self.b) if nxt is None else nxt
        struct.pack_into('<q' if self.pw == 8 else '<i', self.b, at, val)
        self.sections.append((kw, start, len(self.b)))
        self.bounds.append(len(self.b))

    def dimension(self, dim):
        self.begin(3)
        self.fields.append(('dim', len(self.b), 4))
        self.b += struct.pack('<i', dim)
        self.end()

    def vertices(self, dim, rows, ref=1):
        self.begin(4)
        self._int(len(rows), 'count')
        for r in rows:
            for k in range(dim):
                self._real(r[k])
            self._int(ref, 'ref')
            self.bounds.append(len(self.b))
        self.end()

    def elements(self, name, rows):
        """rows: node_per 1-based indices + ref, in *file* convention"""
        self.begin(KW_OF[name])
        self._int(len(rows), 'count')
        for r in rows:
            for k, x in enumerate(r):
                self._int(x, 'ref' if k == len(r) - 1 else 'index')
            self.bounds.append(len(self.b))
        self.end()

    def geometry(self, t, rows):
        """rows: (vertex 1-based, id, [param bits]*t, gref float)"""
        self.begin(40 + t)
        self._int(len(rows), 'count')
        for v, gid, ps, gref in rows:
            self._int(v, 'index')
            self._int(gid, 'ref')
            for p in ps:
                self.b += p
            if t > 0:
                self.b += struct.pack('<d', gref)
            self.bounds.append(len(self.b))
        self.end()

    def byteflow(self, data):
        self.begin(126)
        self._int(len(data), 'count')
        self.b += data
        self.end()

    def solution(self, types, rows):
        self.begin(62)
        self._int(len(rows), 'count')
        self.fields.append(('ntype', len(self.b), 4))
        self.b += struct.pack('<i', len(types))
        for t in types:
            self.fields.append(('type', len(self.b), 4))
            self.b += struct.pack('<i', t)
        self.bounds.append(len(self.b))
        for r in rows:
            for x in r:
                self.b += x
            self.bounds.append(len(self.b))
        self.end()

    def unknown(self, kw, payload):
        self.begin(kw)
        self.b += payload
        self.end()

    def finish(self, end_keyword=True):
        if end_keyword:
            self.begin(54)
            self.end(nxt=0)
        else:
            # no End: the last keyword must say "no next keyword"
            kw, start, end = self.sections[-1]
            struct.pack_into('<q' if self.pw == 8 else '<i', self.b, start + 4, 0)
        return bytes(self.b)
