"""stream `subdiv_fn` (diff) for C13 / C04: the real ref_subdiv.c (serial, in-process, white-box) against
Refine.Model.Subdiv on small tet/tri/edg grids.

Generator: one tet, two tets sharing a face, clusters grown face by face, closed fans around an interior edge; boundary
triangles (both orientations, all rotations), edg cells on patch borders; random vertex numbering, random global ids,
random cell-local vertex order (all 12 even orders, sometimes an odd one = inverted tet); marks: random subsets and
targeted patterns on one tet (1 edge, 2 adjacent, 2 opposite, 3 of a face, 3 at a vertex, 3-path, 4, 5, 6); then any
mix of relax / unrelax / unmark_tet / negcheck, the per-cell pattern probes (tmap / fmap / emap -> the pattern histogram
lands in the evidence as status_kinds tetmapK / trimapK / edgmapK) and finally `split ag nm` or `rawsplit`.
A separate share is malformed / out-of-state / non-manifold (free triangle -> 2-edge tri+quad template, edg off the
edge table -> not_found, vertex in no tet -> failure).

Oracle (C13 stated directly on the implementation's dump, exact rationals): after every successful split each child
has the volume sign of its parent, the children's volumes add up to the parent's, the number of children fits the
pattern, no cell repeats a vertex or occurs twice, no face is in more than two tets, a face in two tets is seen with
opposite orientations, on a grid whose faces were all paired or covered by one boundary triangle they still are (and
each triangle lies on a face, with the orientation relation it had), triangle / edg children carry the id of their
parent and their (vector) areas / lengths add up with the parent's orientation, new vertices are the edge midpoints,
with allow_geometry no child is below min_volume, without new marks the final marks are a subset of the requested
ones, every tet ends on a pattern the splitter implements; relax / unrelax results are supported patterns and
super- / subsets of the marks before.
"""
import struct
from collections import Counter
from fractions import Fraction

from .common import Stream

CODE = 1000000
SUPPORTED = {0, 1, 2, 4, 8, 16, 32, 11, 56, 38, 21, 63}
E2N = [(0, 1), (0, 2), (0, 3), (1, 2), (1, 3), (2, 3)]
F2N = [(1, 3, 2), (0, 2, 3), (0, 3, 1), (0, 1, 2)]
EVEN = [p for p in __import__('itertools').permutations(range(4))
        if sum(1 for i in range(4) for j in range(i) if p[j] > p[i]) % 2 == 0]
ODD = [p for p in __import__('itertools').permutations(range(4))
       if sum(1 for i in range(4) for j in range(i) if p[j] > p[i]) % 2 == 1]


def hx(d):
    return '%016x' % struct.unpack('<Q', struct.pack('<d', float(d)))[0]


def unhx(s):
    return struct.unpack('<d', struct.pack('<Q', int(s, 16)))[0]


def vol(a, b, c, d):
    m11 = (a[0] - d[0]) * ((b[1] - d[1]) * (c[2] - d[2]) - (c[1] - d[1]) * (b[2] - d[2]))
    m12 = (a[1] - d[1]) * ((b[0] - d[0]) * (c[2] - d[2]) - (c[0] - d[0]) * (b[2] - d[2]))
    m13 = (a[2] - d[2]) * ((b[0] - d[0]) * (c[1] - d[1]) - (c[0] - d[0]) * (b[1] - d[1]))
    return -(m11 - m12 + m13) / 6


def normal(a, b, c):
    u = [b[i] - a[i] for i in range(3)]
    v = [c[i] - a[i] for i in range(3)]
    return (u[1] * v[2] - u[2] * v[1], u[2] * v[0] - u[0] * v[2], u[0] * v[1] - u[1] * v[0])


# ---------------------------------------------------------------------------------------------
# generator
# ---------------------------------------------------------------------------------------------
def q4(rng, lo, hi):
    return Fraction(rng.randint(lo * 4, hi * 4), 4)


def positive(pts, t):
    return t if vol(*[pts[v] for v in t]) > 0 else (t[0], t[2], t[1], t[3])


def grow(rng, nextra):
    while True:
        pts = [tuple(q4(rng, -4, 4) for _ in range(3)) for _ in range(4)]
        if vol(*pts) != 0:
            break
    tets = [positive(pts, (0, 1, 2, 3))]
    for _ in range(nextra):
        cnt = Counter()
        for t in tets:
            for f in F2N:
                cnt[tuple(sorted(t[i] for i in f))] += 1
        cand = [(t, f) for t in tets for f in F2N if cnt[tuple(sorted(t[i] for i in f))] == 1]
        for _try in range(20):
            t, f = rng.choice(cand)
            a, b, c = (t[i] for i in f)
            opp = [v for v in t if v not in (a, b, c)][0]
            cen = [(pts[a][i] + pts[b][i] + pts[c][i]) / 3 for i in range(3)]
            s = Fraction(rng.randint(2, 6), 4)
            p = tuple(Fraction(round((cen[i] + s * (cen[i] - pts[opp][i])) * 4), 4) + q4(rng, -1, 1) * 0
                      for i in range(3))
            if p in pts:
                continue
            v_new = vol(pts[a], pts[b], pts[c], p)
            v_old = vol(pts[a], pts[b], pts[c], pts[opp])
            if v_new == 0 or (v_new > 0) == (v_old > 0):
                continue
            pts.append(p)
            tets.append(positive(pts, (a, b, c, len(pts) - 1)))
            break
    return pts, tets


def fan(rng, k):
    import math
    pts = [(Fraction(0), Fraction(0), Fraction(-3)), (Fraction(0), Fraction(0), Fraction(3))]
    for i in range(k):
        ang = 2 * math.pi * i / k
        pts.append((Fraction(round(16 * math.cos(ang)), 4), Fraction(round(16 * math.sin(ang)), 4), q4(rng, -1, 1)))
    tets = [positive(pts, (0, 1, 2 + i, 2 + (i + 1) % k)) for i in range(k)]
    return pts, tets


def build_mesh(rng):
    kind = rng.choice(['one', 'one', 'two', 'cluster', 'cluster', 'fan', 'big'])
    if kind == 'one':
        pts, tets = grow(rng, 0)
    elif kind == 'two':
        pts, tets = grow(rng, 1)
    elif kind == 'cluster':
        pts, tets = grow(rng, rng.randint(2, 5))
    elif kind == 'big':
        pts, tets = grow(rng, rng.randint(6, 12))
    else:
        pts, tets = fan(rng, rng.randint(3, 6))
    if rng.random() < 0.25:  # general doubles (midpoints round)
        pts = [tuple(Fraction(float(c) + rng.uniform(-0.2, 0.2)) for c in p) for p in pts]
        tets = [t for t in tets if vol(*[pts[v] for v in t]) > 0] or tets
    # boundary faces (oriented as the tet lists them)
    cnt = Counter()
    for t in tets:
        for f in F2N:
            cnt[tuple(sorted(t[i] for i in f))] += 1
    bfaces = [tuple(t[i] for i in f) for t in tets for f in F2N if cnt[tuple(sorted(t[i] for i in f))] == 1]
    flip = rng.random() < 0.5
    cover = rng.choice([1.0, 1.0, 1.0, 0.5, 0.0])
    tris = []
    for f in bfaces:
        if rng.random() < cover:
            r = rng.randrange(3)
            g = f[r:] + f[:r]
            if flip:
                g = (g[0], g[2], g[1])
            tris.append(g + (rng.randint(1, 3),))
    edgs = []
    side = {}
    for t in tris:
        for i in range(3):
            side.setdefault(tuple(sorted((t[i], t[(i + 1) % 3]))), []).append(t[3])
    for e, ids in sorted(side.items()):
        if (len(set(ids)) > 1 and rng.random() < 0.7) or rng.random() < 0.05:
            edgs.append((e[0], e[1], rng.randint(1, 9)) if rng.random() < 0.5 else (e[1], e[0], rng.randint(1, 9)))
    # random numbering and local orders
    n = len(pts)
    perm = list(range(n))
    rng.shuffle(perm)  # old -> new
    npts = [None] * n
    for o, w in enumerate(perm):
        npts[w] = pts[o]
    inverted = rng.random() < 0.2
    ntets = []
    for t in tets:
        p = rng.choice(ODD) if (inverted and rng.random() < 0.3) else rng.choice(EVEN)
        ntets.append(tuple(perm[t[p[i]]] for i in range(4)))
    rng.shuffle(ntets)
    ntris = [(perm[a], perm[b], perm[c], i) for a, b, c, i in tris]
    rng.shuffle(ntris)
    nedgs = [(perm[a], perm[b], i) for a, b, i in edgs]
    globs = rng.sample(range(0, 5000), n)
    return npts, globs, ntets, ntris, nedgs


def tet_edges(t):
    return [tuple(sorted((t[a], t[b]))) for a, b in E2N]


PATTERNS = {
    '1': [[0], [1], [2], [3], [4], [5]],
    '2adj': [[0, 1], [0, 3], [3, 5], [2, 4], [1, 5]],
    '2opp': [[0, 5], [1, 4], [2, 3]],
    '3face': [[0, 1, 3], [3, 4, 5], [1, 2, 5], [0, 2, 4]],
    '3vert': [[0, 1, 2], [0, 3, 4], [1, 3, 5], [2, 4, 5]],
    '3path': [[0, 3, 5], [1, 3, 4], [2, 4, 3], [0, 4, 5]],
    '4': [[0, 1, 3, 2], [1, 2, 3, 4], [0, 5, 1, 4], [0, 1, 2, 3]],
    '5': [[0, 1, 2, 3, 4], [1, 2, 3, 4, 5], [0, 2, 3, 4, 5]],
    '6': [[0, 1, 2, 3, 4, 5]],
}


def session(rng, ops, wild):
    pts, globs, tets, tris, edgs = build_mesh(rng)
    ops.append('reset')
    for g, p in zip(globs, pts):
        ops.append('node %d %s %s %s' % (g, hx(p[0]), hx(p[1]), hx(p[2])))
    n = len(pts)
    if wild and rng.random() < 0.3:  # a vertex in no tet
        ops.append('node %d %s %s %s' % (6000 + rng.randint(0, 99), hx(9), hx(9), hx(9)))
    for t in tets:
        ops.append('tet %d %d %d %d' % t)
    if wild and rng.random() < 0.3:
        ops.append('tet %d %d %d %d' % (0, 0, 1, 2))  # repeated vertex: refused
    for t in tris:
        ops.append('tri %d %d %d %d' % t)
    all_edges = sorted({e for t in tets for e in tet_edges(t)})
    quadcase = None
    if wild and len(tets) >= 2 and rng.random() < 0.6:  # free triangle: its sides get any mark pattern
        a, b, c = rng.sample(range(n), 3)
        inner = {}
        for t in tets:
            for f in F2N:
                inner.setdefault(frozenset(t[i] for i in f), []).append([v for v in t if v not in [t[i] for i in f]][0])
        pairs = [(sorted(f), ap) for f, ap in sorted(inner.items(), key=lambda x: sorted(x[0])) if len(ap) == 2]
        if pairs and rng.random() < 0.7:  # (apex, face vertex, apex): two sides are tet edges, the third is not
            f, ap = rng.choice(pairs)
            x = rng.choice(f)
            r = rng.randrange(3)
            a, b, c = ([ap[0], x, ap[1]] * 2)[r:r + 3]
            quadcase = [(ap[0], x), (x, ap[1])]
        ops.append('tri %d %d %d %d' % (a, b, c, 5))
        tris = tris + [(a, b, c, 5)]
    for e in edgs:
        ops.append('edg %d %d %d' % e)
    if wild and rng.random() < 0.3 and n >= 5:
        a, b = rng.sample(range(n), 2)
        ops.append('edg %d %d 4' % (a, b))  # possibly not an edge of any cell -> not_found at split
    ops.append('begin')
    # marks
    mode = rng.choice(['rand', 'rand', 'pattern', 'pattern', 'pattern', 'all', 'few'])
    if quadcase and rng.random() < 0.7:
        mode = 'quad'
        for e in quadcase:
            ops.append('mark %d %d' % e)
    if mode == 'quad':
        pass
    elif mode == 'rand':
        p = rng.choice([0.1, 0.3, 0.6])
        for e in all_edges:
            if rng.random() < p:
                ops.append('mark %d %d' % (e if rng.random() < 0.5 else e[::-1]))
    elif mode == 'few':
        for e in rng.sample(all_edges, min(len(all_edges), rng.randint(1, 2))):
            ops.append('mark %d %d' % e)
    elif mode == 'all':
        ops.append('markall')
    else:
        for _ in range(rng.choice([1, 1, 2])):
            t = rng.choice(tets)
            pat = rng.choice(PATTERNS[rng.choice(list(PATTERNS))])
            es = tet_edges(t)
            for k in pat:
                ops.append('mark %d %d' % es[k])
    if wild and mode != 'quad':
        for t in tris[-1:]:
            for i in range(3):
                if rng.random() < 0.6:
                    ops.append('mark %d %d' % (t[i], t[(i + 1) % 3]))
        if rng.random() < 0.3:
            ops.append('mark %d %d' % (rng.randint(0, n + 2), rng.randint(0, n + 2)))
    # relaxation ops
    for _ in range(rng.choice([0, 1, 1, 2, 3])):
        r = rng.random()
        if r < 0.3:
            ops.append('relax')
        elif r < 0.6:
            ops.append('unrelax')
        elif r < 0.8:
            ops.append('unmark_tet %d' % rng.randrange(len(tets)))
        else:
            ops.append('negcheck')
    final = rng.choice(['split 1 0', 'split 1 0', 'split 1 1', 'split 1 1', 'split 0 1', 'split 0 0', 'rawsplit'])
    if final == 'rawsplit' or rng.random() < 0.6:
        if final == 'rawsplit':
            ops.append(rng.choice(['relax', 'unrelax']))
        for c in range(len(tets)):
            ops.append('tmap %d' % c)
        for c in range(len(tris)):
            ops.append('fmap %d' % c)
        for c in range(len(edgs)):
            ops.append('emap %d' % c)
    ops.append(final)
    if rng.random() < 0.1:
        ops.append(rng.choice(['relax', 'tmap 0', 'split 1 1', 'begin']))  # after the split: refused


GARBAGE = ['mark 0 1', 'relax', 'begin', 'begin', 'tet 0 1 2 3', 'tmap 0', 'split 1 1', 'rawsplit', 'node -1 0 0 0',
           'node 5 zz 0 0', 'tri 0 1 2', 'unmark_tet 99', 'unmark_tet -1', 'fmap 7', 'emap 0', 'mark 0 2000', 'frob',
           'split 1', 'negcheck', 'unrelax', 'markall', 'tet 0 1 2 1000', 'edg 0 0 1', 'node 7 %s %s %s' % (hx(0), hx(1), hx(2))]


def gen(rng, tier):
    ops = []
    nsess = 500 if tier == 'quick' else 1500
    for k in range(nsess):
        wild = rng.random() < 0.15
        start = len(ops)
        session(rng, ops, wild)
        if wild:  # sprinkle malformed / out-of-state lines
            for _ in range(rng.randint(0, 3)):
                ops.insert(rng.randint(start + 1, len(ops)), rng.choice(GARBAGE))
    return ops


# ---------------------------------------------------------------------------------------------
# oracle
# ---------------------------------------------------------------------------------------------
def parity_sorted(t):
    """(sorted tuple, sign) of a vertex tuple"""
    inv = sum(1 for i in range(len(t)) for j in range(i) if t[j] > t[i])
    return tuple(sorted(t)), (-1 if inv % 2 else 1)


def support(v):
    if v >= CODE:
        return {(v - CODE) // 1000, (v - CODE) % 1000}
    return {v}


def rows_of(field, n):
    ws = field.split()[1:]
    return [tuple(int(x) for x in w.split(',')) for w in ws]


def cell_map(marks, edge_index, t):
    m = 0
    for k, (a, b) in enumerate(E2N):
        m += (1 << k) * marks[edge_index[frozenset((t[a], t[b]))]]
    return m


class Sess:
    def __init__(self):
        self.pts = []
        self.tets = []
        self.tris = []
        self.edgs = []
        self.edges = None
        self.marks = None
        self.done = False


def check_split(i, op, line, s, out):
    def bad(msg):
        out.append((i, '%s: %s' % (op, msg)))

    fields = [f.strip() for f in line.split('|')]
    if fields[0].split()[1] != 'ok':
        return
    marks = [int(x) for x in fields[1].split()[1:]]
    tets = rows_of(fields[2], 4)
    tris = rows_of(fields[3], 4)
    quas = rows_of(fields[4], 5)
    edgs = rows_of(fields[5], 3)
    new = {}
    for w in fields[6].split()[1:]:
        c, x, y, z = w.split(':')
        new[int(c)] = tuple(Fraction(unhx(h)) for h in (x, y, z))
    pos = {k: p for k, p in enumerate(s.pts)}
    exact = True
    for c, p in new.items():
        a, b = sorted(support(c))
        mid = tuple((s.pts[a][k] + s.pts[b][k]) / 2 for k in range(3))
        if p != mid:
            exact = False
            scale = max(1, max(abs(x) for x in mid))
            if any(abs(p[k] - mid[k]) > Fraction(1, 10 ** 12) * scale for k in range(3)):
                bad('new vertex %d is not the midpoint of its edge' % c)
        pos[c] = p
    edge_index = {frozenset(e): k for k, e in enumerate(s.edges)}
    if len(marks) != len(s.edges):
        bad('mark count changed')
        return
    for k, e in enumerate(s.edges):
        c = CODE + 1000 * min(e) + max(e)
        if (marks[k] != 0) != (c in new):
            bad('edge %s: mark %d but new vertex %s' % (e, marks[k], c in new))
    # marks: supported everywhere; subset when no new marks are allowed
    before = s.marks
    for t in s.tets:
        if cell_map(marks, edge_index, t) not in SUPPORTED:
            bad('tet %s ends on unsupported pattern %d' % (t, cell_map(marks, edge_index, t)))
    if op.startswith('split') and op.split()[2] == '0' or op == 'rawsplit':
        if any(a > b for a, b in zip(marks, before)):
            bad('a mark appeared although new marks are not allowed')
    # all vertices known
    for row in tets:
        for v in row:
            if v not in pos:
                bad('tet %s uses unknown vertex %d' % (row, v))
                return
    # children per parent
    by_parent = {}
    for c in tets:
        if len(set(c)) != 4:
            bad('tet %s repeats a vertex' % (c,))
        sup = frozenset().union(*[support(v) for v in c])
        by_parent.setdefault(sup, []).append(c)
    parents = Counter(frozenset(t) for t in s.tets)
    for sup in by_parent:
        if sup not in parents:
            bad('tets %s have no parent' % (by_parent[sup][:2],))
    dup = [t for t, c in Counter(parity_sorted(c)[0] for c in tets).items() if c > 1]
    if dup and max(parents.values(), default=1) == 1:
        bad('duplicate tet %s' % (dup[0],))
    for t in s.tets:
        key = frozenset(t)
        if parents[key] != 1:
            continue
        kids = by_parent.get(key, [])
        m = cell_map(marks, edge_index, t)
        want = {0: 1, 63: 8}.get(m, 2 if bin(m).count('1') == 1 else 4)
        if len(kids) != want:
            bad('tet %s pattern %d has %d children, expected %d' % (t, m, len(kids), want))
        if m == 0 and kids != [t]:
            bad('unmarked tet %s changed to %s' % (t, kids))
        vp = vol(*[pos[v] for v in t])
        vk = [vol(*[pos[v] for v in c]) for c in kids]
        tol = 0 if exact else Fraction(1, 10 ** 10) * max(1, abs(vp))
        if abs(sum(vk) - vp) > tol:
            bad('tet %s: children volumes sum to %s, parent has %s' % (t, float(sum(vk)), float(vp)))
        for c, v in zip(kids, vk):
            if vp != 0 and (v > 0) != (vp > 0) or (vp != 0 and v == 0):
                bad('child %s of %s has volume %s, parent %s' % (c, t, float(v), float(vp)))
            if op.startswith('split 1') and m != 0 and v < Fraction(1, 10 ** 15) - tol:
                bad('allow_geometry: child %s of %s has volume %s < min_volume' % (c, t, float(v)))
    # faces
    seen = {}
    for c in tets:
        for f in F2N:
            k, sg = parity_sorted(tuple(c[j] for j in f))
            seen.setdefault(k, []).append(sg)
    seen0 = {}
    for c in s.tets:
        for f in F2N:
            k, sg = parity_sorted(tuple(c[j] for j in f))
            seen0.setdefault(k, []).append(sg)
    count_ok0 = max(parents.values(), default=1) == 1 and all(len(sg) <= 2 for sg in seen0.values())
    orient_ok0 = count_ok0 and all(len(sg) < 2 or sg[0] != sg[1] for sg in seen0.values())
    for k, sg in seen.items():
        if len(sg) > 2 and count_ok0:
            bad('face %s is in %d tets' % (k, len(sg)))
        if len(sg) == 2 and sg[0] == sg[1] and orient_ok0:
            bad('face %s is seen twice with the same orientation' % (k,))
    # was the grid closed before?  (every face paired or covered by exactly one triangle, every triangle on a face)
    tri0 = Counter(parity_sorted(t[:3])[0] for t in s.tris)
    closed0 = max(parents.values(), default=1) == 1 and all(
        (len(sg) == 2 and tri0[k] == 0) or (len(sg) == 1 and tri0[k] == 1) for k, sg in seen0.items()) and all(
        k in seen0 for k in tri0)
    if closed0:
        tri1 = Counter(parity_sorted(t[:3])[0] for t in tris)
        for k, sg in seen.items():
            if not ((len(sg) == 2 and tri1[k] == 0) or (len(sg) == 1 and tri1[k] == 1)):
                bad('face %s: in %d tets and %d boundary triangles' % (k, len(sg), tri1[k]))
        for k in tri1:
            if k not in seen:
                bad('triangle %s is on no tet face' % (k,))
        if quas:
            bad('a quad appeared on a closed tet grid')
        # orientation relation triangle <-> face kept
        rel0 = set()
        for t in s.tris:
            k, sg = parity_sorted(t[:3])
            rel0.add(sg * seen0[k][0])
        for t in tris:
            k, sg = parity_sorted(t[:3])
            if k in seen and len(rel0) == 1 and (sg * seen[k][0]) not in rel0:
                bad('triangle %s has lost its orientation relative to the tet face' % (t,))
    # triangles: ids, areas
    tparents = Counter(frozenset(t[:3]) for t in s.tris)
    kids = {}
    for c in tris:
        if len(set(c[:3])) != 3:
            bad('tri %s repeats a vertex' % (c,))
        kids.setdefault(frozenset().union(*[support(v) for v in c[:3]]), []).append(('t', c))
    for c in quas:
        kids.setdefault(frozenset().union(*[support(v) for v in c[:4]]), []).append(('q', c))
    for sup in kids:
        if sup not in tparents:
            bad('boundary cells %s have no parent triangle' % (kids[sup][:2],))
    for t in s.tris:
        key = frozenset(t[:3])
        if tparents[key] != 1:
            continue
        ks = kids.get(key, [])
        np_ = normal(*[pos[v] for v in t[:3]])
        tot = [Fraction(0)] * 3
        for kind, c in ks:
            if c[-1] != t[3]:
                bad('child %s of triangle %s has id %d' % (c, t, c[-1]))
            parts = [c[:3]] if kind == 't' else [(c[0], c[1], c[2]), (c[0], c[2], c[3])]
            for p in parts:
                if any(v not in pos for v in p):
                    bad('boundary cell %s uses an unknown vertex' % (c,))
                    return
                nc = normal(*[pos[v] for v in p])
                tot = [tot[k] + nc[k] for k in range(3)]
                if exact and any(nc[a] * np_[b] != nc[b] * np_[a] for a in range(3) for b in range(a)):
                    bad('child %s of triangle %s is not parallel to it' % (c, t))
                if exact and sum(nc[k] * np_[k] for k in range(3)) <= 0 and any(np_):
                    bad('child %s of triangle %s is flipped or degenerate' % (c, t))
        tol = 0 if exact else Fraction(1, 10 ** 9) * max(1, max(abs(x) for x in np_))
        if any(abs(tot[k] - np_[k]) > tol for k in range(3)):
            bad('children of triangle %s do not add up to its area vector' % (t,))
        if len({frozenset(c[:-1]) for _, c in ks}) != len(ks):
            bad('triangle %s: a child occurs twice' % (t,))
        nm = sum(marks[edge_index[frozenset((t[a], t[(a + 1) % 3]))]] for a in range(3))
        if len(ks) != {0: 1, 1: 2, 2: 2, 3: 4}[nm]:
            bad('triangle %s with %d marked sides has %d children' % (t, nm, len(ks)))
    # edg cells
    eparents = Counter(frozenset(e[:2]) for e in s.edgs)
    ekids = {}
    for c in edgs:
        ekids.setdefault(frozenset().union(*[support(v) for v in c[:2]]), []).append(c)
    for e in s.edgs:
        key = frozenset(e[:2])
        if eparents[key] != 1:
            continue
        ks = ekids.get(key, [])
        mk = marks[edge_index[key]] if key in edge_index else 0
        if len({c[:2] for c in ks}) != len(ks):
            bad('edg %s: a child occurs twice' % (e,))
        if len(ks) != (2 if mk else 1):
            bad('edg %s (mark %d) has %d children' % (e, mk, len(ks)))
        vec = [Fraction(0)] * 3
        for c in ks:
            if c[2] != e[2]:
                bad('child %s of edg %s has id %d' % (c, e, c[2]))
            if c[0] not in pos or c[1] not in pos:
                bad('edg %s uses an unknown vertex' % (c,))
                return
            vec = [vec[k] + pos[c[1]][k] - pos[c[0]][k] for k in range(3)]
        tol = 0 if exact else Fraction(1, 10 ** 9)
        if any(abs(vec[k] - (pos[e[1]][k] - pos[e[0]][k])) > tol for k in range(3)):
            bad('children of edg %s do not add up to it' % (e,))


def oracle(ops, impl):
    out = []
    s = Sess()
    for i, (op, line) in enumerate(zip(ops, impl)):
        w = op.split()
        if not w:
            continue
        if line == 'bad-op':
            continue
        try:
            if w[0] == 'reset':
                s = Sess()
            elif w[0] == 'node' and line.startswith('node '):
                if int(line.split()[1]) != len(s.pts):
                    out.append((i, 'vertex slot %s, expected %d' % (line, len(s.pts))))
                s.pts.append(tuple(Fraction(unhx(h)) for h in w[2:5]))
            elif w[0] == 'tet' and line == 'ok':
                s.tets.append(tuple(int(x) for x in w[1:5]))
            elif w[0] == 'tri' and line == 'ok':
                s.tris.append(tuple(int(x) for x in w[1:5]))
            elif w[0] == 'edg' and line == 'ok':
                s.edgs.append(tuple(int(x) for x in w[1:4]))
            elif w[0] == 'begin' and line.startswith('edges'):
                s.edges = [tuple(int(x) for x in e.split('-')) for e in line.split()[1:]]
                s.marks = [0] * len(s.edges)
                want = {frozenset(e) for t in s.tets for e in [(t[a], t[b]) for a, b in E2N]} | {
                    frozenset((t[a], t[(a + 1) % 3])) for t in s.tris for a in range(3)}
                if {frozenset(e) for e in s.edges} != want or len(s.edges) != len(want):
                    out.append((i, 'edge table is not the set of cell edges'))
            elif w[0] == 'mark' and line == 'ok':
                k = [frozenset(e) for e in s.edges].index(frozenset((int(w[1]), int(w[2]))))
                s.marks[k] = 1
            elif 'marks' in line.split() and w[0] in ('markall', 'relax', 'unrelax', 'unmark_tet', 'negcheck'):
                ws = line.split()
                new = [int(x) for x in ws[ws.index('marks') + 1:]]
                edge_index = {frozenset(e): k for k, e in enumerate(s.edges)}
                if len(new) != len(s.marks):
                    out.append((i, '%s: mark count changed' % op))
                elif w[0] == 'relax':
                    if any(a < b for a, b in zip(new, s.marks)):
                        out.append((i, 'relax removed a mark'))
                    for t in s.tets:
                        if cell_map(new, edge_index, t) not in SUPPORTED:
                            out.append((i, 'relax left tet %s on pattern %d' % (t, cell_map(new, edge_index, t))))
                elif w[0] in ('unrelax', 'unmark_tet', 'negcheck'):
                    if any(a > b for a, b in zip(new, s.marks)):
                        out.append((i, '%s added a mark' % w[0]))
                    if w[0] == 'unrelax' and ws[0] == 'ok':
                        for t in s.tets:
                            if cell_map(new, edge_index, t) not in SUPPORTED:
                                out.append((i, 'unrelax left tet %s on pattern %d' % (t, cell_map(new, edge_index, t))))
                    if w[0] == 'unmark_tet' and ws[1] == '0':
                        t = s.tets[int(w[1])]
                        if new != s.marks or cell_map(new, edge_index, t) not in SUPPORTED:
                            out.append((i, 'unmark_tet reports no change on pattern %d' % cell_map(new, edge_index, t)))
                s.marks = new
            elif w[0] in ('split', 'rawsplit') and line.startswith(w[0] + ' '):
                check_split(i, op, line, s, out)
                s.done = True
        except Exception as ex:  # malformed implementation line
            out.append((i, 'oracle could not read %r for %r: %r' % (line[:80], op, ex)))
        if len(out) > 20:
            break
    return out[:20]


def nontrivial(op, out):
    return not (out.startswith('bad-op') or out == 'ok' or out.startswith('node '))


FN = Stream('subdiv_fn', 'h_subdiv', 'subdiv', gen, oracle=oracle, whitebox=['ref_subdiv'], nontrivial=nontrivial)
STREAMS = [FN]
