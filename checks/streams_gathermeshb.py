"""stream `gathermeshb`: the REAL parallel libMeshb writer ref_gather_by_extension(".meshb") under mpiexec at
np = 1..5 on generated DISTRIBUTED meshes, bytes compared with `Refine.Model.GatherMeshb.gatherMeshb` (driver
`gathermeshb`), and judged by an oracle that is independent of the model.

The generator builds a global mesh (all seven linear cell kinds, sometimes quadratic ones; pyramids and prisms owned by
every rank in turn — also pyramids whose smallest global vertex lives on the LAST rank of a block partition; geometry
association records of types 0/1/2 on vertices owned by every rank, gref != id incl. negative and +-2^31 limits; CAD
byte blobs; meshb versions 2/3/4 and the automatic choice; 2-D and 3-D), a partition (block, reversed block, random,
cyclic, everything on one rank, rank 0 owning nothing), distributes it by the storage rule of the distributed
invariant (a rank stores a cell iff it owns one of its vertices, stores the vertices of its cells and the association
records of the vertices it stores; ghost copies of records may carry stale values), shuffles every local order, and
chooses a reduce byte limit small enough for several chunks.

Oracle (the property, stated on the file the C wrote): the file parses along its keyword chain with every
next_position equal to the true end of the section (independent libMeshb-layout walker below; vertices and the seven
linear cell kinds through checks/pyio.py), has the requested version, holds every vertex once in global order with its
owner's coordinates bit for bit, every cell of the global mesh exactly once with its vertex ORDER and id (multiset per
kind), every association record of every owner exactly once with its own (type, vertex, id, gref, parameters), and
rank 0's CAD bytes; a valid distributed mesh must not make the writer fail.
"""
import os
import struct
import tempfile

from .common import Stream
from . import pyio

NPS = [1, 2, 3, 4, 5]

# group order of each_ref_grid_all_ref_cell; (name, node_per, has id column)
GROUPS = [('edg', 2, True), ('ed2', 3, True), ('ed3', 4, True), ('tri', 3, True), ('tr2', 6, True), ('tr3', 10, True),
          ('qua', 4, True), ('qu2', 9, True), ('tet', 4, False), ('pyr', 5, False), ('pri', 6, False),
          ('hex', 8, False), ('te2', 10, False), ('py2', 14, False), ('pr2', 18, False), ('he2', 27, False)]
GIDX = {g[0]: i for i, g in enumerate(GROUPS)}
LINEAR = ['edg', 'tri', 'qua', 'tet', 'pyr', 'pri', 'hex']
# libMeshb keyword codes of the higher-order kinds (libmeshb7.h: GmfEdgesP2 25, GmfTrianglesP2 24, GmfQuadrilateralsQ2 27,
# GmfTetrahedraP2 30, GmfHexahedraQ2 33, GmfPrismsP2 86, GmfPyramidsP2 87, GmfTrianglesP3 90, GmfEdgesP3 92)
HIGH_KW = {25: 'ed2', 92: 'ed3', 24: 'tr2', 90: 'tr3', 27: 'qu2', 30: 'te2', 87: 'py2', 86: 'pr2', 33: 'he2'}


def dhex(x):
    return struct.pack('>d', float(x)).hex()


def bits(x):
    return struct.pack('<d', x)


# ---------------------------------------------------------------------------------------------------------------
# generator
# ---------------------------------------------------------------------------------------------------------------
def _coord(rng):
    r = rng.random()
    if r < 0.55:
        return rng.randint(-64, 64) / 4.0 or 0.0           # never -0.0 (ref_gather_node sums with +0.0: known finding)
    if r < 0.65:
        return rng.choice([0.0, 1.0, -1.0, 5e-324, 1.7976931348623157e308, -2.2250738585072014e-308])
    return rng.uniform(-1, 1) * 10.0 ** rng.randint(-300, 300) or 0.0


def _partition(rng, N, np):
    kind = rng.choice(['block', 'block', 'rblock', 'random', 'random', 'cyclic', 'one', 'not0'])
    per = max(1, (N + np - 1) // np)
    if kind == 'block':
        return [min(np - 1, g // per) for g in range(N)]
    if kind == 'rblock':
        return [np - 1 - min(np - 1, g // per) for g in range(N)]
    if kind == 'cyclic':
        return [g % np for g in range(N)]
    if kind == 'one':
        r = rng.randrange(np)
        return [r] * N
    if kind == 'not0' and np > 1:
        return [rng.randrange(1, np) for _ in range(N)]
    return [rng.randrange(np) for _ in range(N)]


def _cell_owned_by(rng, part, N, q, per):
    """a cell of `per` distinct vertices whose smallest global vertex is owned by rank q (None if impossible)"""
    mine = [g for g in range(N) if part[g] == q and N - 1 - g >= per - 1]
    if not mine:
        return None
    m = rng.choice(mine)
    rest = rng.sample(range(m + 1, N), per - 1)
    c = [m] + rest
    rng.shuffle(c)                                            # the smallest global is at a random position
    return c


IDS = [1, 2, 3, 7, 15, -4, 100000, 2147483647, -2147483648, 0]
GREFS = [-1, -7, -2147483648, 2147483647, 2147483646, 16777217, 123456789, 5, 0, -100000]


def _global_mesh(rng, np, tier):
    twod = rng.random() < 0.2
    N = rng.randint(9, 14) if rng.random() < 0.3 else rng.randint(15, 34)
    part = _partition(rng, N, np)
    xyz = [[_coord(rng) for _ in range(3)] for _ in range(N)]
    cells = {}                                                # group index -> list of (nodes, id)
    kinds = LINEAR if not twod else ['edg', 'tri', 'qua']
    for name in kinds:
        gi = GIDX[name]
        _, per, has_id = GROUPS[gi]
        lst = []
        for _ in range(rng.choice([0, 1, 2, 3, 5])):
            lst.append((rng.sample(range(N), per), rng.choice(IDS) if has_id else 0))
        if name in ('pyr', 'pri') or rng.random() < 0.3:     # owned by every rank in turn
            for q in range(np):
                c = _cell_owned_by(rng, part, N, q, per)
                if c:
                    lst.append((c, rng.choice(IDS) if has_id else 0))
        if lst and rng.random() < 0.15:
            lst.append(lst[0])                                # the same cell twice: written twice
        rng.shuffle(lst)
        if lst:
            cells[gi] = lst
    if rng.random() < 0.15:                                   # a higher-order group now and then
        name = rng.choice(['ed2', 'tr2', 'te2', 'py2', 'qu2'])
        gi = GIDX[name]
        _, per, has_id = GROUPS[gi]
        if per <= N:
            cells[gi] = [(rng.sample(range(N), per), rng.choice(IDS) if has_id else 0) for _ in range(rng.randint(1, 3))]
    geoms = []
    keys = set()
    ng = rng.choice([0, 3, 6, 10, 16])
    targets = [rng.randrange(N) for _ in range(ng)]
    if ng:
        for q in range(np):                                   # every rank owns a record of every type
            mine = [g for g in range(N) if part[g] == q]
            if mine:
                targets += [rng.choice(mine) for _ in range(3)]
    for j, nd in enumerate(targets):
        t = j % 3 if j >= ng else rng.randrange(3)
        gid = rng.choice(IDS)
        if (nd, t, gid) in keys:
            continue
        keys.add((nd, t, gid))
        gref = gid if rng.random() < 0.15 else rng.choice(GREFS)
        geoms.append((t, nd, gid, gref, _coord(rng), _coord(rng)))
    rng.shuffle(geoms)
    return twod, N, part, xyz, cells, geoms


def _distribute(rng, np, N, part, cells, geoms):
    world = []
    for q in range(np):
        mine = {}
        for gi, lst in cells.items():
            sub = [c for c in lst if any(part[g] == q for g in c[0])]
            rng.shuffle(sub)
            if sub:
                mine[gi] = sub
        nodes = {g for g in range(N) if part[g] == q} | {g for lst in mine.values() for c in lst for g in c[0]}
        if rng.random() < 0.3:
            nodes |= set(rng.sample(range(N), min(N, 2)))      # extra ghosts that no local cell uses
        nodes = sorted(nodes)
        rng.shuffle(nodes)
        gl = []
        for (t, nd, gid, gref, p0, p1) in geoms:
            if nd in nodes:
                if part[nd] != q and rng.random() < 0.3:       # a stale ghost copy must never reach the file
                    gl.append((t, nd, gid, gref + 1 if gref < 2147483647 else 3, p1, p0))
                else:
                    gl.append((t, nd, gid, gref, p0, p1))
        rng.shuffle(gl)
        world.append((nodes, mine, gl))
    return world


def gen_gathermeshb(rng, tier, np):
    ops = []
    n = 48 if tier == 'quick' else 240
    for _ in range(n):
        twod, N, part, xyz, cells, geoms = _global_mesh(rng, np, tier)
        world = _distribute(rng, np, N, part, cells, geoms)
        own_twice = None
        twin = np == 1 and rng.random() < 0.6                 # the same grid through the serial writer as well
        if twin:
            world = [(sorted(world[0][0]), world[0][1], world[0][2])]   # local index = global id
        if not twin and rng.random() < 0.08:                                # a vertex nobody owns / owned twice: the failure branch
            g = rng.randrange(N)
            if np == 1 or rng.random() < 0.5:
                part = list(part)
                part[g] = np + 3                              # every stored copy says "someone else"
            else:
                q2 = (part[g] + 1) % np
                nodes, mine, gl = world[q2]
                if g not in nodes:
                    nodes = nodes + [g]
                world[q2] = (nodes, mine, gl)
                own_twice = (g, q2)                           # rank q2's copy claims the vertex too
        r = rng.random()
        if r < 0.7:
            rbl = 32 * rng.randint(1, max(1, N // 3))
        else:
            rbl = rng.choice([0, -1, 1000000, 33, 64, 95, 16])
        if twin and 0 < rbl < 32:
            rbl = 32
        mv = rng.choice([0, 1, 2, 2, 3, 3, 4, 4])
        cads = []
        for q in range(np):
            if rng.random() < (0.6 if q == 0 else 0.3):
                k = rng.choice([1, 2, 7, 40])
                blob = bytes(rng.randrange(256) for _ in range(k)) if rng.random() < 0.8 else bytes([0, 255, 10, 13, 26, 128])
                cads.append(blob.hex())
            else:
                cads.append('-')
        w = ['gather_meshb', str(np), str(rbl), str(mv), '1' if twod else '0', str(N)]
        for q, (nodes, mine, gl) in enumerate(world):
            w += ['|', str(len(nodes))]
            for g in nodes:
                p = part[g]
                if own_twice == (g, q):
                    p = q
                w += [str(g), str(p)] + [dhex(x) for x in xyz[g]]
            w.append(str(len(mine)))
            for gi in sorted(mine):
                w += [str(gi), str(len(mine[gi]))]
                for c, cid in mine[gi]:
                    w += [str(g) for g in c]
                    if GROUPS[gi][2]:
                        w.append(str(cid))
            w.append(str(len(gl)))
            for (t, nd, gid, gref, p0, p1) in gl:
                w += [str(t), str(nd), str(gid), str(gref), dhex(p0), dhex(p1)]
            w.append(cads[q])
        ops.append(' '.join(w))
        if twin:
            ops.append(' '.join(['export_meshb'] + w[1:]))
    return ops


# ---------------------------------------------------------------------------------------------------------------
# independent reader: keyword chain walker (libMeshb layout), vertices / linear cells through checks/pyio.py
# ---------------------------------------------------------------------------------------------------------------
class FileError(Exception):
    pass


def parse_file(b):
    """-> dict(version, dim, verts [(bytes x, bytes y[, bytes z])], cells {name: [tuple]}, geoms [..], cad bytes)"""
    if len(b) < 8:
        raise FileError('shorter than the 8-byte prologue')
    code, version = struct.unpack_from('<ii', b, 0)
    if code != 1 or version not in (1, 2, 3, 4):
        raise FileError('code %d version %d' % (code, version))
    pf = '<q' if version >= 3 else '<i'
    it = '<q' if version >= 4 else '<i'
    psz, isz = struct.calcsize(pf), struct.calcsize(it)
    res = {'version': version, 'dim': None, 'verts': [], 'cells': {}, 'geoms': [], 'cad': b'', 'order': []}
    p = 8
    ended = False
    seen = set()
    while True:
        if p + 4 + psz > len(b):
            raise FileError('keyword header at %d runs past the end (%d bytes)' % (p, len(b)))
        kw, = struct.unpack_from('<i', b, p)
        nxt, = struct.unpack_from(pf, b, p + 4)
        q = p + 4 + psz
        if kw in seen:
            raise FileError('keyword %d occurs twice' % kw)
        seen.add(kw)
        res['order'].append(kw)
        if kw == 54:
            if nxt != 0:
                raise FileError('End keyword with next position %d' % nxt)
            if q != len(b):
                raise FileError('%d bytes after the End keyword' % (len(b) - q))
            ended = True
            break
        if kw == 3:
            res['dim'], = struct.unpack_from('<i', b, q)
            q += 4
        elif kw == 4:
            n, = struct.unpack_from(it, b, q)
            q += isz
            d = res['dim']
            if d not in (2, 3):
                raise FileError('vertices before a dimension')
            for _ in range(n):
                if q + 8 * d + isz > len(b):
                    raise FileError('vertex records run past the end')
                res['verts'].append(tuple(b[q + 8 * j:q + 8 * j + 8] for j in range(d)))
                q += 8 * d + isz
        elif kw in HIGH_KW or (kw in pyio.KWNAME and pyio.KWNAME[kw] in pyio.NODE_PER):
            name = HIGH_KW.get(kw) or pyio.KWNAME[kw]
            per = GROUPS[GIDX[name]][1]
            n, = struct.unpack_from(it, b, q)
            q += isz
            if q + n * isz * (per + 1) > len(b):
                raise FileError('%s records run past the end' % name)
            lst = []
            for _ in range(n):
                vals = struct.unpack_from('<%d%s' % (per + 1, it[1]), b, q)
                q += isz * (per + 1)
                lst.append(tuple(v - 1 for v in vals[:per]) + (vals[per],))
            if name in HIGH_KW.values():
                res['cells'][name] = lst                      # linear kinds are taken from pyio below
        elif kw in (40, 41, 42):
            t = kw - 40
            n, = struct.unpack_from(it, b, q)
            q += isz
            for _ in range(n):
                if q + 2 * isz + 8 * t + (8 if t else 0) > len(b):
                    raise FileError('association records run past the end')
                nd, gid = struct.unpack_from('<2' + it[1], b, q)
                q += 2 * isz
                par = tuple(b[q + 8 * j:q + 8 * j + 8] for j in range(t))
                q += 8 * t
                gref = None
                if t:
                    gref, = struct.unpack_from('<d', b, q)
                    q += 8
                res['geoms'].append((t, nd - 1, gid, gref, par))
        elif kw == 126:
            n, = struct.unpack_from('<Q' if version >= 4 else '<I', b, q)
            q += isz
            if q + n > len(b):
                raise FileError('CAD blob runs past the end')
            res['cad'] = bytes(b[q:q + n])
            q += n
        else:
            raise FileError('unexpected keyword %d at %d' % (kw, p))
        if nxt != q:
            raise FileError('keyword %d at %d: next_position %d but its section ends at %d' % (kw, p, nxt, q))
        p = nxt
    if not ended:
        raise FileError('no End keyword')
    # vertices and the seven linear kinds once more through the shared independent reader (pyramid order included)
    fd, path = tempfile.mkstemp(suffix='.meshb')
    try:
        with os.fdopen(fd, 'wb') as f:
            f.write(b)
        pm = pyio.read_meshb(path)
    finally:
        os.unlink(path)
    if [tuple(bits(x) for x in v) for v in pm['verts']] != res['verts']:
        raise FileError('pyio and the chain walker disagree on the vertices')
    for name, lst in pm['cells'].items():
        res['cells'][name] = lst
    return res


def _groups_of(op):
    w = op.split()
    groups, cur = [], None
    for t in w[6:]:
        if t == '|':
            cur = []
            groups.append(cur)
        else:
            cur.append(t)
    return w, groups


def _truth(op):
    """what the op line says the distributed mesh is: owners' coordinates, global cell multiset, owners' records"""
    w, groups = _groups_of(op)
    np, rbl, mv, twod, N = int(w[1]), int(w[2]), int(w[3]), int(w[4]), int(w[5])
    owners = [[] for _ in range(N)]
    cells = {}
    geoms = {}
    cad0 = b''
    for q, g in enumerate(groups):
        k = int(g[0])
        stored = {}
        for j in range(k):
            gl, pt = int(g[1 + 5 * j]), int(g[2 + 5 * j])
            stored[gl] = pt
            if pt == q:
                owners[gl].append(tuple(bytes.fromhex(x)[::-1] for x in g[3 + 5 * j:6 + 5 * j]))
        p = 1 + 5 * k
        ngr = int(g[p])
        p += 1
        local = {}
        for _ in range(ngr):
            gi, nc = int(g[p]), int(g[p + 1])
            p += 2
            name, per, has_id = GROUPS[gi]
            size = per + (1 if has_id else 0)
            for _ in range(nc):
                rec = tuple(int(x) for x in g[p:p + per]) + ((int(g[p + per]),) if has_id else (0,))
                p += size
                local.setdefault(name, {})
                local[name][rec] = local[name].get(rec, 0) + 1
        for name, d in local.items():
            cells.setdefault(name, {})
            for rec, c in d.items():
                cells[name][rec] = max(cells[name].get(rec, 0), c)
        m = int(g[p])
        p += 1
        for _ in range(m):
            t, nd, gid, gref = int(g[p]), int(g[p + 1]), int(g[p + 2]), int(g[p + 3])
            par = tuple(bytes.fromhex(x)[::-1] for x in g[p + 4:p + 4 + t])
            p += 6
            if stored.get(nd) == q:
                key = (t, nd, gid, float(gref) if t else None, par)
                geoms[key] = geoms.get(key, 0) + 1
        if q == 0:
            cad0 = b'' if g[p] == '-' else bytes.fromhex(g[p])
    return dict(np=np, rbl=rbl, mv=mv, twod=twod, N=N, owners=owners, cells=cells, geoms=geoms, cad=cad0)


def oracle_gathermeshb(ops, impl):
    bad = []
    for i, (o, r) in enumerate(zip(ops, impl)):
        if r.startswith('bad-op') or r == 'hang':
            continue
        if o.startswith('export_meshb ') and i > 0 and ops[i - 1].split()[1:] == o.split()[1:] and \
                impl[i - 1].startswith('ok ') and r != impl[i - 1]:
            bad.append((i, 'C08 serial writer (ref_export_by_extension) and parallel writer (ref_gather_by_extension) produce '
                           'different files for the same one-rank grid: %s' %
                        ('%d vs %d bytes' % ((len(r) - 3) // 2, (len(impl[i - 1]) - 3) // 2) if r.startswith('ok ') else r)))
            continue
        try:
            t = _truth(o)
        except (ValueError, IndexError):
            continue
        np = t['np']
        valid = all(len(x) == 1 for x in t['owners'])
        if not r.startswith('ok '):
            if valid:
                bad.append((i, 'C08 parallel writer returned %s on a valid distributed mesh (np=%d)' % (r, np)))
            continue
        if not valid:
            bad.append((i, 'C04 gather to a file succeeded although some vertex is not owned exactly once (np=%d)' % np))
            continue
        try:
            f = parse_file(bytes.fromhex(r[3:]))
        except (FileError, struct.error, pyio.MeshbError) as ex:
            bad.append((i, 'C08 the file written at np=%d does not parse: %s' % (np, ex)))
            continue
        want_version = t['mv'] if t['mv'] > 1 else 2
        d = 2 if t['twod'] else 3
        if f['version'] != want_version or f['dim'] != d:
            bad.append((i, 'C08 version/dimension %s/%s, requested %d/%d' % (f['version'], f['dim'], want_version, d)))
            continue
        exp_v = [x[0][:d] for x in t['owners']]
        if f['verts'] != exp_v:
            k = [a != b for a, b in zip(f['verts'], exp_v)].index(True) if len(f['verts']) == len(exp_v) else -1
            bad.append((i, 'C07 vertices of the file are not the owners\' coordinates in global order (np=%d, first at %d, %d vs %d vertices)'
                        % (np, k, len(f['verts']), len(exp_v))))
            continue
        done = False
        for name in sorted(set(t['cells']) | set(f['cells'])):
            got = {}
            for rec in f['cells'].get(name, []):
                got[rec] = got.get(rec, 0) + 1
            exp = t['cells'].get(name, {})
            if got != exp:
                k = sorted(x for x in set(got) | set(exp) if got.get(x, 0) != exp.get(x, 0))[0]
                bad.append((i, 'C07/C08 %s cells of the file differ from the global mesh (np=%d): %s written %d times, expected %d'
                            % (name, np, k, got.get(k, 0), exp.get(k, 0))))
                done = True
                break
        if done:
            continue
        got = {}
        for rec in f['geoms']:
            got[rec] = got.get(rec, 0) + 1
        if got != t['geoms']:
            k = sorted((x for x in set(got) | set(t['geoms']) if got.get(x, 0) != t['geoms'].get(x, 0)), key=repr)[0]
            bad.append((i, 'C08 geometry association records differ (np=%d): (type, vertex, id, gref, params) = %s written %d times, '
                        'expected %d' % (np, (k[0], k[1], k[2], k[3], [struct.unpack('<d', x)[0] for x in k[4]]),
                                         got.get(k, 0), t['geoms'].get(k, 0))))
            continue
        if f['cad'] != t['cad']:
            bad.append((i, 'C08 CAD bytes of the file differ from rank 0\'s blob (np=%d): %d vs %d bytes' % (np, len(f['cad']), len(t['cad']))))
    return bad


def _nontrivial(op, out):
    return out.startswith('ok ')


GATHERMESHB = Stream('gathermeshb', 'h_gathermeshb', 'gathermeshb', gen_gathermeshb, oracle=oracle_gathermeshb, np=NPS,
                     nontrivial=_nontrivial, session='\x00none', timeout=600, batches={'quick': 1, 'thorough': 3})
GATHERMESHB.ops_file = True
STREAMS = [GATHERMESHB]
