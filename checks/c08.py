from . import streams_codec, cli, streams_ugrid, streams_gathermeshb

ID = 'C08'
PROPS_MODULE = ['Refine.Props.C08', 'Refine.Props.C08Endian', 'Refine.Props.C08Ugrid', 'Refine.Props.C08Gather']
STREAMS = [streams_codec.MESHB_WRITE, streams_codec.MESHB_READ, cli.CONVERT, cli.CONVERT_MPI,
           streams_ugrid.WRITE, streams_ugrid.READ, streams_ugrid.PART, streams_ugrid.GATHER,
           streams_gathermeshb.GATHERMESHB]
EXPLANATION = (
    'Proved in Lean (Refine/Props/C08.lean): decodeMeshb (encodeMeshb v m) = ok m for every WellFormed mesh and '
    'v in {2,3,4} (all 16 cell groups, vertex coordinates as bit patterns, ids, geometry records with gref as a '
    'double, CAD bytes), also for the reader variant with the C20 checks; the next_position written by formula '
    'equals the true offset of the next keyword (offsets_exact); the pyramid shuffles of import/export/part/gather '
    '(translated from the C) are mutually inverse and give libMeshb\'s base-then-apex order; keywords are pairwise '
    'distinct and < 156.  Tie: C writer bytes == encodeMeshb bytes (stream meshb_write), C reader dump == '
    'decodeMeshb dump on files from an independent libMeshb writer and on the C writer\'s own output (meshb_read).  '
    'Oracle: checks/meshio_ref.py, written from the libMeshb layout, parses what the C wrote / predicts what the C '
    'must read.  BYTE ORDER (Refine/Props/C08Endian.lean): the SWAP_INT / SWAP_LONG / SWAP_DBL macros, regenerated '
    'from ref_endian.h on every run, are the full byte reversal of their width, so a swapped little-endian value is '
    'its big-endian encoding for EVERY value (ids >= 2^24 included) and reading inverts writing.  END-TO-END '
    '(cli_convert, cli_convert_mpi; no model side): `ref translate` / `refmpi translate` at np = 0,2,3 between '
    'meshb and the six binary UGRID flavours on tet boxes and a prism slab with triangle + quad boundary and '
    'large ids; every output is parsed by the independent checks/pyio.py reader and must equal the input mesh '
    '(coordinates bitwise, cells with orientation and tags).  '
    'BINARY UGRID (Refine/Props/C08Ugrid.lean, model Refine/Model/Ugrid.lean; all six file names = 2 byte orders x 2 integer '
    'widths, every well-formed mesh, every rank count, every chunk size): roundtrip_ugrid — decodeUgrid (encodeUgrid m) = ok '
    '(normalize m), where normalize is the stable tag order the serial writer\'s faceid sweep produces (a permutation of the '
    'boundary faces, identity on sorted meshes, idempotent); the reader\'s block size does not matter; offsets_exact — every '
    'section offset of ref_part_bin_ugrid and both fseeko expressions of ref_part_bin_ugrid_pack_cell, REGENERATED from the C '
    'into Refine/Gen/UgridOffsets.lean on every run, equal the true byte position (prefix sum of the section sizes) in the '
    'writer\'s output; part_read_chunk_independent / part_read_eq_serial — the parallel reader, seeking to those offsets and '
    'reading in chunks of any size >= 1 on any number of ranks, holds the file\'s vertices and cells (= the serial reader\'s '
    'mesh when cells have pairwise different node sets; otherwise minus later cells over a stored node set, as '
    'ref_cell_add_many_global does); part_read_ownership — every stored cell is owned by exactly one rank and is stored on '
    'the rank that receives it first and on its owner; ugrid_keeps_node_order — no pyramid/prism shuffle in any binary UGRID '
    'function, the four dispatcher tables agree (regenerated into Refine/Gen/UgridFlavours.lean); gather_eq_export / '
    'roundtrip_gather — the parallel writer lays out exactly like the serial one except for the boundary-face sort, and both '
    'readers read it back.  Tie (harness h_ugrid, driver ugrid): ugrid_write — C writer bytes == encodeUgrid bytes for meshes '
    'with tri+qua+tet+pyr+pri+hex present together, node slots with holes, tags up to 2^31-60 and down to -2^31, all six '
    'names; ugrid_read — ref_import_by_extension and the static ref_import_bin_ugrid on files from the independent Python '
    'writer == mesh; ugrid_part[np=1,2,3,5] — ref_part_by_extension under MPI: gathered owned vertices and owned cell '
    'multiset incl. tags, per-rank local cell and node counts == model; ugrid_gather[np=1,2,3] — ref_gather_by_extension '
    'bytes == gatherUgrid bytes (vertices in global order, cells in owner-rank order).  The oracles parse / write with the '
    'independent UFile reader/writer of checks/streams_ugrid.py.')
ASSUMPTIONS = [
    'serial reader/writer only (ref_import_meshb / ref_export_meshb); the parallel pair ref_part/ref_gather is tied '
    'only through the translated pyramid shuffles',
    'binary ugrid: modelled and tied (Refine.Model.Ugrid); su2, msh, fgrid, ascii .ugrid, .r8.ugrid are not covered.  '
    'ugrid: the generated test meshes keep boundary faces and volume cells on disjoint vertex sets so that '
    'ref_grid_inward_boundary_orientation (outside the model, run by ref_import_by_extension / ref_part_bin_ugrid) has '
    'nothing to flip; tag spread per mesh < 7 and tags < INT_MAX - 50 (the serial writer sweeps the tag RANGE: finding '
    'ugrid-export-faceid-range-sweep under C20); the parallel reader\'s chunk is MAX(1000000, ncell/nproc), so a second chunk '
    '(the `ncell_read` terms of the two fseeko expressions) is reached only by the theorem (seek_exact, '
    'part_read_chunk_independent), not by the tie; ref_cell_add_many_global drops a later cell over an already stored node '
    'set, and WHICH of two different cells over one node set survives depends on the rank count (e.g. a two-sided baffle '
    'tri (a,b,c) id 1 / tri (a,c,b) id 2 loses one side in the parallel reader only): the part stream uses pairwise '
    'different node sets plus exact copies; gather stream coordinates avoid NaN and -0.0 (ref_gather_node sums with 0.0); '
    'mpi errors on one rank (short file at np >= 2: rank 0 returns, the others wait in ref_mpi_scatter_recv) are not '
    'exercised — malformed files go through the parallel reader at one rank only (C20)',
    'ref_grid_inward_boundary_orientation (run by ref_import_by_extension after the reader) is outside the model; '
    'the harness calls the static ref_import_meshb through white-box inclusion of ref_import.c',
    'the exporter\'s REF_INVALID branch for a version-2 file above 2 GiB is not modelled: WellFormed bounds the size',
    'the CAD blob (keyword 126) follows refine\'s own convention (count = bytes, raw payload); libMeshb\'s '
    'GmfByteFlow API packs the bytes differently, so that section is checked against refine\'s convention only',
    'fopen/fseeko/fread semantics of the C library; integer width: counts and ids are REF_INT (32 bit) in the model',
]
TRUSTED = ['tools/translate_more_codec.py (keyword table, pyramid shuffles, metric order, constants)',
           'checks/meshio_ref.py as the independent statement of the libMeshb layout']
