from . import streams_codec, cli
from . import streams_partmeshb

ID = 'C08'
PROPS_MODULE = ['Refine.Props.C08', 'Refine.Props.C08Endian', 'Refine.Props.C08Part']
STREAMS = [streams_codec.MESHB_WRITE, streams_codec.MESHB_READ, cli.CONVERT, cli.CONVERT_MPI,
           streams_partmeshb.READ]
EXPLANATION = (
    'Proved in Lean (Refine/Props/C08.lean): decodeMeshb (encodeMeshb v m) = ok m for every WellFormed mesh and '
    'v in {2,3,4} (all 16 cell groups, vertex coordinates as bit patterns, ids, geometry records with gref as a '
    'double, CAD bytes), also for the reader variant with the C20 checks; the next_position written by formula '
    'equals the true offset of the next keyword (offsets_exact); the pyramid shuffles of import/export/part/gather '
    '(translated from the C) are mutually inverse and give libMeshb\'s base-then-apex order; keywords are pairwise '
    'distinct and < 156.  Tie: C writer bytes == encodeMeshb bytes (stream meshb_write), C reader dump == '
    'decodeMeshb dump on files from an independent libMeshb writer and on the C writer\'s own output (meshb_read).  '
    'Oracle: checks/meshio_ref.py, written from the libMeshb layout, parses what the C wrote / predicts what the C '
    'must read.  BYTE ORDER (Refine/Props/C08Endian.lean): the SWAP_INT / SWAP_LONG / SWAP_DBL macros, regenerated '
    'from ref_endian.h on every run, are the full byte reversal of their width, so a swapped little-endian value is '
    'its big-endian encoding for EVERY value (ids >= 2^24 included) and reading inverts writing.  END-TO-END '
    '(cli_convert, cli_convert_mpi; no model side): `ref translate` / `refmpi translate` at np = 0,2,3 between '
    'meshb and the six binary UGRID flavours on tet boxes and a prism slab with triangle + quad boundary and '
    'large ids; every output is parsed by the independent checks/pyio.py reader and must equal the input mesh '
    '(coordinates bitwise, cells with orientation and tags).  PARALLEL READER (work package partmeshb; '
    'Props/C08Part.lean): partRead_eq_serial_partial - when rank 0 of the parallel reader and the serial reader both '
    'accept a file (version >= 2, 1 <= nnode < 2^31, no two cells of a group on the same vertex set), the parallel read '
    'succeeds on every np >= 1 and its gather (vertices from their owners, every cell from the rank that owns it) is the '
    'serial mesh: vertices in order bit for bit, per group a permutation of the cells with ids, the CAD bytes on every '
    'rank, the 2-D flag; with roundtrip_meshb this is the round trip of the parallel reader.  Geometry-association '
    'records are NOT in the theorem (tied only).  Tie: partmeshb_read (np 1..5: files from the independent writer '
    'checks/meshio_ref.py, versions 2/3/4, 2-D/3-D, all cell kinds incl. pyramids and high-order, geometry records, '
    'CAD bytes with all 256 values; per-rank dump == model; python oracle: gathered == file); the chunk-crossing '
    'stream partmeshb_chunk runs under C06.')
ASSUMPTIONS = [
    'serial reader/writer: Props/C08.lean; parallel READER ref_part_meshb: Props/C08Part.lean (gather is a spec-level '
    'definition there: owner-filtered concatenation; the parallel WRITER ref_gather is tied only through the translated '
    'pyramid shuffles and C07Gather)',
    'binary ugrid bodies are not modelled in Lean (only their byte order is); they are covered end-to-end by the '
    'cli_convert streams against the independent parser; su2, msh, fgrid, ascii ugrid are not covered',
    'ref_grid_inward_boundary_orientation (run by ref_import_by_extension after the reader) is outside the model; '
    'the harness calls the static ref_import_meshb through white-box inclusion of ref_import.c',
    'the exporter\'s REF_INVALID branch for a version-2 file above 2 GiB is not modelled: WellFormed bounds the size',
    'the CAD blob (keyword 126) follows refine\'s own convention (count = bytes, raw payload); libMeshb\'s '
    'GmfByteFlow API packs the bytes differently, so that section is checked against refine\'s convention only',
    'fopen/fseeko/fread semantics of the C library; integer width: counts and ids are REF_INT (32 bit) in the model',
]
TRUSTED = ['tools/translate_more_codec.py (keyword table, pyramid shuffles, metric order, constants)',
           'checks/meshio_ref.py as the independent statement of the libMeshb layout']
