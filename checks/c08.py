from . import streams_codec, cli, streams_ugrid, streams_gathermeshb
from . import streams_partmeshb
from . import streams_formats

ID = 'C08'
PROPS_MODULE = ['Refine.Props.C08', 'Refine.Props.C08Endian', 'Refine.Props.C08Ugrid', 'Refine.Props.C08Gather',
                'Refine.Props.C08Part', 'Refine.Props.C08Formats']
STREAMS = [streams_codec.MESHB_WRITE, streams_codec.MESHB_READ, cli.CONVERT, cli.CONVERT_MPI,
           streams_ugrid.WRITE, streams_ugrid.READ, streams_ugrid.PART, streams_ugrid.GATHER,
           streams_gathermeshb.GATHERMESHB, streams_partmeshb.READ,
           streams_formats.WRITE, streams_formats.READ, streams_formats.C08_MSH_O2N, streams_formats.C08_MSH_FLIP,
           streams_formats.C08_SU2_TAG, streams_formats.C08_SU2_NOBND]
EXPLANATION = (
    'Proved in Lean (Refine/Props/C08.lean): decodeMeshb (encodeMeshb v m) = ok m for every WellFormed mesh and '
    'v in {2,3,4} (all 16 cell groups, vertex coordinates as bit patterns, ids, geometry records with gref as a '
    'double, CAD bytes), also for the reader variant with the C20 checks; the next_position written by formula '
    'equals the true offset of the next keyword (offsets_exact); the pyramid shuffles of import/export/part/gather '
    '(translated from the C) are mutually inverse and give libMeshb\'s base-then-apex order; keywords are pairwise '
    'distinct and < 156.  Tie: C writer bytes == encodeMeshb bytes (stream meshb_write), C reader dump == '
    'decodeMeshb dump on files from an independent libMeshb writer and on the C writer\'s own output (meshb_read).  '
    'Oracle: checks/meshio_ref.py, written from the libMeshb layout, parses what the C wrote / predicts what the C '
    'must read.  BYTE ORDER (Refine/Props/C08Endian.lean): the SWAP_INT / SWAP_LONG / SWAP_DBL macros, regenerated '
    'from ref_endian.h on every run, are the full byte reversal of their width, so a swapped little-endian value is '
    'its big-endian encoding for EVERY value (ids >= 2^24 included) and reading inverts writing.  END-TO-END '
    '(cli_convert, cli_convert_mpi; no model side): `ref translate` / `refmpi translate` at np = 0,2,3 between '
    'meshb and the six binary UGRID flavours on tet boxes and a prism slab with triangle + quad boundary and '
    'large ids; every output is parsed by the independent checks/pyio.py reader and must equal the input mesh '
    '(coordinates bitwise, cells with orientation and tags).  '
    'BINARY UGRID (Refine/Props/C08Ugrid.lean, model Refine/Model/Ugrid.lean; all six file names = 2 byte orders x 2 integer '
    'widths, every well-formed mesh, every rank count, every chunk size): roundtrip_ugrid — decodeUgrid (encodeUgrid m) = ok '
    '(normalize m), where normalize is the stable tag order the serial writer\'s faceid sweep produces (a permutation of the '
    'boundary faces, identity on sorted meshes, idempotent); the reader\'s block size does not matter; offsets_exact — every '
    'section offset of ref_part_bin_ugrid and both fseeko expressions of ref_part_bin_ugrid_pack_cell, REGENERATED from the C '
    'into Refine/Gen/UgridOffsets.lean on every run, equal the true byte position (prefix sum of the section sizes) in the '
    'writer\'s output; part_read_chunk_independent / part_read_eq_serial — the parallel reader, seeking to those offsets and '
    'reading in chunks of any size >= 1 on any number of ranks, holds the file\'s vertices and cells (= the serial reader\'s '
    'mesh when cells have pairwise different node sets; otherwise minus later cells over a stored node set, as '
    'ref_cell_add_many_global does); part_read_ownership — every stored cell is owned by exactly one rank and is stored on '
    'the rank that receives it first and on its owner; ugrid_keeps_node_order — no pyramid/prism shuffle in any binary UGRID '
    'function, the four dispatcher tables agree (regenerated into Refine/Gen/UgridFlavours.lean); gather_eq_export / '
    'roundtrip_gather — the parallel writer lays out exactly like the serial one except for the boundary-face sort, and both '
    'readers read it back.  Tie (harness h_ugrid, driver ugrid): ugrid_write — C writer bytes == encodeUgrid bytes for meshes '
    'with tri+qua+tet+pyr+pri+hex present together, node slots with holes, tags up to 2^31-60 and down to -2^31, all six '
    'names; ugrid_read — ref_import_by_extension and the static ref_import_bin_ugrid on files from the independent Python '
    'writer == mesh; ugrid_part[np=1,2,3,5] — ref_part_by_extension under MPI: gathered owned vertices and owned cell '
    'multiset incl. tags, per-rank local cell and node counts == model; ugrid_gather[np=1,2,3] — ref_gather_by_extension '
    'bytes == gatherUgrid bytes (vertices in global order, cells in owner-rank order).  The oracles parse / write with the '
    'independent UFile reader/writer of checks/streams_ugrid.py.  '
    'PARALLEL libMeshb WRITER (Refine/Props/C08Gather.lean, model Refine/Model/GatherMeshb.lean = ref_gather_meshb as an SPMD '
    'function of the per-rank states: header and version choice, ref_gather_node chunk loop, ref_cell_ncell + ref_gather_cell '
    'per group with the owner filter and BOTH copies of the pyramid re-ordering, ref_gather_ngeom + ref_gather_geom with BOTH '
    'copies of the record writer and the worker message columns, CAD bytes, End, every next_position): gatherMeshb_eq_encode — '
    'for every rank count >= 1, every distribution that owns each vertex once, every chunk size >= 1 and version, the bytes '
    'rank 0 writes are exactly encodeMeshb (the serial writer) of the gathered mesh (vertices by global id, cells and records '
    'in (emitting rank, local order) order); gatherMeshb_roundtrip — decodeMeshb of them is that mesh; pyramid_reorderings — '
    'the two re-orderings of ref_gather_cell are one permutation, the serial writer\'s, inverted by ref_part_meshb_cell and '
    'ref_import_meshb (tables regenerated per copy); geom_writers_agree / geom_message_columns — both record writers of '
    'ref_gather_geom write the record\'s own (vertex, id, parameters, gref); gather_cell_flags.  Tie (harness h_gathermeshb, '
    'driver gathermeshb, stream gathermeshb[np=1..5]): the bytes of the file the real ref_gather_by_extension(".meshb") writes '
    'under mpiexec == the model\'s bytes, on generated distributed meshes with all seven linear cell kinds (sometimes '
    'quadratic ones), pyramids/prisms owned by every rank in turn, association records of types 0/1/2 owned by every rank '
    'with gref != id (negative, +-2^31 limits), stale ghost copies, CAD blobs, versions 2/3/4 and automatic, 2-D/3-D, reduce '
    'byte limits giving several chunks, unowned / doubly owned vertices (failure branch); at one rank the same grid also goes '
    'through the SERIAL writer ref_export_by_extension and must give the same bytes.  Oracle: an independent keyword-chain '
    'walker + checks/pyio.py parse the file: every next_position exact, vertices bitwise in global order, cell multisets with '
    'vertex order and ids, association-record multisets (type, vertex, id, gref, parameters), CAD bytes, serial == parallel.  '
    'PARALLEL READER (work package partmeshb; '
    'Props/C08Part.lean): partRead_eq_serial_partial - when rank 0 of the parallel reader and the serial reader both '
    'accept a file (version >= 2, 1 <= nnode < 2^31, no two cells of a group on the same vertex set), the parallel read '
    'succeeds on every np >= 1 and its gather (vertices from their owners, every cell from the rank that owns it) is the '
    'serial mesh: vertices in order bit for bit, per group a permutation of the cells with ids, the CAD bytes on every '
    'rank, the 2-D flag; with roundtrip_meshb this is the round trip of the parallel reader.  Geometry-association '
    'records are NOT in the theorem (tied only).  Tie: partmeshb_read (np 1..5: files from the independent writer '
    'checks/meshio_ref.py, versions 2/3/4, 2-D/3-D, all cell kinds incl. pyramids and high-order, geometry records, '
    'CAD bytes with all 256 values; per-rank dump == model; python oracle: gathered == file); the chunk-crossing '
    'stream partmeshb_chunk runs under C06.  '
    'TEXT FORMATS (work package formats; Refine/Model/Formats.lean, Props/C08Formats.lean): ref_export_ugrid / _tri / _fgrid / '
    '_su2 / _msh and ref_import_ugrid / _tri / _surf / _fgrid / _su2 / _msh / _i_like_cfd_grid / _r8_ugrid at token level '
    '(numbers as the bit pattern strtod returns for the %.16e text).  Proved for EVERY mesh the format holds (UgridOk / TriOk / FgridOk: cells = their vertices [+ id], vertices exist, ids and counts fit an int, at most 2^28-200 vertices): roundtrip_ugrid_txt: decodeUgridTxt (encodeUgridTxt m) = ok (normalizeUgrid m) with normalizeUgrid the stable id order of the faceid sweep of the writer (normalizeUgrid_perm: a permutation of the boundary faces, volume cells and vertices untouched), roundtrip_tri, roundtrip_fgrid (reader as in /repo and with the proposed repairs alike); su2_pyramid_order_inverse, su2_prism_order_inverse, msh_pyramid_order_involution (VTK / Gmsh node orders of writer and reader are mutually inverse). .su2 and .msh: NOT proved in general: sample_roundtrips (decide, one mesh with boundary faces and a tet) and the tie only.  Tie: formats_write — the tokens of the file ref_export_by_extension writes == encodeX m '
    '(meshes with all kinds, removed vertex slots, 2-D SU2 with edge markers) and export + import == decodeX (encodeX m); '
    'oracle: the independent parsers of checks/streams_formats.py (written from the AFLR3, FAST, SU2, Gmsh 4.1 format '
    'descriptions) read what refine wrote: vertices bitwise, cells with orientation and ids in the documented order (boundary '
    'faces by id).  formats_read — the static readers on files from the independent writers (multi-block $Nodes, CR LF line '
    'ends, .surf with trailing columns, .grid boundary chains, big-endian .r8.ugrid records) == model == mesh.  KNOWN FINDINGS, '
    'one stream each: msh-export-skips-renumbering (cells written with stored vertex numbers next to a compacted vertex '
    'block), msh-roundtrip-reverses-faces, su2-marker-tag-ignored (ids i come back as i - min + 1), su2-export-no-marker-'
    'overflow; theorems msh_export_renumber_counterexample, msh_faces_counterexample, su2_tags_counterexample show them on '
    'the model and show that the proposed reader repairs restore the mesh.')
ASSUMPTIONS = [
    'parallel READER ref_part_meshb: Props/C08Part.lean (gather is a spec-level definition there: owner-filtered '
    'concatenation; geometry-association records are tied only)',
    'meshb: serial reader/writer (ref_import_meshb / ref_export_meshb) and the parallel writer ref_gather_meshb are modelled and '
    'tied; the parallel reader is package partmeshb.  Parallel writer: coordinates of the generated meshes avoid -0.0 and NaN '
    '(ref_gather_node sums the owner\'s value with 0.0 padding: known finding ref_gather:sum-padding-loses-negative-zero; the '
    'theorems ask 0.0 + x = x = x + 0.0 only of the owned coordinates: hypothesis SumExact); association ids/grefs are REF_INT '
    '(no value above 2^31 can be stored); N <= 34 vertices per generated mesh, so the automatic version thresholds (10^7, '
    '2*10^8 vertices, regenerated constants) are reached only by the theorem; an unowned vertex makes ref_gather_meshb return '
    'before fclose (the partial file is not compared); with N = 0 the parallel writer still writes an empty vertex keyword '
    'which the serial writer omits (outside WellFormed: nodes_pos)',
    'binary ugrid: modelled and tied (Refine.Model.Ugrid); ascii .ugrid, .tri, .fgrid, .su2, .msh (writers + readers), .surf, '
    '.grid, .r8.ugrid (readers) are modelled at token / byte level and tied (package formats); decimal printing and parsing '
    'themselves are not modelled (%.16e prints 17 significant digits, which strtod maps back to the same double: C library); '
    '.msh2, -bamg.msh, .poly, .smesh, .vtk, .tec writers and the .avm / tetgen readers are not covered; the .grid writer '
    '(ref_export_i_like_cfd_grid counts its quads with `ntri++` and then fails its own REIS for any mesh with quads) is not '
    'modelled; .tri is generated with every vertex used by a triangle (ref_export_tri drops unused vertices); SU2 meshes of '
    'the clean streams have boundary ids starting at 1; .msh meshes of the clean streams have no removed slot and no bare '
    'triangle / quad (those are the finding streams).  '
    'ugrid: the generated test meshes keep boundary faces and volume cells on disjoint vertex sets so that '
    'ref_grid_inward_boundary_orientation (outside the model, run by ref_import_by_extension / ref_part_bin_ugrid) has '
    'nothing to flip; tag spread per mesh < 7 and tags < INT_MAX - 50 (the serial writer sweeps the tag RANGE: finding '
    'ugrid-export-faceid-range-sweep under C20); the parallel reader\'s chunk is MAX(1000000, ncell/nproc), so a second chunk '
    '(the `ncell_read` terms of the two fseeko expressions) is reached only by the theorem (seek_exact, '
    'part_read_chunk_independent), not by the tie; ref_cell_add_many_global drops a later cell over an already stored node '
    'set, and WHICH of two different cells over one node set survives depends on the rank count (e.g. a two-sided baffle '
    'tri (a,b,c) id 1 / tri (a,c,b) id 2 loses one side in the parallel reader only): the part stream uses pairwise '
    'different node sets plus exact copies; gather stream coordinates avoid NaN and -0.0 (ref_gather_node sums with 0.0); '
    'mpi errors on one rank (short file at np >= 2: rank 0 returns, the others wait in ref_mpi_scatter_recv) are not '
    'exercised — malformed files go through the parallel reader at one rank only (C20)',
    'ref_grid_inward_boundary_orientation (run by ref_import_by_extension after the reader) is outside the model; '
    'the harness calls the static ref_import_meshb through white-box inclusion of ref_import.c',
    'the exporter\'s REF_INVALID branch for a version-2 file above 2 GiB is not modelled: WellFormed bounds the size',
    'the CAD blob (keyword 126) follows refine\'s own convention (count = bytes, raw payload); libMeshb\'s '
    'GmfByteFlow API packs the bytes differently, so that section is checked against refine\'s convention only',
    'fopen/fseeko/fread semantics of the C library; integer width: counts and ids are REF_INT (32 bit) in the model',
]
TRUSTED = ['tools/translate_more_codec.py (keyword table, pyramid shuffles, metric order, constants)',
           'tools/translate_more_gathermeshb.py (version thresholds, ref_gather_cell flags, ref_gather_geom message columns)',
           'checks/meshio_ref.py as the independent statement of the libMeshb layout']
