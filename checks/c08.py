from . import streams_codec

ID = 'C08'
PROPS_MODULE = 'Refine.Props.C08'
STREAMS = [streams_codec.MESHB_WRITE, streams_codec.MESHB_READ]
EXPLANATION = (
    'Proved in Lean (Refine/Props/C08.lean): decodeMeshb (encodeMeshb v m) = ok m for every WellFormed mesh and '
    'v in {2,3,4} (all 16 cell groups, vertex coordinates as bit patterns, ids, geometry records with gref as a '
    'double, CAD bytes), also for the reader variant with the C20 checks; the next_position written by formula '
    'equals the true offset of the next keyword (offsets_exact); the pyramid shuffles of import/export/part/gather '
    '(translated from the C) are mutually inverse and give libMeshb\'s base-then-apex order; keywords are pairwise '
    'distinct and < 156.  Tie: C writer bytes == encodeMeshb bytes (stream meshb_write), C reader dump == '
    'decodeMeshb dump on files from an independent libMeshb writer and on the C writer\'s own output (meshb_read).  '
    'Oracle: checks/meshio_ref.py, written from the libMeshb layout, parses what the C wrote / predicts what the C '
    'must read.')
ASSUMPTIONS = [
    'serial reader/writer only (ref_import_meshb / ref_export_meshb); the parallel pair ref_part/ref_gather is tied '
    'only through the translated pyramid shuffles',
    'binary ugrid, su2, msh, fgrid formats are not modelled in this work package',
    'ref_grid_inward_boundary_orientation (run by ref_import_by_extension after the reader) is outside the model; '
    'the harness calls the static ref_import_meshb through white-box inclusion of ref_import.c',
    'the exporter\'s REF_INVALID branch for a version-2 file above 2 GiB is not modelled: WellFormed bounds the size',
    'the CAD blob (keyword 126) follows refine\'s own convention (count = bytes, raw payload); libMeshb\'s '
    'GmfByteFlow API packs the bytes differently, so that section is checked against refine\'s convention only',
    'fopen/fseeko/fread semantics of the C library; integer width: counts and ids are REF_INT (32 bit) in the model',
]
TRUSTED = ['tools/translate_more_codec.py (keyword table, pyramid shuffles, metric order, constants)',
           'checks/meshio_ref.py as the independent statement of the libMeshb layout']
