"""streams for the k-exact reconstruction of C19 (harness h_kexact / driver kexact).

kexact_linalg : ref_matrix_qr (classical Gram-Schmidt) and ref_matrix_solve_ab (Gauss-Jordan, partial pivoting)
kexact_cloud  : static ref_recon_kexact_with_aux / ref_recon_kexact_center on explicit clouds
kexact_mesh   : ref_recon_gradient / ref_recon_signed_hessian / ref_recon_hessian with REF_RECON_KEXACT on meshes

Oracles are stated on the C output only, in plain python floats (no numpy here), independent of the Lean model:
 * QR: R upper triangular with positive diagonal, Q R = A to 1e-12 per column, Q^T Q = I to 1e-12 kappa^2
   (classical Gram-Schmidt loses orthogonality like kappa^2; kappa = condition number of the column-normalised
   matrix computed by the oracle itself with modified Gram-Schmidt);
 * solve_ab: against the exact rational solution (fractions) when the oracle's own condition estimate is < 1e6;
 * clouds / meshes: when the samples ARE a quadratic function of the coordinates by the oracle's own least-squares
   judgement (residual <= 4e-13 of the magnitude), gradient and Hessian returned by the C equal the analytic ones to
   TOL_EXACT = 1e-9 relative (scale: see `tolerances`), on clouds whose design matrix is well conditioned
   (kappa <= KAPPA_OK = 100 after column normalisation; looser: 1e-9 (kappa/100)^2 = 1e-13 kappa^2 up to
   KAPPA_MAX = 3e3; beyond: no statement; measured on the unmodified C: error <= 1.4e-16 kappa^2).  A vertex with an all-zero result must be explainable (no layer-k cloud, k = 2..8, that is well
   conditioned), results do not depend on the numbering, |H| is the matrix absolute value of the signed H."""
import math
from fractions import Fraction as Fr

from .common import Stream
from .streams_geom import hx, H, unhx, fl, brick, mesh_op, rot, apply, HEX_TETS6  # noqa: F401

EPS = 2.0 ** -52
INF = float('inf')
SIZES = {'tri': 3, 'qua': 4, 'tet': 4, 'pyr': 5, 'pri': 6, 'hex': 8}

TOL_EXACT = 1e-9      # relative tolerance of the exactness statements on well conditioned clouds
KAPPA_OK = 100.0      # column-normalised condition number up to which TOL_EXACT applies unchanged
KAPPA_WELL = 300.0    # a cloud this well conditioned must be solved (no refusal, no silent zeros)
KAPPA_MAX = 3.0e3     # beyond this no exactness statement is made
TOL_PERM = 1e-10      # numbering independence (same scale, same kappa rule)
TOL_ABS = 1e-10       # |H| vs matrix absolute value of the signed H
QUAD_RESID = 4e-13    # "the samples are a quadratic": least-squares residual <= QUAD_RESID * magnitude


STATS = None  # a dict when a developer wants counts / worst ratios of the oracle statements (scratch scripts only)


def _stat(key, ratio=None):
    if STATS is not None:
        c = STATS.setdefault(key, [0, 0.0])
        c[0] += 1
        if ratio is not None and ratio > c[1]:
            c[1] = ratio


def N(tier, q, t=None):
    return q if tier == 'quick' else (t if t is not None else 6 * q)


# ------------------------------------------------------------------------------------------ small dense linear algebra
def mgs(rows, ncol, rhs=None):
    """modified Gram-Schmidt of the m x ncol matrix given by rows (lists).  Returns (R, z) with R upper triangular
    (list of rows) and z = Q^T rhs (None without rhs); R[k][k] == 0.0 marks an (exactly) dependent column."""
    m = len(rows)
    cols = [[rows[i][j] for i in range(m)] for j in range(ncol)]
    b = list(rhs) if rhs is not None else None
    R = [[0.0] * ncol for _ in range(ncol)]
    z = [0.0] * ncol
    for k in range(ncol):
        ck = cols[k]
        nrm = math.sqrt(math.fsum(x * x for x in ck))
        R[k][k] = nrm
        if nrm == 0.0:
            continue
        qk = [x / nrm for x in ck]
        cols[k] = qk
        for j in range(k + 1, ncol):
            cj = cols[j]
            r = math.fsum(a * c for a, c in zip(qk, cj))
            R[k][j] = r
            cols[j] = [c - r * a for a, c in zip(qk, cj)]
        if b is not None:
            r = math.fsum(a * c for a, c in zip(qk, b))
            z[k] = r
            b = [c - r * a for a, c in zip(qk, b)]
    return R, (z if rhs is not None else None)


def tri_cond(R):
    """1-norm condition number of the upper triangular R (inf when a diagonal entry vanishes)"""
    n = len(R)
    for k in range(n):
        if R[k][k] == 0.0 or not math.isfinite(R[k][k]):
            return INF
    inv = [[0.0] * n for _ in range(n)]
    for j in range(n):
        inv[j][j] = 1.0 / R[j][j]
        for i in range(j - 1, -1, -1):
            inv[i][j] = -math.fsum(R[i][k] * inv[k][j] for k in range(i + 1, j + 1)) / R[i][i]
    n1 = max(math.fsum(abs(R[i][j]) for i in range(j + 1)) for j in range(n))
    n2 = max(math.fsum(abs(inv[i][j]) for i in range(j + 1)) for j in range(n))
    c = n1 * n2
    return c if math.isfinite(c) else INF


def kappa_cols(rows, ncol):
    """condition number of the matrix after scaling every column to unit length (near-optimal column scaling);
    inf when a column vanishes or the rank is deficient.  Gram-Schmidt is invariant under column scaling, so this
    is the quantity that governs the loss of accuracy of ref_matrix_qr."""
    m = len(rows)
    if m < ncol:
        return INF
    nrm = []
    for j in range(ncol):
        v = math.sqrt(math.fsum(rows[i][j] * rows[i][j] for i in range(m)))
        if v == 0.0 or not math.isfinite(v):
            return INF
        nrm.append(v)
    sc = [[rows[i][j] / nrm[j] for j in range(ncol)] for i in range(m)]
    R, _ = mgs(sc, ncol)
    if any(R[k][k] < 1e-14 for k in range(ncol)):
        return INF
    return tri_cond(R)


def lstsq(rows, ncol, rhs):
    """least squares by MGS on the column-normalised matrix.  Returns (x, max |residual|, kappa) or None"""
    m = len(rows)
    if m < ncol:
        return None
    nrm = []
    for j in range(ncol):
        v = math.sqrt(math.fsum(rows[i][j] * rows[i][j] for i in range(m)))
        if v == 0.0 or not math.isfinite(v):
            return None
        nrm.append(v)
    sc = [[rows[i][j] / nrm[j] for j in range(ncol)] for i in range(m)]
    R, z = mgs(sc, ncol, rhs)
    if any(R[k][k] < 1e-13 for k in range(ncol)):
        return None
    y = [0.0] * ncol
    for i in range(ncol - 1, -1, -1):
        y[i] = (z[i] - math.fsum(R[i][k] * y[k] for k in range(i + 1, ncol))) / R[i][i]
    x = [y[j] / nrm[j] for j in range(ncol)]
    res = max(abs(math.fsum([-rhs[i]] + [rows[i][j] * x[j] for j in range(ncol)])) for i in range(m))
    return x, res, tri_cond(R)


def exact_solve(n, ab):
    """ab column-major n x (n+1) doubles -> (x exact as Fractions, inverse as floats) or None when singular"""
    M = [[Fr(ab[i + n * j]) for j in range(n + 1)] + [Fr(1 if i == k else 0) for k in range(n)] for i in range(n)]
    w = 2 * n + 1
    for c in range(n):
        piv = max(range(c, n), key=lambda i: abs(M[i][c]))
        if M[piv][c] == 0:
            return None
        M[c], M[piv] = M[piv], M[c]
        p = M[c][c]
        M[c] = [v / p for v in M[c]]
        for i in range(n):
            if i != c and M[i][c] != 0:
                f = M[i][c]
                M[i] = [M[i][k] - f * M[c][k] for k in range(w)]
    x = [M[i][n] for i in range(n)]
    inv = [[float(M[i][n + 1 + k]) for k in range(n)] for i in range(n)]
    return x, inv


def eig3(h):
    """cyclic Jacobi for the symmetric 3x3 (m11 m12 m13 m22 m23 m33) -> (values, vectors as columns)"""
    a = [[h[0], h[1], h[2]], [h[1], h[3], h[4]], [h[2], h[4], h[5]]]
    v = [[1.0, 0.0, 0.0], [0.0, 1.0, 0.0], [0.0, 0.0, 1.0]]
    for _ in range(60):
        off = abs(a[0][1]) + abs(a[0][2]) + abs(a[1][2])
        if off <= 1e-300 or off <= 1e-18 * (abs(a[0][0]) + abs(a[1][1]) + abs(a[2][2])):
            break
        for p, q in ((0, 1), (0, 2), (1, 2)):
            if a[p][q] == 0.0:
                continue
            theta = (a[q][q] - a[p][p]) / (2.0 * a[p][q])
            t = (1.0 if theta >= 0 else -1.0) / (abs(theta) + math.sqrt(theta * theta + 1.0))
            c = 1.0 / math.sqrt(t * t + 1.0)
            s = t * c
            for k in range(3):
                akp, akq = a[k][p], a[k][q]
                a[k][p], a[k][q] = c * akp - s * akq, s * akp + c * akq
            for k in range(3):
                apk, aqk = a[p][k], a[q][k]
                a[p][k], a[q][k] = c * apk - s * aqk, s * apk + c * aqk
            for k in range(3):
                vkp, vkq = v[k][p], v[k][q]
                v[k][p], v[k][q] = c * vkp - s * vkq, s * vkp + c * vkq
    return [a[0][0], a[1][1], a[2][2]], v


def mat_abs(h):
    ev, v = eig3(h)
    m = [[math.fsum(v[i][k] * abs(ev[k]) * v[j][k] for k in range(3)) for j in range(3)] for i in range(3)]
    return [m[0][0], m[0][1], m[0][2], m[1][1], m[1][2], m[2][2]]


# ------------------------------------------------------------------------------------------ quadratic fields
def geom_row(d, ncol=9):
    dx, dy, dz = d
    r = [0.5 * dx * dx, dx * dy, dx * dz, 0.5 * dy * dy, dy * dz, 0.5 * dz * dz, dx, dy, dz]
    if ncol == 10:
        r.append(1.0)
    return r


PHANTOM = [(0.0, 0.0, 1.0), (0.0, 0.0, 2.0), (1.0, 0.0, 1.0), (0.0, 1.0, 1.0)]


def design_rows(center, others, twod):
    """the rows ref_recon_kexact_with_aux assembles (restated for the conditioning estimate only)"""
    rows = [geom_row(p) for p in PHANTOM] if twod else []
    for p in others:
        rows.append(geom_row([p[0] - center[0], p[1] - center[1], p[2] - center[2]]))
    return rows


class Quad:
    """f(p) = c0 + g.(p-x0) + 1/2 (p-x0)^T H (p-x0); H as m11 m12 m13 m22 m23 m33"""

    def __init__(self, x0, c0, g, h):
        self.x0, self.c0, self.g, self.h = list(x0), c0, list(g), list(h)

    def __call__(self, p):
        d = [p[0] - self.x0[0], p[1] - self.x0[1], p[2] - self.x0[2]]
        g, h = self.g, self.h
        return (self.c0 + (g[0] * d[0] + g[1] * d[1] + g[2] * d[2]) +
                0.5 * (h[0] * d[0] * d[0] + h[3] * d[1] * d[1] + h[5] * d[2] * d[2]) +
                (h[1] * d[0] * d[1] + h[2] * d[0] * d[2] + h[4] * d[1] * d[2]))

    def grad(self, p):
        d = [p[0] - self.x0[0], p[1] - self.x0[1], p[2] - self.x0[2]]
        g, h = self.g, self.h
        return [g[0] + h[0] * d[0] + h[1] * d[1] + h[2] * d[2],
                g[1] + h[1] * d[0] + h[3] * d[1] + h[4] * d[2],
                g[2] + h[2] * d[0] + h[4] * d[1] + h[5] * d[2]]


def fit_quadratic(pts, s, twod):
    """the oracle's own judgement: least-squares quadratic through (pts, s) about the centroid.  Returns a Quad when
    every sample is reproduced to QUAD_RESID * magnitude (i.e. to rounding), else None.  2-D: all z equal required,
    the fit has no z terms."""
    n = len(pts)
    if n == 0 or not all(math.isfinite(v) for p in pts for v in p) or not all(math.isfinite(v) for v in s):
        return None
    x0 = [math.fsum(p[c] for p in pts) / n for c in range(3)]
    if twod:
        if any(p[2] != pts[0][2] for p in pts):
            return None
        x0[2] = pts[0][2]
    L = max(max(abs(p[c] - x0[c]) for p in pts) for c in range(3))
    if L == 0.0:
        return None
    rows = []
    for p in pts:
        d = [(p[c] - x0[c]) / L for c in range(3)]
        r = geom_row(d, 10)
        if twod:
            r = [r[0], r[1], r[3], r[6], r[7], r[9]]
        rows.append(r)
    ncol = 6 if twod else 10
    fit = lstsq(rows, ncol, s)
    if fit is None:
        return None
    x, res, kap = fit
    if kap > 1e5:
        return None
    smax = max(abs(v) for v in s)
    mag = max(smax, max(abs(v) for v in x))
    if res > QUAD_RESID * mag:
        return None
    if twod:
        h = [x[0], x[1], 0.0, x[2], 0.0, 0.0]
        g = [x[3], x[4], 0.0]
        c0 = x[5]
    else:
        h = x[0:6]
        g = x[6:9]
        c0 = x[9]
    q = Quad(x0, c0, [v / L for v in g], [v / (L * L) for v in h])
    q.kappa = kap
    q.smax = smax
    return q


HIDX = [(0, 0), (0, 1), (0, 2), (1, 1), (1, 2), (2, 2)]   # m11 m12 m13 m22 m23 m33


def extents(center, pts):
    """per-direction half extent of the cloud about its centre"""
    return [max([abs(p[c] - center[c]) for p in pts] or [0.0]) for c in range(3)]


def tolerances(gc, h, smax, ext, kappa, base, twod):
    """(tol per gradient entry, tol per Hessian entry) or None when no statement is made.
    Magnitude of the data over the cloud: S = max|s| + max_a |g_a| e_a + max_ab |H_ab| e_a e_b with e the
    per-direction extents of the cloud about its centre; gradient entry a is resolved to S / e_a, Hessian entry ab
    to S / (e_a e_b) (the natural scale of the unknowns of the column-normalised least squares; max|s| stands for
    the rounding already present in the samples).  The C's classical Gram-Schmidt loses accuracy like kappa^2:
    factor base up to KAPPA_OK, base (kappa/KAPPA_OK)^2 up to KAPPA_MAX, nothing beyond."""
    dims = (0, 1) if twod else (0, 1, 2)
    if not (kappa <= KAPPA_MAX) or any(not ext[c] > 0.0 for c in dims):
        return None
    f = base * max(1.0, (kappa / KAPPA_OK) ** 2)
    S = smax + max(abs(gc[c]) * ext[c] for c in dims) + \
        max(abs(h[k]) * ext[a] * ext[b] for k, (a, b) in enumerate(HIDX) if a in dims and b in dims)
    tg = [f * S / ext[c] if c in dims else INF for c in range(3)]
    th = [f * S / (ext[a] * ext[b]) if a in dims and b in dims else INF for a, b in HIDX]
    return tg, th


def radius(center, pts):
    return max([math.sqrt(sum((p[c] - center[c]) ** 2 for c in range(3))) for p in pts] or [0.0])


# ------------------------------------------------------------------------------------------ linalg stream
def _rand_matrix(rng, m, n, mode):
    """column-major list; returns (a, tag)"""
    cols = [[rng.uniform(-1, 1) for _ in range(m)] for _ in range(n)]
    if mode == 'scaled':
        for c in cols:
            f = 10.0 ** rng.uniform(-6, 6)
            c[:] = [v * f for v in c]
    elif mode == 'dup' and n >= 2:
        j, k = rng.sample(range(n), 2)
        cols[j] = list(cols[k])
    elif mode == 'zero':
        cols[rng.randrange(n)] = [0.0] * m
    elif mode == 'unit_dup' and n >= 2:
        # two columns c e_i: the second one cancels exactly -> r_kk == 0 -> div_zero
        i = rng.randrange(m)
        j, k = sorted(rng.sample(range(n), 2))
        for col, f in ((j, 2.0), (k, rng.choice([2.0, -4.0, 0.5]))):
            cols[col] = [0.0] * m
            cols[col][i] = f
    elif mode == 'near' and n >= 2:
        j, k = rng.sample(range(n), 2)
        e = 10.0 ** rng.uniform(-12, -3)
        cols[j] = [cols[k][i] + e * rng.uniform(-1, 1) for i in range(m)]
    elif mode == 'combo' and n >= 3:
        j, k, l = rng.sample(range(n), 3)
        cols[j] = [0.5 * cols[k][i] - 2.0 * cols[l][i] for i in range(m)]
    elif mode == 'int':
        cols = [[float(rng.randint(-3, 3)) for _ in range(m)] for _ in range(n)]
    elif mode == 'ortho':
        for j in range(n):
            cols[j] = [0.0] * m
        for j in range(n):
            cols[j][j % m] += rng.choice([1.0, -2.0, 3.0])
    elif mode == 'huge':      # squares overflow: r_kk = inf, q = 0 (tie only, the oracle makes no statement)
        f = 10.0 ** rng.uniform(150, 160)
        j = rng.randrange(n)
        cols[j] = [v * f for v in cols[j]]
    elif mode == 'tinyvals':  # squares underflow to zero: div_zero on a non-zero column
        f = 10.0 ** rng.uniform(-175, -160)
        j = rng.randrange(n)
        cols[j] = [v * f for v in cols[j]]
    return [v for c in cols for v in c]


def _rand_system(rng, n, mode):
    """column-major n x (n+1)"""
    A = [[rng.uniform(-1, 1) for _ in range(n)] for _ in range(n)]  # A[i][j]
    b = [rng.uniform(-1, 1) for _ in range(n)]
    if mode == 'zero_diag':
        for i in rng.sample(range(n), rng.randint(1, n)):
            A[i][i] = 0.0
    elif mode == 'perm':  # a scaled permutation matrix plus a strictly upper part: every column needs its exchange
        p = list(range(n))
        rng.shuffle(p)
        A = [[(rng.choice([1.0, -2.0, 0.5]) if p[i] == j else (rng.uniform(-1, 1) if j > p[i] and rng.random() < 0.5 else 0.0))
              for j in range(n)] for i in range(n)]
    elif mode == 'singular' and n >= 2:
        i, k = rng.sample(range(n), 2)
        A[i] = [2.0 * v for v in A[k]]
    elif mode == 'zero_row':
        A[rng.randrange(n)] = [0.0] * n
    elif mode == 'zero_col':
        j = rng.randrange(n)
        for i in range(n):
            A[i][j] = 0.0
    elif mode == 'tiny':  # a pivot below 1e-13 in magnitude: ill_conditioned (the solve continues)
        j = rng.randrange(n)
        f = 10.0 ** rng.uniform(-18, -13.2)
        for i in range(n):
            A[i][j] *= f
    elif mode == 'tiny_all':
        f = 10.0 ** rng.uniform(-16, -13.5)
        A = [[v * f for v in r] for r in A]
        b = [v * f for v in b]
    elif mode == 'upper':  # the [R | Q^T b] shape the k-exact code passes
        for i in range(n):
            for j in range(n):
                if j < i:
                    A[i][j] = 0.0
                elif j == i:
                    A[i][j] = rng.uniform(0.1, 2.0) * 10.0 ** rng.uniform(-3, 1)
    elif mode == 'upper_zero':
        for i in range(n):
            for j in range(n):
                if j < i:
                    A[i][j] = 0.0
        A[rng.randrange(n)][rng.randrange(n)] = 0.0
        k = rng.randrange(n)
        A[k][k] = 0.0
    elif mode == 'scaled_rows':
        for i in range(n):
            f = 10.0 ** rng.uniform(-5, 5)
            A[i] = [v * f for v in A[i]]
            b[i] *= f
    elif mode == 'int':
        A = [[float(rng.randint(-2, 2)) for _ in range(n)] for _ in range(n)]
        b = [float(rng.randint(-3, 3)) for _ in range(n)]
    elif mode == 'hilbert':
        A = [[1.0 / (i + j + 1) for j in range(n)] for i in range(n)]
    elif mode == 'big_rhs':
        b = [v * 10.0 ** rng.uniform(18, 25) for v in b]
    elif mode in ('threshold', 'div_edge'):
        # upper triangular with unit-size rows; one diagonal entry right at the 1e-13 ill_conditioned threshold, or a
        # right-hand side right at the 1e20 ref_math_divisible threshold
        for i in range(n):
            for j in range(n):
                A[i][j] = 0.0 if j < i else (rng.choice([1.0, 2.0, -0.5]) if j == i else rng.uniform(-1, 1) * rng.choice([0.0, 1.0]))
        k = rng.randrange(n)
        if mode == 'threshold':
            A[k][k] = rng.choice([1.0, -1.0]) * rng.choice([1e-13, 0.9999e-13, 1.0001e-13, 1e-12, 1e-11, 0.99e-10, 1.01e-10, 1e-14, 1e-16])
            for j in range(k + 1, n):
                A[k][j] *= 1e-13
            b[k] *= 1e-13
        else:
            b[k] = A[k][k] * rng.choice([1e20, 0.9999e20, 1.0001e20, -1e20, 1e19, 1e21])
            for j in range(k + 1, n):
                A[k][j] = 0.0
    return [A[i][j] for j in range(n) for i in range(n)] + b


def gen_linalg(rng, tier):
    ops = []
    qmodes = ['plain'] * 12 + ['scaled'] * 4 + ['dup', 'dup', 'zero', 'zero', 'unit_dup', 'unit_dup', 'near', 'near', 'combo',
              'combo', 'int', 'int', 'ortho', 'ortho', 'huge', 'tinyvals']
    for k in range(N(tier, 120)):
        mode = rng.choice(qmodes)
        t = rng.random()
        if t < 0.12:
            n = rng.randint(2, 10)
            m = rng.randint(1, n - 1)          # m < n: the trailing columns are dependent
        elif t < 0.27:
            n = rng.randint(1, 10)
            m = n
        elif t < 0.35:
            n, m = 9, rng.randint(9, 60)       # the k-exact shape
        else:
            n = rng.randint(1, 10)
            m = rng.randint(n, 60)
        ops.append('qr %d %d %s' % (m, n, H(_rand_matrix(rng, m, n, mode))))
    ops.append('qr 12 12 ' + H(_rand_matrix(rng, 12, 12, 'plain')))
    ops.append('qr 400 2 ' + H(_rand_matrix(rng, 400, 2, 'plain')))
    ops.append('qr 1 1 ' + H([0.0]))
    ops.append('qr 1 1 ' + H([-3.0]))
    ops.append('qr 3 2 ' + H([1, 2, 3, 2, 4, 6]))
    smodes = ['plain'] * 8 + ['zero_diag'] * 3 + ['perm'] * 2 + ['singular', 'zero_row', 'zero_col', 'tiny', 'tiny',
                                                                 'tiny_all', 'upper', 'upper', 'upper_zero',
                                                                 'scaled_rows', 'int', 'int', 'hilbert', 'big_rhs', 'threshold', 'threshold',
                                                                 'threshold', 'div_edge', 'div_edge']
    for k in range(N(tier, 150)):
        n = rng.randint(1, 10) if rng.random() < 0.85 else rng.choice([9, 10, 11, 12])
        ops.append('solve_ab %d %s' % (n, H(_rand_system(rng, n, rng.choice(smodes)))))
    ops.append('solve_ab 1 ' + H([0.0, 1.0]))
    ops.append('solve_ab 1 ' + H([2.0, 1.0]))
    ops.append('solve_ab 2 ' + H([0.0, 1.0, 1.0, 0.0, 3.0, 4.0]))
    ops.append('solve_ab 2 ' + H([1e-14, 0.0, 0.0, 1.0, 1e-14, 1.0]))
    # malformed: both sides print bad-op
    ops += ['qr 0 1', 'qr 1 0', 'qr 2 13 ' + H([1.0] * 26), 'qr 401 1 ' + H([1.0] * 401), 'qr 2 2 ' + H([1.0] * 3),
            'qr 2 2 ' + H([1.0] * 5), 'qr 2 2 ' + H([1.0] * 3) + ' 3ff000000000000g', 'qr 2 2 ' + H([1.0] * 3) + ' 3ff',
            'qr 2', 'qr', 'qr -2 2 ' + H([1.0] * 4), 'qr 2 x ' + H([1.0] * 4),
            'solve_ab 0', 'solve_ab 13 ' + H([1.0] * (13 * 14)), 'solve_ab 2 ' + H([1.0] * 5), 'solve_ab 2 ' + H([1.0] * 7),
            'solve_ab 2 ' + H([1.0] * 5) + ' zzzzzzzzzzzzzzzz', 'solve_ab', 'solve_ab x', 'solve 2 ' + H([1.0] * 6),
            'qr 2 2 ' + H([1.0] * 3) + ' 1.0']
    return ops


def oracle_linalg(ops, impl):
    bad = []
    for i, (o, r) in enumerate(zip(ops, impl)):
        w, rw = o.split(), r.split()
        if not rw or rw[0] == 'bad-op' or not w:
            continue
        try:
            if w[0] == 'qr':
                m, n = int(w[1]), int(w[2])
                a = fl(w[3:3 + m * n])
                if len(a) != m * n or not all(math.isfinite(v) for v in a):
                    continue
                if any(abs(v) > 1e140 or 0.0 < abs(v) < 1e-140 for v in a):
                    continue  # squares over/underflow in the C's column norms: no statement
                rows = [[a[i_ + m * j] for j in range(n)] for i_ in range(m)]
                kap = kappa_cols(rows, n)
                if rw[0] == 'div_zero':
                    if kap < 1e6:
                        bad.append((i, 'qr refuses (div_zero) a matrix of full column rank, kappa %.3g' % kap))
                    continue
                if rw[0] != 'ok' or len(rw) != 1 + m * n + n * n:
                    bad.append((i, 'qr: unexpected result %s' % r[:60]))
                    continue
                q = fl(rw[1:1 + m * n])
                rr = fl(rw[1 + m * n:])
                if not all(math.isfinite(v) for v in q + rr):
                    if kap < 1e6:
                        bad.append((i, 'qr: non-finite factor for a well conditioned matrix'))
                    continue
                for k in range(n):
                    if not rr[k + n * k] > 0.0:
                        bad.append((i, 'qr: R[%d,%d] = %r is not positive' % (k, k, rr[k + n * k])))
                    for j in range(k):
                        if rr[k + n * j] != 0.0:
                            bad.append((i, 'qr: R[%d,%d] = %r below the diagonal' % (k, j, rr[k + n * j])))
                # Q R = A, column by column, 1e-12 relative to the column's size
                for j in range(n):
                    cn = math.sqrt(math.fsum(a[i_ + m * j] ** 2 for i_ in range(m)))
                    tol = 1e-12 * (cn + math.fsum(abs(rr[k + n * j]) for k in range(j + 1)))
                    for i_ in range(m):
                        v = math.fsum(q[i_ + m * k] * rr[k + n * j] for k in range(j + 1))
                        if abs(v - a[i_ + m * j]) > tol:
                            bad.append((i, 'qr: (Q R)[%d,%d] = %r vs A = %r (tol %.3g)' % (i_, j, v, a[i_ + m * j], tol)))
                            break
                # Q^T Q = I: classical Gram-Schmidt, error ~ eps kappa^2
                otol = 1e-13 * max(1.0, kap) ** 2
                if otol < 1e-2:
                    for j in range(n):
                        for k in range(j + 1):
                            v = math.fsum(q[i_ + m * j] * q[i_ + m * k] for i_ in range(m))
                            if abs(v - (1.0 if j == k else 0.0)) > otol:
                                bad.append((i, 'qr: (Q^T Q)[%d,%d] = %r (tol %.3g, kappa %.3g)' % (j, k, v, otol, kap)))
                                break
            elif w[0] == 'solve_ab':
                n = int(w[1])
                ab = fl(w[2:2 + n * (n + 1)])
                if len(ab) != n * (n + 1) or not all(math.isfinite(v) for v in ab):
                    continue
                ex = exact_solve(n, ab)
                amax = max(abs(v) for v in ab[:n * n])
                bmax = max(abs(v) for v in ab[n * n:])
                if ex is None:
                    if rw[0] == 'ok' and amax > 1e-13:
                        # an exactly singular matrix: a zero (or rounding-sized) pivot must show; `ok` needs every pivot
                        # >= 1e-13, possible only through rounding in the elimination of a badly scaled matrix
                        pass
                    continue
                xs, inv = ex
                kap = max(math.fsum(abs(ab[i_ + n * j]) for j in range(n)) for i_ in range(n)) * \
                    max(math.fsum(abs(v) for v in row) for row in inv)
                if not kap < 1e6:
                    continue
                if rw[0] == 'div_zero':
                    if bmax <= 1e8 * amax:
                        bad.append((i, 'solve_ab refuses (div_zero) a regular system, kappa %.3g' % kap))
                    continue
                if rw[0] not in ('ok', 'ill_conditioned') or len(rw) != 1 + n:
                    bad.append((i, 'solve_ab: unexpected result %s' % r[:60]))
                    continue
                if rw[0] == 'ill_conditioned' and amax > 1e-7 * kap * 2.0 ** n and min(
                        max(abs(ab[i_ + n * j]) for i_ in range(n)) for j in range(n)) > 1e-7 * kap * 2.0 ** n:
                    bad.append((i, 'solve_ab reports ill_conditioned (pivot < 1e-13) on a system with kappa %.3g and '
                                   'entries of size %.3g' % (kap, amax)))
                x = fl(rw[1:])
                xm = max(abs(float(v)) for v in xs)
                tol = 1e-13 * kap * xm + 1e-300
                for k in range(n):
                    if not abs(Fr(x[k]) - xs[k]) <= tol:
                        bad.append((i, 'solve_ab: x[%d] = %r vs exact %r (tol %.3g, kappa %.3g)' % (k, x[k], float(xs[k]), tol, kap)))
                        break
        except (ValueError, IndexError):
            continue
    return bad


# ------------------------------------------------------------------------------------------ cloud stream
def _cloud_points(rng, n, twod, shape):
    if shape == 'lattice':
        pts = [[float(rng.randint(-2, 2)), float(rng.randint(-2, 2)), 0.0 if twod else float(rng.randint(-2, 2))]
               for _ in range(n)]
    elif shape == 'plane' and not twod:
        u, v = [rng.uniform(-1, 1) for _ in range(3)], [rng.uniform(-1, 1) for _ in range(3)]
        pts = []
        for _ in range(n):
            a, b = rng.uniform(-1, 1), rng.uniform(-1, 1)
            pts.append([a * u[c] + b * v[c] for c in range(3)])
    elif shape == 'zplane' and not twod:
        pts = [[rng.uniform(-1, 1), rng.uniform(-1, 1), 0.25] for _ in range(n)]
    elif shape == 'line':
        u = [rng.uniform(-1, 1), rng.uniform(-1, 1), 0.0 if twod else rng.uniform(-1, 1)]
        pts = [[t * u[c] for c in range(3)] for t in [rng.uniform(-1, 1) for _ in range(n)]]
    elif shape == 'cluster':
        pts = []
        for _ in range(n):
            f = 10.0 ** rng.uniform(-2, 0)
            pts.append([f * rng.uniform(-1, 1), f * rng.uniform(-1, 1), 0.0 if twod else f * rng.uniform(-1, 1)])
    elif shape == 'flat' and not twod:
        f = 10.0 ** rng.uniform(-3, -1)
        pts = [[rng.uniform(-1, 1), rng.uniform(-1, 1), f * rng.uniform(-1, 1)] for _ in range(n)]
    else:
        pts = [[rng.uniform(-1, 1), rng.uniform(-1, 1), 0.0 if twod else rng.uniform(-1, 1)] for _ in range(n)]
    return pts


def _field(rng, x0, L, twod, kind=None):
    """a scalar field on points near x0 with length scale L -> callable"""
    t = rng.random() if kind is None else {'quad': 0.0, 'lin': 0.6, 'const': 0.72, 'sin': 0.8, 'exp': 0.9, 'rand': 0.99}[kind]
    a = rng.uniform(-1, 1) * rng.choice([0.0, 1.0, 1.0, 3.0])
    g = [rng.uniform(-1, 1) / L for _ in range(3)]
    h = [rng.uniform(-1, 1) / (L * L) for _ in range(6)]
    if twod:
        g[2] = 0.0
        h[2] = h[4] = h[5] = 0.0
    if t < 0.58:
        wg, wh = rng.choice([(1.0, 1.0), (1.0, 1.0), (0.0, 1.0), (1.0, 0.1), (0.1, 1.0), (1.0, 10.0)])
        if rng.random() < 0.15:
            h = [v if rng.random() < 0.5 else 0.0 for v in h]
        return Quad(x0, a, [wg * v for v in g], [wh * v for v in h])
    if t < 0.70:
        return Quad(x0, a, g, [0.0] * 6)
    if t < 0.76:
        return Quad(x0, a, [0.0] * 3, [0.0] * 6)
    k = [rng.uniform(-2, 2) / L for _ in range(3)]
    if twod:
        k[2] = 0.0
    if t < 0.86:
        return lambda p: a + math.sin(sum(k[c] * (p[c] - x0[c]) for c in range(3)) + 0.3)
    if t < 0.95:
        return lambda p: a + math.exp(0.7 * sum(k[c] * (p[c] - x0[c]) for c in range(3)))
    return lambda p: rng.uniform(-1, 1)


def _items(ids, pts, s):
    return ' '.join('%d %s' % (g, H(p, v)) for g, p, v in zip(ids, pts, s))


def gen_cloud(rng, tier):
    ops = []
    for _ in range(N(tier, 240)):
        twod = rng.random() < 0.4
        t = rng.random()
        if t < 0.12:
            n = rng.randint(1, 9)
        elif t < 0.30:
            n = rng.choice([5, 6, 7] if twod else [9, 10, 11]) if rng.random() < 0.7 else rng.choice([9, 10, 11])
        elif t < 0.5:
            n = rng.randint(8 if twod else 12, 20)
        else:
            n = rng.randint(10, 60)
        shape = rng.choice(['box'] * 12 + ['lattice', 'plane', 'zplane', 'line', 'cluster', 'cluster', 'flat'])
        pts = _cloud_points(rng, n, twod, shape)
        scale = 10.0 ** rng.uniform(-3, 3) if rng.random() < 0.5 else 1.0
        shift = [0.0, 0.0, 0.0]
        if rng.random() < 0.3:
            far = rng.choice([1.0, 30.0, 1e3])
            shift = [far * rng.uniform(-1, 1) for _ in range(3)]
        pts = [[scale * p[c] + shift[c] for c in range(3)] for p in pts]
        if twod:
            z = rng.choice([0.0, 0.0, shift[2], 1.5])
            for p in pts:
                p[2] = z
            if rng.random() < 0.04:
                pts[rng.randrange(n)][2] = z + scale  # twod flag with a point off the plane: no oracle, tie only
        ids = rng.sample(range(-5, 400), n)
        f = _field(rng, pts[rng.randrange(n)], scale, twod)
        s = [f(p) for p in pts]
        if rng.random() < 0.12 and n >= 2:
            # duplicate global ids: the later record replaces the earlier one (the field value moves with the point)
            for _k in range(rng.randint(1, 3)):
                j = rng.randrange(n)
                p = [v for v in pts[rng.randrange(n)]]
                p[0] += scale * rng.uniform(-1, 1)
                p[1] += scale * rng.uniform(-1, 1)
                ids.append(ids[j])
                pts.append(p)
                s.append(f(p))
        center = rng.choice(ids) if rng.random() < 0.93 else rng.choice([-9, 777, 401])
        items = _items(ids, pts, s)
        tw = 1 if twod else 0
        if shape == 'zplane' and rng.random() < 0.5:
            tw = 1  # planar 3-D data handed over with the twod flag
        ops.append('kexact_aux %d %d %d %s' % (tw, center, len(ids), items))
        if rng.random() < 0.08:
            ops.append('kexact_aux %d %d %d %s' % (1 - tw, center, len(ids), items))
        if rng.random() < 0.5:
            t = rng.random()
            j = rng.randrange(len(pts))
            if t < 0.3:
                xyz = list(pts[j])
            elif t < 0.85:
                xyz = [pts[j][c] + scale * rng.uniform(-0.5, 0.5) for c in range(3)]
            else:
                xyz = [pts[j][c] + scale * rng.uniform(-20, 20) for c in range(3)]
            ops.append('kexact_center %s %d %s' % (H(xyz), len(ids), items))
    # malformed
    p5 = '1 ' + H([0.0, 0.0, 0.0, 1.0])
    ops += ['kexact_aux 0 1 1', 'kexact_aux 0 1 2 ' + p5, 'kexact_aux 2 1 1 ' + p5, 'kexact_aux 0 x 1 ' + p5,
            'kexact_aux 0 1 1 1.5 ' + H([0.0, 0.0, 0.0, 1.0]), 'kexact_aux 0 1 1 1 ' + H([0.0, 0.0, 0.0]) + ' 12',
            'kexact_aux 0 1 401 ' + ' '.join([p5] * 401), 'kexact_aux', 'kexact_aux 0', 'kexact_aux 0 1 -1',
            'kexact_center ' + H([0.0, 0.0, 0.0]) + ' 2 ' + p5, 'kexact_center ' + H([0.0, 0.0]) + ' 1 ' + p5,
            'kexact_center 0 0 0 1 ' + p5, 'kexact_center', 'kexact_aux 0 1 0', 'kexact_center ' + H([0.0, 0.0, 0.0]) + ' 0',
            'kexact_aux 0 1 1 ' + p5, 'kexact_aux 1 1 1 ' + p5, 'kexact_aux 0 2 1 ' + p5]
    return ops


def parse_cloud(w, k, n):
    """words (g x y z s)*n from index k -> (dict id -> (xyz, s)) with later records replacing earlier ones"""
    if len(w) != k + 5 * n:
        return None
    cl = {}
    for j in range(n):
        g = int(w[k + 5 * j])
        v = fl(w[k + 5 * j + 1:k + 5 * j + 5])
        cl[g] = (v[0:3], v[3])
    return cl


def check_exact(i, what, q, center, sc, others, twod, g_out, h_out, bad, base=TOL_EXACT, kappa=None):
    """exactness of one k-exact solve for the quadratic q: `others` are the cloud points without the centre.
    returns True when a statement was made"""
    if kappa is None:
        kappa = kappa_cols(design_rows(center, others, twod), 9)
    gc = q.grad(center)
    smax = max([abs(sc)] + [abs(q(p)) for p in others])
    tl = tolerances(gc, q.h, smax, extents(center, others), kappa, base, twod)
    if tl is None:
        return False
    tg, th = tl
    if STATS is not None:
        if g_out is not None:
            _stat('exact_grad', max(abs(g_out[c] - gc[c]) / (tg[c] or 1e-300) for c in range(2 if twod else 3)))
        if h_out is not None:
            _stat('exact_hess', max(abs(h_out[c] - q.h[c]) / (th[c] or 1e-300) for c in ((0, 1, 3) if twod else range(6))))
    for c in range(2 if twod else 3):
        if g_out is not None and not abs(g_out[c] - gc[c]) <= tg[c]:
            bad.append((i, '%s: gradient[%d] = %r, the quadratic has %r (tol %.3g, kappa %.3g)' % (what, c, g_out[c], gc[c], tg[c], kappa)))
            return True
    for c in ((0, 1, 3) if twod else range(6)):
        if h_out is not None and not abs(h_out[c] - q.h[c]) <= th[c]:
            bad.append((i, '%s: hessian[%d] = %r, the quadratic has %r (tol %.3g, kappa %.3g)' % (what, c, h_out[c], q.h[c], th[c], kappa)))
            return True
    return True


def oracle_cloud(ops, impl):
    bad = []
    for i, (o, r) in enumerate(zip(ops, impl)):
        w, rw = o.split(), r.split()
        if not rw or rw[0] == 'bad-op' or not w:
            continue
        try:
            if w[0] == 'kexact_aux':
                twod, center, n = int(w[1]), int(w[2]), int(w[3])
                cl = parse_cloud(w, 4, n)
                if cl is None or len(rw) != 10:
                    continue
                vals = fl(rw[1:])
                g_out, h_out = vals[0:3], vals[3:9]
                if center not in cl:
                    if rw[0] != 'not_found' or any(v != 0.0 for v in vals):
                        bad.append((i, 'centre %d is not in the cloud: %s' % (center, r[:80])))
                    continue
                m = len(cl) - 1 + (4 if twod else 0)
                if m < 9:
                    if rw[0] != 'div_zero' or any(v != 0.0 for v in vals):
                        bad.append((i, '%d rows < 9 unknowns must give div_zero and zeros: %s' % (m, r[:80])))
                    continue
                if rw[0] not in ('ok', 'div_zero', 'ill_conditioned'):
                    bad.append((i, 'kexact_aux: unexpected status %s' % rw[0]))
                    continue
                pts = [cl[g][0] for g in sorted(cl)]
                s = [cl[g][1] for g in sorted(cl)]
                if not all(math.isfinite(v) for p in pts for v in p) or not all(math.isfinite(v) for v in s):
                    continue
                cxyz, cs = cl[center]
                others = [cl[g][0] for g in sorted(cl) if g != center]
                if twod and any(p[2] != cxyz[2] for p in others):
                    continue
                kap = kappa_cols(design_rows(cxyz, others, twod), 9)
                if rw[0] != 'ok':
                    cmin = min(math.sqrt(sum(row[j] ** 2 for row in design_rows(cxyz, others, twod))) for j in range(9))
                    if kap <= KAPPA_WELL and cmin > 1e-9 * kap:
                        bad.append((i, 'kexact_aux refuses (%s) a well conditioned cloud, kappa %.3g' % (rw[0], kap)))
                    continue
                q = fit_quadratic(pts, s, twod)
                if q is None:
                    continue
                check_exact(i, 'kexact_aux', q, cxyz, cs, others, twod, g_out, h_out, bad, kappa=kap)
            elif w[0] == 'kexact_center':
                xyz = fl(w[1:4])
                n = int(w[4])
                cl = parse_cloud(w, 5, n)
                if cl is None:
                    continue
                if len(cl) < 10:
                    if r != 'div_zero':
                        bad.append((i, '%d points < 10 unknowns must give div_zero: %s' % (len(cl), r[:80])))
                    continue
                pts = [cl[g][0] for g in sorted(cl)]
                s = [cl[g][1] for g in sorted(cl)]
                if not all(math.isfinite(v) for p in pts + [xyz] for v in p) or not all(math.isfinite(v) for v in s):
                    continue
                rows = [geom_row([p[c] - xyz[c] for c in range(3)], 10) for p in pts]
                kap = kappa_cols(rows, 10)
                if rw[0] != 'ok':
                    cmin = min(math.sqrt(sum(row[j] ** 2 for row in rows)) for j in range(10))
                    if kap <= KAPPA_WELL and cmin > 1e-9 * kap:
                        bad.append((i, 'kexact_center refuses (%s) a well conditioned cloud, kappa %.3g' % (rw[0], kap)))
                    continue
                q = fit_quadratic(pts, s, False)
                if q is None or not kap <= KAPPA_MAX:
                    continue
                v = unhx(rw[1])
                diam = radius(xyz, pts)
                gc = q.grad(xyz)
                mag = max(abs(t) for t in s) + max(abs(t) for t in gc) * diam + max(abs(t) for t in q.h) * diam * diam
                tol = TOL_EXACT * max(1.0, (kap / KAPPA_OK) ** 2) * mag
                _stat('center', abs(v - q(xyz)) / (tol or 1e-300))
                if not abs(v - q(xyz)) <= tol:
                    bad.append((i, 'kexact_center: value %r, the quadratic has %r (tol %.3g, kappa %.3g)' % (v, q(xyz), tol, kap)))
        except (ValueError, IndexError):
            continue
    return bad


# ------------------------------------------------------------------------------------------ mesh stream
def _tri_cells(rng, nx, ny, idx, qua_share):
    cells = []
    for j in range(ny):
        for i in range(nx):
            q = [idx(i, j), idx(i + 1, j), idx(i + 1, j + 1), idx(i, j + 1)]
            t = rng.random()
            if t < qua_share:
                cells.append(('qua', q))
            elif t < 0.5 + qua_share / 2:
                cells += [('tri', [q[0], q[1], q[2]]), ('tri', [q[0], q[2], q[3]])]
            else:
                cells += [('tri', [q[0], q[1], q[3]]), ('tri', [q[1], q[2], q[3]])]
    return cells


def _tet_cells(rng, nx, ny, nz, idx, mixed):
    cells = []
    for k in range(nz):
        for j in range(ny):
            for i in range(nx):
                h = [idx(i, j, k), idx(i + 1, j, k), idx(i + 1, j + 1, k), idx(i, j + 1, k),
                     idx(i, j, k + 1), idx(i + 1, j, k + 1), idx(i + 1, j + 1, k + 1), idx(i, j + 1, k + 1)]
                t = rng.random() if mixed else 0.0
                if t < 0.55:
                    cells += [('tet', [h[a] for a in tt]) for tt in HEX_TETS6]
                elif t < 0.7:
                    cells.append(('hex', h))
                elif t < 0.85:
                    cells += [('pri', [h[0], h[1], h[2], h[4], h[5], h[6]]), ('pri', [h[0], h[2], h[3], h[4], h[6], h[7]])]
                else:
                    cells += [('pyr', [h[0], h[3], h[6], h[1], h[2]]), ('pyr', [h[0], h[1], h[6], h[4], h[5]]),
                              ('pyr', [h[0], h[4], h[6], h[3], h[7]])]
    return cells


def gen_kmesh(rng, kind, size, jitter=None, aspect=None):
    """-> (twod, pts, cells).  kinds: tet, mixed, tri, triqua, chain3, chain2, one3, one2"""
    if jitter is None:
        jitter = rng.choice([0.0, 0.2, 0.3, 0.3, 0.5])
    if kind in ('tri', 'triqua'):
        nx, ny = size
        pts, idx = brick(rng, nx, ny, 0, jitter, twod=True)
        cells = _tri_cells(rng, nx, ny, idx, 0.2 if kind == 'triqua' else 0.0)
        twod = True
    elif kind in ('tet', 'mixed'):
        nx, ny, nz = size
        pts, idx = brick(rng, nx, ny, nz, jitter)
        cells = _tet_cells(rng, nx, ny, nz, idx, kind == 'mixed')
        twod = False
    elif kind == 'chain3':  # a strip of tets (i, i+1, i+2, i+3): end vertices need 3 or 4 layers
        n = size
        pts = [[0.6 * i + rng.uniform(-0.4, 0.4), math.cos(2.1 * i) + rng.uniform(-0.3, 0.3),
                math.sin(2.1 * i) + rng.uniform(-0.3, 0.3)] for i in range(n)]
        cells = [('tet', [i, i + 1, i + 2, i + 3]) for i in range(n - 3)]
        twod = False
    elif kind == 'chain2':  # a strip of triangles (i, i+1, i+2)
        n = size
        pts = [[0.5 * i + rng.uniform(-0.2, 0.2), (i % 2) + rng.uniform(-0.3, 0.3) + 0.15 * (i % 3), 0.0] for i in range(n)]
        cells = [('tri', [i, i + 1, i + 2]) for i in range(n - 2)]
        twod = True
    elif kind == 'one3':
        pts = [[0.0, 0.0, 0.0], [1.0, 0.0, 0.0], [0.0, 1.0, 0.0], [0.0, 0.0, 1.0]]
        pts = [[v + rng.uniform(-0.2, 0.2) for v in p] for p in pts]
        cells = [('tet', [0, 1, 2, 3])]
        twod = False
    else:
        pts = [[0.0, 0.0, 0.0], [1.0, 0.0, 0.0], [0.0, 1.0, 0.0]]
        pts = [[p[0] + rng.uniform(-0.2, 0.2), p[1] + rng.uniform(-0.2, 0.2), 0.0] for p in pts]
        cells = [('tri', [0, 1, 2])]
        twod = True
    if twod:
        z = rng.choice([0.0, 0.0, 1.5, -0.25])
        for p in pts:
            p[2] = z
    # stretching (aspect <= 1e2: the Gram-Schmidt least squares is less robust than the L2 projection), rotation, scale
    if aspect is None:
        aspect = 10.0 ** rng.uniform(0, 2) if rng.random() < 0.45 else 1.0
    if aspect != 1.0 or rng.random() < 0.3:
        if twod:
            ang = rng.uniform(0, math.pi)
            cs, sn = math.cos(ang), math.sin(ang)
            for p in pts:
                x, y = p[0], p[1] / aspect
                p[0], p[1] = cs * x - sn * y, sn * x + cs * y
        else:
            m = rot(rng)
            for n_, p in enumerate(pts):
                pts[n_] = apply(m, [p[0], p[1], p[2] / aspect])
    if rng.random() < 0.3:
        f = 10.0 ** rng.uniform(-2, 2)
        off = [rng.uniform(-1, 1) * rng.choice([0.0, 1.0, 50.0]) for _ in range(3)]
        for p in pts:
            for c in range(2 if twod else 3):
                p[c] = f * p[c] + f * off[c]
    return twod, pts, cells


def renumber(rng, pts, s, cells):
    perm = list(range(len(pts)))
    rng.shuffle(perm)
    inv = [0] * len(pts)
    for new, old in enumerate(perm):
        inv[old] = new
    cells = [(k, [inv[n] for n in ns]) for k, ns in cells]
    rng.shuffle(cells)
    return [pts[old] for old in perm], [s[old] for old in perm], cells


def gen_mesh(rng, tier):
    big = tier != 'quick'
    plan = [('one3', None), ('one2', None), ('tet', (1, 1, 1)), ('tri', (1, 1)),
            ('tet', (2, 1, 1)), ('tet', (2, 1, 1)), ('tet', (2, 2, 1)), ('tet', (3, 1, 1)), ('tet', (2, 2, 2)),
            ('tet', (2, 2, 2)), ('tet', (3, 2, 2)), ('tet', (3, 2, 1)), ('tet', (3, 3, 2)), ('tet', (3, 3, 3)),
            ('tet', (4, 1, 1)), ('tet', (4, 4, 4)),
            ('mixed', (2, 2, 2)), ('mixed', (3, 2, 2)), ('mixed', (3, 3, 2)), ('mixed', (3, 3, 3)), ('mixed', (2, 2, 1)),
            ('tri', (2, 1)), ('tri', (3, 1)), ('tri', (4, 1)), ('tri', (6, 1)), ('tri', (2, 2)), ('tri', (2, 2)),
            ('tri', (3, 2)), ('tri', (3, 3)), ('tri', (4, 3)), ('tri', (5, 4)), ('tri', (6, 5)), ('tri', (8, 8)),
            ('triqua', (3, 3)), ('triqua', (4, 4)), ('triqua', (6, 4)),
            ('chain3', 6), ('chain3', 10), ('chain3', 14), ('chain3', 25), ('chain2', 5), ('chain2', 7), ('chain2', 9),
            ('chain2', 16)]
    pool = [p for p in plan if p[0] not in ('one3', 'one2') and p[1] not in ((4, 4, 4), (8, 8))]
    plan = plan + [rng.choice(pool) for _ in range(45)]
    if big:
        plan = plan * 3 + [('tet', (5, 5, 4)), ('tet', (6, 4, 4)), ('tri', (12, 10)), ('mixed', (5, 4, 4)),
                           ('chain3', 60), ('chain2', 40)]
    ops = []
    for kind, size in plan:
        twod, pts, cells = gen_kmesh(rng, kind, size)
        lo = [min(p[c] for p in pts) for c in range(3)]
        hi = [max(p[c] for p in pts) for c in range(3)]
        L = max(hi[c] - lo[c] for c in range(3)) or 1.0
        x0 = [0.5 * (lo[c] + hi[c]) + 0.2 * L * rng.uniform(-1, 1) for c in range(3)]
        if twod:
            x0[2] = pts[0][2]
        f = _field(rng, x0, L, twod)
        s = [f(p) for p in pts]
        if rng.random() < 0.12:  # an isolated vertex: no cell -> zeros
            p = [hi[0] + L, hi[1] + 0.5 * L, pts[0][2] if twod else hi[2] + 0.3 * L]
            pts = pts + [p]
            s = s + [f(p)]
        pts, s, cells = renumber(rng, pts, s, cells)
        nn = len(pts)
        t = rng.random()
        if nn > 100 and not big:
            names = rng.choice([['kx_grad', 'kx_shess'], ['kx_shess', 'kx_hess']])
        elif t < 0.7:
            names = ['kx_grad', 'kx_shess', 'kx_hess']
        elif t < 0.85:
            names = ['kx_shess', 'kx_hess']
        else:
            names = [rng.choice(['kx_grad', 'kx_shess', 'kx_hess'])]
        for nm in names:
            ops.append(mesh_op(nm, twod, pts, s, cells))
        if rng.random() < (0.35 if nn <= 100 or big else 0.0):
            # the same mesh under another numbering, right after the op it is compared with
            nm = rng.choice(['kx_grad', 'kx_shess'])
            p2, s2, c2 = renumber(rng, pts, s, cells)
            ops.append(mesh_op(nm, twod, pts, s, cells))
            ops.append(mesh_op(nm, twod, p2, s2, c2))
    # malformed: node out of range, wrong dimension, short line, bad counts
    t4 = H([0, 0, 0, 1, 0, 0, 0, 1, 0, 0, 0, 1], [1, 2, 3, 4])
    ops += ['kx_grad 0 4 ' + t4 + ' 1 tet 0 1 2 4', 'kx_grad 0 4 ' + t4 + ' 1 tri 0 1 2', 'kx_shess 0 4 ' + t4 + ' 2 tet 0 1 2 3',
            'kx_hess 1 3 ' + H([0, 0, 0, 1, 0, 0, 0, 1, 0], [1, 2, 3]) + ' 2 tri 0 1 2', 'kx_grad 0 4 ' + t4,
            'kx_grad 0 0 0', 'kx_grad 2 4 ' + t4 + ' 1 tet 0 1 2 3', 'kx_hess', 'kx_shess 0 4 ' + t4 + ' 1 tet 0 1 2',
            'kx_grad 0 4 ' + t4 + ' 1 tet 0 1 2 -3', 'kx_grad 0 4 ' + t4[:-1] + 'g 1 tet 0 1 2 3',
            'kx_grad 0 4 ' + t4 + ' 0', 'kx_hess 0 4 ' + t4 + ' 1 tet 0 1 2 3', 'kx_lap 0 4 ' + t4 + ' 1 tet 0 1 2 3']
    return ops


class Mesh:
    """parsed mesh payload + what the oracle derives from it (cached per payload text)"""

    def __init__(self, w):
        self.twod, nn = int(w[1]), int(w[2])
        self.nn = nn
        xyz = fl(w[3:3 + 3 * nn])
        self.s = fl(w[3 + 3 * nn:3 + 4 * nn])
        self.pts = [xyz[3 * k:3 * k + 3] for k in range(nn)]
        cw = w[4 + 4 * nn:]
        self.cells = []
        k = 0
        while k < len(cw):
            sz = SIZES[cw[k]]
            self.cells.append((cw[k], [int(x) for x in cw[k + 1:k + 1 + sz]]))
            k += 1 + sz
        want = 'tri' if self.twod else 'tet'
        self.layer1 = [set() for _ in range(nn)]
        for kd, ns in self.cells:
            if kd == want:
                for a in ns:
                    self.layer1[a].update(ns)
        self.finite = all(math.isfinite(v) for v in xyz + self.s)
        self._quad = False
        self._kap = {}

    def quad(self):
        if self._quad is False:
            self._quad = fit_quadratic(self.pts, self.s, self.twod) if self.finite else None
        return self._quad

    def cloud(self, v, layers):
        cl = set(self.layer1[v])
        for _ in range(layers - 1):
            nxt = set(cl)
            for u in cl:
                nxt |= self.layer1[u]
            if len(nxt) == len(cl):
                break
            cl = nxt
        return cl

    def kappa(self, v, layers=2):
        key = (v, layers)
        if key not in self._kap:
            cl = self.cloud(v, layers)
            others = [self.pts[u] for u in sorted(cl) if u != v]
            if len(others) + (4 if self.twod else 0) < 9:
                self._kap[key] = (INF, others)
            else:
                self._kap[key] = (kappa_cols(design_rows(self.pts[v], others, self.twod), 9), others)
        return self._kap[key]


def unexplained_zero(ms, v):
    """silent zeros at vertex v are explainable only when no layer-k cloud (k = 2..8) is solvable: the C grows the
    cloud until the solve succeeds.  Returns a message when some layer-k cloud is well conditioned and carries a
    non-constant field."""
    prev = -1
    for layers in range(2, 9):
        cl = ms.cloud(v, layers)
        if len(cl) == prev:
            break
        prev = len(cl)
        kap, others = ms.kappa(v, layers)
        if kap <= KAPPA_WELL and any(ms.s[u] != ms.s[v] for u in cl):
            cmin = min(math.sqrt(sum(row[j] ** 2 for row in design_rows(ms.pts[v], others, ms.twod))) for j in range(9))
            if cmin > 1e-9 * kap:
                return 'vertex %d got zeros although its %d-layer cloud (%d points, kappa %.3g) is well conditioned' % (
                    v, layers, len(cl), kap)
    return None


def oracle_mesh(ops, impl):
    bad = []
    cache = {}
    parsed = []
    for i, (o, r) in enumerate(zip(ops, impl)):
        w, rw = o.split(), r.split()
        parsed.append(None)
        if not w or w[0] not in ('kx_grad', 'kx_shess', 'kx_hess') or not rw or rw[0] == 'bad-op':
            continue
        try:
            payload = o[len(w[0]):]
            if payload not in cache:
                cache[payload] = Mesh(w)
            ms = cache[payload]
        except (ValueError, IndexError, KeyError):
            continue
        per = 3 if w[0] == 'kx_grad' else 6
        if rw[0] != 'ok' or len(rw) != 1 + per * ms.nn:
            bad.append((i, '%s: unexpected result %s' % (w[0], r[:60])))
            continue
        vals = fl(rw[1:])
        res = [vals[per * k:per * k + per] for k in range(ms.nn)]
        parsed[-1] = (w[0], payload, ms, res)
        if not ms.finite:
            continue
        q = ms.quad()
        for v in range(ms.nn):
            rv = res[v]
            if not ms.layer1[v]:
                if any(x != 0.0 for x in rv):
                    bad.append((i, '%s: vertex %d has no %s cell but a non-zero result %r' % (w[0], v, 'tri' if ms.twod else 'tet', rv)))
                    break
                continue
            if ms.twod and w[0] != 'kx_hess':
                zs = [rv[2]] if per == 3 else [rv[2], rv[4], rv[5]]
                if any(x != 0.0 for x in zs):
                    bad.append((i, '%s: 2-D vertex %d has a non-zero z entry %r' % (w[0], v, rv)))
                    break
            if all(x == 0.0 for x in rv):
                msg = unexplained_zero(ms, v)
                if msg:
                    bad.append((i, '%s: %s' % (w[0], msg)))
                    break
                continue
            if w[0] == 'kx_hess':
                ev, _ = eig3(rv)
                hm = max(abs(x) for x in rv)
                _stat('psd', -min(ev) / (1e-10 * hm))
                if min(ev) < -1e-10 * hm:
                    bad.append((i, 'kx_hess: vertex %d, |H| = %r has the negative eigenvalue %r' % (v, rv, min(ev))))
                    break
            if q is None:
                continue
            kap, others = ms.kappa(v)
            if not kap <= KAPPA_MAX:
                continue
            if w[0] == 'kx_hess':
                habs = mat_abs(q.h)
                qq = Quad(q.x0, q.c0, q.g, habs)
                # |H|: the analytic absolute value; an error of one entry of H spreads over all entries of |H|
                smax = max(abs(ms.s[u]) for u in ms.cloud(v, 2))
                tl = tolerances(q.grad(ms.pts[v]), q.h, smax, extents(ms.pts[v], others), kap, TOL_EXACT, ms.twod)
                if tl is None:
                    continue
                tmax = 4 * max(x for x in tl[1] if x < INF)
                _stat('exact_abs', max(abs(rv[c] - qq.h[c]) for c in ((0, 1, 3) if ms.twod else range(6))) / tmax)
                for c in ((0, 1, 3) if ms.twod else range(6)):
                    if not abs(rv[c] - qq.h[c]) <= tmax:
                        bad.append((i, 'kx_hess: vertex %d entry %d = %r, |H| of the quadratic has %r (tol %.3g, kappa %.3g)'
                                    % (v, c, rv[c], qq.h[c], tmax, kap)))
                        break
                if bad and bad[-1][0] == i:
                    break
                continue
            n0 = len(bad)
            check_exact(i, '%s vertex %d' % (w[0], v), q, ms.pts[v], ms.s[v], others, ms.twod,
                        rv if per == 3 else None, rv if per == 6 else None, bad, kappa=kap)
            if len(bad) > n0:
                break
    # adjacent ops: |H| against the signed H of the same mesh; the same mesh under another numbering
    for i in range(1, len(parsed)):
        a, b = parsed[i - 1], parsed[i]
        if a is None or b is None:
            continue
        if a[0] == 'kx_shess' and b[0] == 'kx_hess' and a[1] == b[1] and a[2].finite:
            for v in range(a[2].nn):
                hs, ha = a[3][v], b[3][v]
                if not all(math.isfinite(x) for x in hs + ha):
                    continue
                ref = mat_abs(hs)
                hm = max(abs(x) for x in hs)
                if hm > 0.0:
                    _stat('abs_relation', max(abs(ref[c] - ha[c]) for c in range(6)) / (TOL_ABS * hm))
                if any(abs(ref[c] - ha[c]) > TOL_ABS * hm for c in range(6)):
                    bad.append((i, 'kx_hess: vertex %d: %r is not the matrix absolute value %r of the signed Hessian %r'
                                % (v, ha, ref, hs)))
                    break
        elif a[0] == b[0] and a[1] != b[1] and a[2].nn == b[2].nn and a[2].twod == b[2].twod and a[2].finite and b[2].finite:
            ma, mb = a[2], b[2]
            ka = {}
            for v in range(ma.nn):
                ka.setdefault(tuple(ma.pts[v]) + (ma.s[v],), []).append(v)
            if any(len(x) != 1 for x in ka.values()):
                continue
            to_a = []
            for v in range(mb.nn):
                k = tuple(mb.pts[v]) + (mb.s[v],)
                if k not in ka:
                    to_a = None
                    break
                to_a.append(ka[k][0])
            if to_a is None or sorted(to_a) != list(range(ma.nn)):
                continue
            ca = sorted((kd, tuple(sorted(ns))) for kd, ns in ma.cells)
            cb = sorted((kd, tuple(sorted(to_a[n] for n in ns))) for kd, ns in mb.cells)
            if ca != cb:
                continue
            per = 3 if a[0] == 'kx_grad' else 6
            for v in range(mb.nn):
                u = to_a[v]
                ra, rb = a[3][u], b[3][v]
                if ra == rb:
                    continue
                kap, others = ma.kappa(u)
                if not kap <= KAPPA_MAX:
                    continue
                # scale from the data (per entry, see `tolerances`) and the results themselves
                ext = extents(ma.pts[u], others)
                cl = ma.cloud(u, 2)
                sm = max(abs(ma.s[t]) for t in cl)
                f = TOL_PERM * max(1.0, (kap / KAPPA_OK) ** 2)
                dims = (0, 1) if ma.twod else (0, 1, 2)
                if any(not ext[c] > 0.0 for c in dims):
                    continue
                if per == 3:
                    sc_ = [sm / ext[c] if c in dims else INF for c in range(3)]
                else:
                    sc_ = [sm / (ext[c] * ext[d]) if c in dims and d in dims else INF for c, d in HIDX]
                scale = max(abs(x) for x in ra)
                sc_ = [max(x, scale) for x in sc_]
                _stat('perm', max(abs(x - y) / (f * z) for x, y, z in zip(ra, rb, sc_) if z < INF))
                if any(not abs(x - y) <= f * z for x, y, z in zip(ra, rb, sc_)):
                    bad.append((i, '%s depends on the numbering: vertex %d -> %d: %r vs %r (tol %.3g, kappa %.3g)'
                                % (a[0], u, v, ra, rb, f * min(sc_), kap)))
                    break
    return bad


# ------------------------------------------------------------------------------------------ streams
def _nontriv(op, out):
    w = out.split()
    if not w or w[0] == 'bad-op':
        return False
    if w[0] != 'ok':
        return True
    return any(x.strip('08') != '' for x in w[1:])   # some double that is neither +0.0 nor -0.0


KX_LINALG = Stream('kexact_linalg', 'h_kexact', 'kexact', gen_linalg, oracle=oracle_linalg, whitebox=['ref_recon'],
                   nontrivial=_nontriv)
KX_CLOUD = Stream('kexact_cloud', 'h_kexact', 'kexact', gen_cloud, oracle=oracle_cloud, whitebox=['ref_recon'],
                  nontrivial=_nontriv)
KX_MESH = Stream('kexact_mesh', 'h_kexact', 'kexact', gen_mesh, oracle=oracle_mesh, whitebox=['ref_recon'],
                 nontrivial=_nontriv)
STREAMS = [KX_LINALG, KX_CLOUD, KX_MESH]
