from . import streams_geom, streams_kexact

ID = 'C19'
PROPS_MODULE = ['Refine.Props.C19']  # + 'Refine.Props.C19Kexact'
STREAMS = [streams_geom.GRAD, streams_geom.RECON]
STREAMS += [streams_kexact.KX_LINALG, streams_kexact.KX_CLOUD, streams_kexact.KX_MESH]
EXPLANATION = (
    'Proved (Lean 4, exact real arithmetic, over the executable model bit-compared with the C): '
    'ref_node_tet_grad_nodes returns exactly g for the field a+g.x on every non-flat tet (tetGrad_linear; guard passes iff '
    'vol != 0 and |g| < 1e20), otherwise div_zero with the zero vector; ref_node_tri_grad_nodes, sqrt normalisations '
    'included, returns exactly the tangential part g-(g.n)n/(n.n) on any triangle in space (triGrad_linear), hence g in '
    '2-D; the volume-weighted accumulation of ref_recon_l2_projection_grad over ANY finite list of simplices whose '
    'contributing members carry g yields g at every node, or zero with status div_zero exactly when the node\'s '
    'divisible guard fails (project_const, l2gradTets_linear, l2gradTris_linear, l2grad_linear for the C\'s own '
    'pyr/pri/hex decomposition); with positive weights every touched node gets g (…_pos): positivity of the accumulated '
    'weight is the only hypothesis, so any sub-tet table gives exactness; projecting a constant field gives zero '
    'unconditionally, so the double-projection Hessian of a linear field vanishes (l2hessian_linear, 2-D and mixed '
    'versions). '
    'Tie: tet_grad_nodes / xyz_grad / tri_grad_nodes on random and adversarial simplices, and the real '
    'ref_recon_l2_projection_grad / (static, white-box) ref_recon_l2_projection_hessian on generated jittered, stretched, '
    'renumbered tet, mixed tet/pyr/pri/hex and 2-D tri/qua meshes: bit comparison of every nodal value. '
    'Oracle: exact rational gradient of the linear interpolant per simplex; |grad-g| <= 1e-9 scale and |H| <= 1e-8 scale '
    'on meshes whose nodal values are a linear function of the coordinates.')
ASSUMPTIONS = [
    'IEEE rounding is modelled (Float instance, bit-compared), not verified: the theorems hold in exact real arithmetic',
    'not verified: k-exact reconstruction (QR least squares over clouds), the boundary extrapolation layer of '
    'ref_recon_signed_hessian, the absolute-value step, ghost refresh / partition independence (serial harness)',
    'numbering independence is exercised by the generator (random renumbering) and follows from the per-node form of the '
    'theorems; it is not stated as a separate theorem',
]
