from . import streams_geom, streams_kexact, streams_reconpar

ID = 'C19'
PROPS_MODULE = ['Refine.Props.C19', 'Refine.Props.C19Kexact', 'Refine.Props.C19Par']
STREAMS = [streams_geom.GRAD, streams_geom.RECON]
STREAMS += [streams_kexact.KX_LINALG, streams_kexact.KX_CLOUD, streams_kexact.KX_MESH]
STREAMS += [streams_reconpar.RECONPAR]
EXPLANATION = (
    'Proved (Lean 4, exact real arithmetic, over the executable model bit-compared with the C): '
    'ref_node_tet_grad_nodes returns exactly g for the field a+g.x on every non-flat tet (tetGrad_linear; guard passes iff '
    'vol != 0 and |g| < 1e20), otherwise div_zero with the zero vector; ref_node_tri_grad_nodes, sqrt normalisations '
    'included, returns exactly the tangential part g-(g.n)n/(n.n) on any triangle in space (triGrad_linear), hence g in '
    '2-D; the volume-weighted accumulation of ref_recon_l2_projection_grad over ANY finite list of simplices whose '
    'contributing members carry g yields g at every node, or zero with status div_zero exactly when the node\'s '
    'divisible guard fails (project_const, l2gradTets_linear, l2gradTris_linear, l2grad_linear for the C\'s own '
    'pyr/pri/hex decomposition); with positive weights every touched node gets g (…_pos): positivity of the accumulated '
    'weight is the only hypothesis, so any sub-tet table gives exactness; projecting a constant field gives zero '
    'unconditionally, so the double-projection Hessian of a linear field vanishes (l2hessian_linear, 2-D and mixed '
    'versions). '
    'Tie: tet_grad_nodes / xyz_grad / tri_grad_nodes on random and adversarial simplices, and the real '
    'ref_recon_l2_projection_grad / (static, white-box) ref_recon_l2_projection_hessian on generated jittered, stretched, '
    'renumbered tet, mixed tet/pyr/pri/hex and 2-D tri/qua meshes: bit comparison of every nodal value. '
    'Oracle: exact rational gradient of the linear interpolant per simplex; |grad-g| <= 1e-9 scale and |H| <= 1e-8 scale '
    'on meshes whose nodal values are a linear function of the coordinates.'
    ' k-exact part (Props/C19Kexact.lean, model Model/Kexact.lean = ref_cloud_store, ref_recon_grow_cloud_one_layer, '
    'the row builder of ref_recon_kexact_with_aux, ref_matrix_qr and ref_matrix_solve_ab as coded, the layer-2..8 '
    'loop of ref_recon_kexact_gradient_hessian): the Taylor coefficient vector (H, grad f(centre)) of a quadratic '
    'field satisfies every row the C builds (kexact_rows_quadratic; 2-D with the four phantom rows: '
    'kexact_rows_quadratic_twod); for the Gram-Schmidt exactly as coded a successful ref_matrix_qr has Q^T A = R '
    'upper triangular with r_kk != 0 (qr_QtA), and QR + elimination returns the solution of every consistent system '
    'it accepts (qr_solves_consistent); hence ref_recon_kexact_with_aux returns the exact gradient and Hessian '
    'whenever it returns REF_SUCCESS (kexact_quadratic_exact, _twod), every vertex of a mesh with quadratic nodal '
    'values gets the exact gradient/Hessian at its own position or - no acceptable stencil within 8 layers, or no '
    'cell - the zeros the C silently leaves (layerLoop_cases, kexactNode_quadratic, _twod, '
    'kexactGradHess_quadratic); for ANY field the chain returns the least-squares solution (normal equations + full '
    'column rank proved for the code), so the result does not depend on the row order, i.e. on the vertex numbering '
    'that orders the id-sorted cloud (lsq_row_order_independent, kexact_perm, '
    'kexact_numbering_independent_quadratic). Tie (h_kexact, white-box ref_recon.c): bit comparison of q, r of the '
    'real ref_matrix_qr on random tall / rank-deficient / badly scaled matrices, of ref_matrix_solve_ab (row '
    'exchanges, singular, tiny pivots), of the static ref_recon_kexact_with_aux / ref_recon_kexact_center on '
    'explicit 3-D and 2-D clouds, and of ref_recon_gradient / ref_recon_signed_hessian / ref_recon_hessian with '
    'REF_RECON_KEXACT on jittered, stretched, renumbered tet, tri and mixed meshes from one cell (cloud never '
    'sufficient -> zeros) upwards. Oracle on the C output: gradient and Hessian of quadratic fields match the '
    'analytic ones at every vertex with a non-zero result, renumbering permutes the result, Q^T Q = I, QR = A, A x = '
    'b.')
ASSUMPTIONS = [
    'IEEE rounding is modelled (Float instance, bit-compared), not verified: the theorems hold in exact real arithmetic',
    'not verified: the boundary extrapolation layer of ref_recon_signed_hessian (L2 branch), ghost refresh / partition '
    'independence (serial harness); the absolute-value step of ref_recon_hessian is tied (bit comparison) but no theorem is '
    'stated about it here (C16 covers diag_m/form_m)',
    'k-exact: the theorems assume the coded solve returned REF_SUCCESS at the vertex (the divisible guards then give '
    'full column rank); a vertex whose stencil never becomes acceptable within 8 layers silently keeps a ZERO '
    'gradient/Hessian in the C (status is not propagated) - the theorems state this alternative explicitly and the '
    'oracle counts such vertices',
    'k-exact: not proved - that REF_SUCCESS itself is invariant under renumbering, that cloud growth commutes with '
    'renumbering at the mesh level (tie + oracle), ref_recon_ghost_cloud / partition independence (serial harness), '
    'ref_recon_extrapolate_kexact, ref_recon_roundoff_limit',
    'numbering independence is exercised by the generator (random renumbering) and follows from the per-node form of the '
    'theorems; it is not stated as a separate theorem',
]
