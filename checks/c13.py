"""C13 — every accepted local operation keeps validity around the touched vertices; rejects leave no trace."""
from . import streams_meshops

ID = 'C13'
PROPS_MODULE = ['Refine.Props.C13']
STREAMS = list(streams_meshops.STREAMS)
EXPLANATION = ('TODO')
ASSUMPTIONS = ['TODO']
