"""C13 — every accepted local operation keeps validity around the touched vertices; rejects leave no trace."""
from . import streams_meshops, streams_collapse

ID = 'C13'
PROPS_MODULE = ['Refine.Props.C13', 'Refine.Props.C13Collapse']
STREAMS = list(streams_meshops.STREAMS) + list(streams_collapse.STREAMS)
EXPLANATION = (
    'Proved in Lean 4 about the executable model Refine.Model.MeshOps (three cell groups tet/tri/edg as lists of '
    'rows over the concrete vertex-id state machine of C14): every reject path of the trial-vertex frame of '
    'ref_split_pass taken before ref_split_edge (next_global; add; ...; remove) reports "not accepted", leaves the '
    'cell groups literally unchanged and returns the same abstract id state - live map global->slot and pool of '
    're-usable ids (unused list united with [new_n_global, oo)); new_n_global itself is not restored, the issued id '
    'is pushed on the unused list instead (trialFrame_reject_no_trace, on top of C14 trial_vertex_roundtrip); '
    'ref_split_edge, group by group, is a permutation of "two halves (node0->new, node1->new) for every cell on the '
    'edge, every other cell unchanged", with ids inherited, +1 cell per split cell, REF_INCREASE_LIMIT before any '
    'change when more than MAX_CELL_SPLIT tets share the edge (splitGroup_spec, splitEdge_spec, splitEdge_tet_limit, '
    'splitSpec_length, split_ids_inherited, splitV1_fresh); in exact arithmetic the halves of a tet have (1-w) and w '
    'times its volume, so the sum is kept and both stay positive for 0<w<1 (split_vol); ref_collapse_edge is '
    '"cells containing both removed, node1->node0 elsewhere", node1 referenced by nothing, removed from the id '
    'state with its global id on top of the unused list, every other slot untouched (collapseGroup_spec, '
    'collapseSpec_unreferenced, collapseEdge_subst); ref_swap_tri_edge replaces the two triangles by (n0,n3,n2), '
    '(n1,n2,n3) with the shared id, the signed boundary chain under every antisymmetric edge functional and the signed '
    'area are unchanged (swapTriEdge_spec, sameFaceid_ids, swapTri_conforming, swapTri_area); the no-repeated-vertex '
    'invariant is kept after every prefix of every sequence of guarded splits and collapses (history_noRepeat_partial; the full history statement with swap, valid references and 3-D chain conformity is not proved). '
    'Tie: (i) the same op lines drive the real ref_split_edge / ref_collapse_edge / ref_swap_same_faceid / '
    'ref_swap_manifold / ref_swap_node23 / ref_swap_tri_edge (white-box) and the trial frame on grids built in-process '
    'and the Lean model; canonical dumps must be identical; (ii) real ref_adapt_pass / ref_split_pass / '
    'ref_collapse_pass / ref_swap(_tri)_pass / ref_smooth_pass runs (2-D and 3-D fixtures, refining, coarsening, '
    'anisotropic and graded metrics, with and without background interpolation) are observed through the '
    'NASA_REFINE_VERIF per-operation hook: every accepted split/collapse/swap is replayed by the model on the star of the '
    'begin record and compared with the star after, localValid (no repeated vertex, no duplicate cell, every face '
    'with a touched vertex shared by two cells or one cell + one boundary element, removed vertices unreferenced, '
    'positive volume / orientation) is evaluated after every accept, cavity replacement and vertex move, and every '
    'rejected trial must carry the structural hash (all vertices with coordinates and metric, all cells, abstract id '
    'pool) of its begin record. The python oracles state the same property independently of the Lean driver. '
    'Collapse package (Props/C13Collapse, model Refine.Model.Collapse on the Grid/Cell/having vocabulary of the C02 '
    'guards): ref_collapse_edge is the simplicial map node1->node0, so for every abelian group and every alternating '
    'phi vanishing on repeated vertices the signed boundary chain of the collapsed tets and tris under phi is that of '
    'the input under phi o sigma (collapse_conforming: cells holding both ends become degenerate and contribute 0); a '
    'chain-conforming mesh stays conforming after every prefix of every sequence of accepted collapses '
    '(collapse_signedConforming, collapse_history_conforming; conforming_of_orient: the executable orientation clause '
    'valid3Orient of C01 gives the hypothesis); over the reals the total signed volume is conserved when node1 is on '
    'no boundary tri (collapse_volume_interior); node1 is referenced by nothing afterwards '
    '(collapse_removed_unreferenced); if ref_collapse_edge_manifold allows, no created tet/tri/edg has the vertex set '
    'of an existing one (collapse_manifold_no_duplicate); if ref_collapse_edge_tet_quality allows (quality threshold '
    '> 0) every created tet has volume > min_volume and at most one boundary face (collapse_quality_positive); 2-D: '
    'ref_collapse_edge_twod_orientation allows => every created tri is counter-clockwise (collapse_tri_positive); '
    'ref_collapse_edge_local_cell allows => no ghost vertex in the stars (collapse_local_owned); '
    'ref_collapse_to_remove_node1 applies ref_collapse_edge only to a candidate that passed every guard of the chain, '
    'and otherwise leaves the cells untouched (judge_collapse_guards, toRemoveNode1_applies_guarded). Tie: the real '
    'ref_collapse_edge_manifold / _local_cell / _cad_constrained / _tet_quality / _tri_quality / _ratio / _normdev / '
    '_twod_orientation, ref_node_tet_quality / tri_quality / ratio, ref_collapse_edge and '
    'ref_collapse_to_remove_node1 (white-box include, cavity fall-back recorded and answered unsuccessful on both '
    'sides) on jittered 2-D/3-D vertex stars with near-degenerate, inverting, duplicate-creating, ghost and '
    'mixed-element configurations and on random cell soups: decisions, candidate order, ages and the resulting '
    'sorted cells must be identical, doubles bit for bit; exact-rational python oracle on the C output; run level: '
    'every collapse_edge begin record of real ref_collapse_pass runs is re-judged by the modelled guard chain.')
ASSUMPTIONS = [
    'cell indices, the c2n free list and the adjacency chains of ref_cell.c are abstracted to lists of live rows '
    '(their refinement is C14 part B); ref_cell_list_with2 is modelled as "cells containing both vertices", which is '
    'the C only on states without a repeated vertex inside a cell - the op lines enforce that on input and the '
    'operations preserve it',
    'the order in which the C visits the listed cells is not modelled; dumps are compared sorted; the id of the new '
    'triangles of a swap is that of cell_to_swap[0], order-independent once ref_swap_same_faceid passed',
    'harness guards, identical on both sides: vertex slots in op lines lie in [0,100000); tet/tri/edg rows need valid, '
    'pairwise distinct vertices; split/trial_reject need valid end points (an invalid end point would make '
    'ref_node_interpolate_edge read an uninitialised slot); a swap whose two triangles are the same face reversed is '
    'refused as degenerate',
    'theorems about volumes and areas hold in exact arithmetic; IEEE rounding is modelled (Float instance, bit-compared), '
    'not verified',
    'collapse: chain-level conformity, no-duplicate and positive-volume consequences of the guards are proved '
    '(Props/C13Collapse); that positively oriented cells with an unchanged boundary chain do not overlap (degree '
    'argument) is NOT proved; it is checked on every accepted collapse of the observed runs by localValid. '
    'collapse_eq_cavityReplace (the collapse equals a cavity replace of star(node1) coned from node0, up to the vertex '
    'order inside the rows) is NOT proved: the chain identity was proved directly instead; the cavity fall-back of '
    'ref_collapse_to_remove_node1 (form_edge_collapse, enlarge_visible, cavity_ratio/change) is only observed at run level',
    'collapse guards: REF_NODE_JAC_QUALITY and REF_NODE_RATIO_GEOMETRIC (the defaults of ref_node_create) are the '
    'modelled branches; the stored metric and log-metric are independent inputs of the op lines; no CAD model '
    '(ref_geom empty except the REF_GEOM_EDGE flags of the cad op); the adjacency order is that of a grid built by '
    'successive ref_cell_add (exact for the function-level stream; the run-level stream only uses order-independent '
    'verdicts)',
    'cavity replacement, smoothing and the pass drivers are not modelled: covered at run level only (localValid after '
    'accept / move; structural hash after reject)',
    'a rejected smoothing attempt restores the coordinates bit for bit but RE-INTERPOLATES the metric from the background '
    'grid (ref_metric_interpolate_node), which differs from the original by rounding (1 ulp observed): the check '
    'requires coordinates + structure identical and the metric equal to 1e-9 relative',
    'ref_geom (CAD association) is empty in all streams; ref_geom_remove_all / ref_geom_add_between are not modelled',
    'ref_split_pass treats REF_INCREASE_LIMIT from the tri or edg list of ref_split_edge like the one from the tet list '
    'although the tets were already split; modelled as the code is; unreachable on manifold meshes (needs > 100 '
    'triangles around one edge)',
]
