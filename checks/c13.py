"""C13 — every accepted local operation keeps validity around the touched vertices; rejects leave no trace."""
from . import streams_meshops, streams_subdiv

ID = 'C13'
PROPS_MODULE = ['Refine.Props.C13', 'Refine.Props.C13Subdiv']
STREAMS = list(streams_meshops.STREAMS) + list(streams_subdiv.STREAMS)
EXPLANATION = (
    'Proved in Lean 4 about the executable model Refine.Model.MeshOps (three cell groups tet/tri/edg as lists of '
    'rows over the concrete vertex-id state machine of C14): every reject path of the trial-vertex frame of '
    'ref_split_pass taken before ref_split_edge (next_global; add; ...; remove) reports "not accepted", leaves the '
    'cell groups literally unchanged and returns the same abstract id state - live map global->slot and pool of '
    're-usable ids (unused list united with [new_n_global, oo)); new_n_global itself is not restored, the issued id '
    'is pushed on the unused list instead (trialFrame_reject_no_trace, on top of C14 trial_vertex_roundtrip); '
    'ref_split_edge, group by group, is a permutation of "two halves (node0->new, node1->new) for every cell on the '
    'edge, every other cell unchanged", with ids inherited, +1 cell per split cell, REF_INCREASE_LIMIT before any '
    'change when more than MAX_CELL_SPLIT tets share the edge (splitGroup_spec, splitEdge_spec, splitEdge_tet_limit, '
    'splitSpec_length, split_ids_inherited, splitV1_fresh); in exact arithmetic the halves of a tet have (1-w) and w '
    'times its volume, so the sum is kept and both stay positive for 0<w<1 (split_vol); ref_collapse_edge is '
    '"cells containing both removed, node1->node0 elsewhere", node1 referenced by nothing, removed from the id '
    'state with its global id on top of the unused list, every other slot untouched (collapseGroup_spec, '
    'collapseSpec_unreferenced, collapseEdge_subst); ref_swap_tri_edge replaces the two triangles by (n0,n3,n2), '
    '(n1,n2,n3) with the shared id, the signed boundary chain under every antisymmetric edge functional and the signed '
    'area are unchanged (swapTriEdge_spec, sameFaceid_ids, swapTri_conforming, swapTri_area); the no-repeated-vertex '
    'invariant is kept after every prefix of every sequence of guarded splits and collapses (history_noRepeat_partial; the full history statement with swap, valid references and 3-D chain conformity is not proved). '
    'Tie: (i) the same op lines drive the real ref_split_edge / ref_collapse_edge / ref_swap_same_faceid / '
    'ref_swap_manifold / ref_swap_node23 / ref_swap_tri_edge (white-box) and the trial frame on grids built in-process '
    'and the Lean model; canonical dumps must be identical; (ii) real ref_adapt_pass / ref_split_pass / '
    'ref_collapse_pass / ref_swap(_tri)_pass / ref_smooth_pass runs (2-D and 3-D fixtures, refining, coarsening, '
    'anisotropic and graded metrics, with and without background interpolation) are observed through the '
    'NASA_REFINE_VERIF per-operation hook: every accepted split/collapse/swap is replayed by the model on the star of the '
    'begin record and compared with the star after, localValid (no repeated vertex, no duplicate cell, every face '
    'with a touched vertex shared by two cells or one cell + one boundary element, removed vertices unreferenced, '
    'positive volume / orientation) is evaluated after every accept, cavity replacement and vertex move, and every '
    'rejected trial must carry the structural hash (all vertices with coordinates and metric, all cells, abstract id '
    'pool) of its begin record. The python oracles state the same property independently of the Lean driver. '
    'ref_subdiv.c (the pattern splitter ref_split_pass uses for edges whose cells span partitions; model '
    'Refine.Model.Subdiv, simplex part): for all 12 mark patterns ref_subdiv_split_tet implements - every rotation of '
    '1 edge (1:2), 3 edges of a face (1:4), all 6 (1:8) - every symmetric between-vertex map, every abelian group and '
    'alternating face functional, the signed boundary of the children equals the boundary of the parent with each '
    'face replaced by the TRIANGLE template of that face\'s own side marks (subdiv_tet_conforming); the refinement of '
    'a face depends only on the face and its side marks, reverses with the face and is invariant under relisting it '
    'from another vertex, and no face of a supported pattern has exactly two marked sides (subdiv_face_reverse, '
    'subdiv_face_rotate, tet_face_marks) - so two tets sharing a face stay conforming wherever they are split; with '
    'the new vertex at 0.5*x0+0.5*x1 (ref_node_interpolate_edge weight 0.5) every child has exactly 1/2, 1/4, 1/8 of '
    'the parent\'s signed volume, volumes add up, a child is positive iff the parent is (subdiv_tet_volume, '
    'subdiv_tet_orientation); the private copy of the templates in ref_subdiv_unmark_neg_tet_geom_support lists '
    'exactly the cells the splitter creates, and a tet that passes it gets children >= min_volume '
    '(check_copy_agrees, negCheck_guards_split); ref_subdiv_split_tri (1:2, 1:tri+quad, 1:4) and _split_edg keep the '
    'directed-side chain with marked sides halved, the area vector and the ids (subdiv_tri_conforming, '
    'subdiv_tri_area, subdiv_edg_conforming, subdiv_ids_inherited); a tet on which ref_subdiv_unmark_tet / the '
    'promote_2_3 + promote_2_all step reports no change carries a supported pattern, and those steps only remove / '
    'only add marks (unmark_stable_supported, unmark_only_removes, promote_stable_supported). Tie (stream subdiv_fn): '
    'the real ref_subdiv_create / mark_to_split / mark_relax / unmark_relax / unmark_tet / static '
    'unmark_neg_tet_geom_support, new_node, split_tet/_tri/_edg and ref_subdiv_split (both allow_geometry branches, '
    'with and without new marks) on generated tet/tri/edg grids with random numbering, global ids and local vertex '
    'orders against the model, ordered vertex tuples and ids compared; the pattern histogram is in status_kinds '
    '(tetmapK / trimapK / edgmapK).')
ASSUMPTIONS = [
    'ref_subdiv: serial and simplex only - the ghost exchanges of marks and new vertices between ranks '
    '(ref_edge_ghost_*), ref_subdiv_add_local_cell\'s has_local filter, global-id issue for new vertices, and the '
    'pyramid / prism / quad templates are not modelled; the mesh-level statement "sum over all tets = sum over all '
    'boundary triangles" is not assembled from the per-cell theorems (the stream oracle checks it on every generated '
    'grid); promote_2_all tests global edge indices instead of marks (copied as written; always true for the 6 '
    'distinct edges of a tet: promote2All_guard_true); relaxation fixpoint loops are modelled with the C\'s sweep order '
    'and 200-sweep limit but only their single-cell steps have theorems',
    'cell indices, the c2n free list and the adjacency chains of ref_cell.c are abstracted to lists of live rows '
    '(their refinement is C14 part B); ref_cell_list_with2 is modelled as "cells containing both vertices", which is '
    'the C only on states without a repeated vertex inside a cell - the op lines enforce that on input and the '
    'operations preserve it',
    'the order in which the C visits the listed cells is not modelled; dumps are compared sorted; the id of the new '
    'triangles of a swap is that of cell_to_swap[0], order-independent once ref_swap_same_faceid passed',
    'harness guards, identical on both sides: vertex slots in op lines lie in [0,100000); tet/tri/edg rows need valid, '
    'pairwise distinct vertices; split/trial_reject need valid end points (an invalid end point would make '
    'ref_node_interpolate_edge read an uninitialised slot); a swap whose two triangles are the same face reversed is '
    'refused as degenerate',
    'theorems about volumes and areas hold in exact arithmetic; IEEE rounding is modelled (Float instance, bit-compared), '
    'not verified',
    'collapse: that substituting node1->node0 keeps the mesh free of overlaps / the faces matched is NOT proved (it needs '
    'the geometric guards of ref_collapse.c); it is checked on every accepted collapse of the observed runs by localValid',
    'cavity replacement, smoothing and the pass drivers are not modelled: covered at run level only (localValid after '
    'accept / move; structural hash after reject)',
    'a rejected smoothing attempt restores the coordinates bit for bit but RE-INTERPOLATES the metric from the background '
    'grid (ref_metric_interpolate_node), which differs from the original by rounding (1 ulp observed): the check '
    'requires coordinates + structure identical and the metric equal to 1e-9 relative',
    'ref_geom (CAD association) is empty in all streams; ref_geom_remove_all / ref_geom_add_between are not modelled',
    'ref_split_pass treats REF_INCREASE_LIMIT from the tri or edg list of ref_split_edge like the one from the tet list '
    'although the tets were already split; modelled as the code is; unreachable on manifold meshes (needs > 100 '
    'triangles around one edge)',
]
