from . import streams_cavity, cli

ID = 'C01'
PROPS_MODULE = ['Refine.Props.C01']
STREAMS = [streams_cavity.OPS, streams_cavity.BAD, streams_cavity.VALID,
           cli.ADAPT, streams_cavity.ADAPT_PASSES, cli.ADAPT_MPI]

EXPLANATION = (
    'Proved in Lean for the executable model of the cavity machine of src/ref_cavity.c, for every abelian group G '
    'and every alternating phi : Node^3 -> G (so for the free chain group: "every interior face is covered once '
    'from each side" at chain level): (a) insertFace_sum / insertFace_chain / insertFace_chain_fresh - '
    'ref_cavity_insert_face changes the sum over live faces by exactly phi(f) (append, or cancellation of the '
    'reversed face; the only other outcome is REF_INVALID with the cavity unchanged), hence after any sequence of '
    'ref_cavity_add_tet that ends with status ok and state unknown the live face list is the signed boundary of '
    'tet_list; (b) replace_conforming / cavity_replace_conforming - when ref_cavity_verify_face_manifold passed, '
    'the tets ref_cavity_replace creates (live face + cavity node, attached faces skipped) have the same signed '
    'boundary as the tets it removes, the side faces phi(a,n,b) cancelling pairwise because each directed side has '
    'exactly one reversed partner (Finset.sum_involution); replace_star_two_sided - every side triangle {a,b,node} of '
    'the new star is shared by exactly two cone cells; replace_volume - with phi_p(f) = tetVol(f,p) over the reals '
    '(cone4 on the regenerated f2n table) the total volume of the new tets equals the total volume of the removed '
    'tets exactly, wherever the cavity node lies; newTet_volume - the volume of each new tet is the number '
    'ref_cavity_visible compares with min_volume. Valid3/Valid2 are the executable statement of C01 (positive '
    'volumes, each unordered face in two cells or one cell + one boundary element and vice versa, boundary closed '
    'and manifold, every vertex used, numbering contiguous). '
    'Tie: h_cavity calls the real ref_cavity_create / form_empty / add_tet / add_tri / insert_face / insert_seg / '
    'find_face / check_visible / form_edge_split / form_edge_collapse / replace and (white-box) the static '
    'ref_cavity_verify_face_manifold / verify_seg_manifold on grids built in process; the f2n/s2n arrays are compared '
    'slot by slot including blank rows and the blank chain, tet_list/tri_list in push order, state and status after '
    'every op, and the grid (sorted cells, live nodes) after replace, also for chains of cavities on the same grid '
    '(slot reuse in ref_cell / ref_node) and for error returns that leave a partially modified grid; Valid3 is '
    'compared clause by clause with ref_validation_cell_volume / cell_face / boundary_manifold / unused_node on '
    'valid and damaged meshes. Python oracles on the implementation output (exact rationals): after each '
    'successful replace on a conforming grid every face is in two tets or one tet + one tri, the signed boundary '
    'chain is zero, total volume is conserved exactly when only tets change, every new tet of a cavity that passed '
    'check_visible has volume > 1e-15. End-to-end: `ref adapt` / `refmpi adapt` on generated 2-D and 3-D meshes x '
    'metrics x pass counts (0 and 1 always present in cli_adapt_passes01), output judged by the independent C01 '
    'validity oracle.')

ASSUMPTIONS = [
    'operators whose conformity is PROVED: the cavity replace (this package: cavity_replace_conforming, '
    'replace_volume, for tet cavities built with add_tet; also every cavity formed by form_edge_split / '
    'form_edge_collapse / enlarge_* is covered by replace_conforming as soon as its face list is non-degenerate and '
    'the verification passed); edge split and 2-D edge swap by the meshops package (Props/C13). '
    'Only TIED (differential execution + oracles), not proved: collapse by substitution (ref_collapse_edge), node '
    'smoothing, the pass drivers and their selection order, the 3-D boundary bookkeeping between tris, segs and '
    'seg-faces (ref_cavity_add_seg_face / remove_seg_face / remove_seg_add_tets / add_tet_without_faceid), the '
    'enlarge_* loops, cavity_ratio / cavity_change acceptance tests, final numbering, readers/writers',
    'the signed theorems do not exclude a double cover (a face covered +2 and -2 times sums to zero as well): the '
    'unsigned statement is replace_star_two_sided for the side triangles of the new star plus the Valid oracle on '
    'real runs; geometric non-overlap of the new star is what ref_cavity_visible checks per new tet '
    '(volume > 1e-15), in floating point',
    'IEEE rounding in ref_node_tet_vol is modelled (Float instance, bit-compared), not verified: replace_volume '
    'holds in exact real arithmetic',
    'ref_cavity_verify_seg_manifold only checks that the END node of each live seg is the START of exactly one '
    'live seg; the 2-D analogue of replace_conforming does not follow from that check alone (segs (a,v),(b,v),(v,a) '
    'pass) - it follows from the seg list being a boundary (dd=0); not proved here, the 2-D cavity is tied and '
    'covered by the oracles',
    'serial harness: every node is owned unless the stream marks it with `ghost` (then the '
    'REF_CAVITY_PARTITION_CONSTRAINED returns are reached); ref_geom (CAD) is absent, pyramids/prisms are absent '
    '(the MANIFOLD_CONSTRAINED early return of form_edge_* is not reached); node ids passed to insert_face / '
    'insert_seg are >= 0 (a negative first entry would make the row look blank in the C); cells have distinct '
    'valid nodes; the per-node adjacency order of ref_adj is modelled by one registration-order list per cell '
    'store (exact unless ref_cell_replace_node reorders edg cells that share a node)',
    'heap, pointers, realloc and 32-bit integer width are modelled with unbounded lists / Int, not verified',
]

TRUSTED = ['harness/h_cavity.c, checks/streams_cavity.py (generators and the exact-rational oracles), '
           'checks/cli.py + checks/oracles.py + checks/pyio.py for the end-to-end streams']
