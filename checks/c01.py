from . import streams_cavity, streams_collapse, cli, streams_mixed, streams_cavity2

ID = 'C01'
PROPS_MODULE = ['Refine.Props.C01', 'Refine.Props.C13Collapse', 'Refine.Props.C02Mixed', 'Refine.Props.C01Cavity2']
STREAMS = [streams_cavity.OPS, streams_cavity.BAD, streams_cavity.VALID,
           cli.ADAPT, streams_cavity.ADAPT_PASSES, cli.ADAPT_MPI, streams_collapse.STARS, streams_collapse.RUN,
           streams_mixed.FN, streams_mixed.RUN, streams_mixed.ADAPT_MIXED, streams_mixed.ADAPT_MIXED_MPI] + \
          list(streams_cavity2.STREAMS)

EXPLANATION = (
    'Proved in Lean for the executable model of the cavity machine of src/ref_cavity.c, for every abelian group G '
    'and every alternating phi : Node^3 -> G (chain-level conformity: "every interior face is covered once from '
    'each side, every boundary face is matched by one tri"). '
    '(a) insertFace_sum / insertFace_chain / insertFace_chain_fresh: ref_cavity_insert_face changes the sum over '
    'live faces by exactly phi(f) (append, or cancellation of the reversed face; otherwise REF_INVALID, cavity '
    'unchanged), so after any ref_cavity_add_tet sequence ending with status ok / state unknown the live face list is '
    'the signed boundary of tet_list. '
    '(b) replace_conforming / cavity_replace_conforming: when ref_cavity_verify_face_manifold passed, the tets '
    'ref_cavity_replace creates (live face + node, attached faces skipped) have the same signed boundary as the tets '
    'it removes (side faces cancel pairwise, Finset.sum_involution); replace_star_two_sided: every side triangle of '
    'the new star is shared by exactly two cone cells. '
    'Grid level: replace_grid_multiset - on the success path of the model of ref_cavity_replace the live tets are '
    'before - listed + newTets and the live tris before - listed + newTris as multisets (blank-chain invariant '
    'GridInv preserved); replace_mesh_conforming - one cavity operation leaves meshBd phi = sum_tets d(phi) - '
    'sum_tris phi unchanged and keeps the tris; cavity_history_conforming - so does any finite chain of successful '
    'cavity replacements (induction over CavHistory). '
    'Volumes: replace_volume (sum of new tet volumes = sum of removed, exactly, over the reals, any node position; '
    'cone4 on the regenerated f2n table), newTet_volume, visible_positive / visible_positive_real: if '
    'ref_cavity_check_visible moved the cavity from unknown to visible, every tet replace will create has valid nodes '
    'and volume > min_volume = 1e-15 > 0. '
    '2-D: insertSeg_sum, insertSeg_chain (live segs = signed boundary of tri_list after add_tri), '
    'replace_conforming_2d / cavity_replace_conforming_2d (new tris have the signed boundary of the removed tris '
    'because the seg list is a boundary, dd = 0 - the seg verification is one-directional and is not what gives '
    'conformity), replace_area (total signed area conserved exactly). '
    'Validity: Valid3 / Valid2 are the executable statement of C01; valid3_signedConforming: with the combinatorial '
    'orientation clause valid3Orient (signed multiplicity of every unordered face is zero) the mesh is '
    'SignedConforming for every G, phi. '
    'Tie: h_cavity calls the real ref_cavity_create / form_empty / add_tet / add_tri / insert_face / insert_seg / '
    'find_face / check_visible / form_edge_split / form_edge_collapse / replace and (white-box) the static '
    'verify_face_manifold / verify_seg_manifold on grids built in process; f2n/s2n compared slot by slot incl. blank '
    'rows and the blank chain, tet_list/tri_list in push order, state and status after every op, the grid after '
    'replace, chains of cavities on one grid, error returns that leave a partially modified grid; Valid3 compared '
    'clause by clause with ref_validation_cell_volume / cell_face / boundary_manifold / unused_node, the orientation '
    'clause with an independent C evaluation over ref_cell_f2n, on valid and damaged meshes. Python oracles on the '
    'implementation output (exact rationals): after each successful replace on a conforming grid every face is in two '
    'tets or one tet + one tri, the signed boundary chain is zero (tris oriented like the tet face they close), '
    'volume conserved exactly when only tets change, every new tet of a visible cavity has volume > 1e-15. '
    'End-to-end: `ref adapt` / `refmpi adapt` on generated 2-D and 3-D meshes x metrics x pass counts (0 and 1 always '
    'present; strongly anisotropic 2-D requests included), output judged by the independent C01 validity oracle.'
    ' Mixed-element meshes (work package `mixed`, Props/C02Mixed.lean on Model/Mixed.lean: a mesh with ALL cell groups, '
    'vertex validity and coordinates; guarded ref_split_edge / ref_collapse_edge / ref_swap_tri_edge / vertex move / '
    'cavity replacement as operators on it): splitEdgeMixed_sound / swapEdgeMixed_sound / collapseEdgeMixed_sound / '
    'nodeTouchesMixed_sound / smoothTetFrozen_sound / cavityFormGate_sound / cavityFaceGate_sound give the exact '
    'criterion of each guard (split/swap: blocked iff a qua/pyr/pri/hex has the edge in its generated e2n table -- '
    'splitEdgeMixed_misses_quad_diagonal: weaker than "lies on the cell"); mixed_frame: over ANY history of guarded '
    'operations the qua/pyr/pri/hex groups and the validity and coordinates of all their vertices are unchanged '
    '(mixed_frame_gated: unconditionally when the grid has a pyramid or prism; otherwise under the stated CavitySafe side '
    'condition of an ungated cavity replacement); mixed_interface_conforming_split / _swap / mixed_interface_history: every '
    'triangular face of a pyramid / prism that had a tet face or boundary tri on it still has one after the guarded '
    'operation and after any history of guarded splits, 2-D swaps and vertex moves (_collapse_partial: given the simplicial '
    'neighbour across the removed cell); mixed_interface_exact_split: the guarded split keeps the NUMBER of tets and of '
    'boundary tris on each such face, i.e. the truth value of the C01 statement there (faceConforming, the predicate the '
    'driver evaluates on every accepted operation of a real run); mixed_interface_conforming_split_2d: no hanging node on '
    'a quadrilateral side of a planar grid. Tied by streams mixed_fn (diff: local '
    'configurations with 0..3 neighbours of each kind in every table position, incl. pyramids-without-prisms, '
    'prisms-without-pyramids, hexes only), mixed_smooth (validate: ref_smooth_tet_improve and both interior loops of '
    'ref_smooth_pass), mixed_run (validate: hooked real passes on hex+pyramid+tet, prism-layer+tet, all-kinds, hex-island and planar tri+quad grids; '
    'frozen cells compared with the initial ones at EVERY hook event) and the end-to-end oracle cli_adapt_mixed.'
    " Work package cavity2 (Props/C01Cavity2.lean on Model/Cavity2.lean + Model/Cavity.lean; lemmas Lemmas/Cavity2*.lean): the cavity operator WITH boundary triangles, the enlarge loop and the form functions. Boundary bookkeeping: ledgerVal = sum over live faces minus the cone of the live segs from the seg node; insertSeg_ledger - a successful 3-D ref_cavity_insert_seg (tets listed, state unknown: the guard of add_seg_face / remove_seg_face / remove_seg_add_tets) either flags the cavity (face-id mismatch -> BOUNDARY_CONSTRAINED, insertSeg_id_mismatch; ghost tet -> PARTITION_CONSTRAINED) or leaves ledgerVal unchanged up to the tets remove_seg_add_tets pulls in, which enter with their boundary minus the faces that coincide with the two tris on the cancelled seg, and moves the seg chain by psi(s) for every antisymmetric psi; replace_conforming_boundary - face verification passed + ledger equation F - cone(dS) = dT - S  =>  (new tets - new boundary tris) has the signed boundary of (removed tets - removed boundary tris) for every alternating phi vanishing on repeated nodes; replace_mesh_conforming_boundary / cavity_history_conforming_boundary - meshBd phi (tets minus boundary tris) and the grid invariant are preserved by every accepted replacement and every finite history of them (CavStep2: tet AND tri cavities); ledgerOkAt_ledgerEq / certified_step - the executable certificate certOk (listed cells live, live faces non-degenerate, signed multiplicity of every unordered face in live faces + listed tris against cone of unattached segs + faces of listed tets is zero) implies the ledger equation for every coefficient group, so an accepted replace of a certified cavity is a step of the history theorem - the drivers evaluate certOk on every cavity the real code hands to ref_cavity_replace (function level and every cavity_replace begin record of real passes); replace_ids_from_segs / replace_tris_ids / certified_ids_partial - new boundary tris take nodes and face id from a live seg, and with segIdsOk the id of a removed tri: no new face id appears; replace_area_vector - when the seg chain is the boundary of the listed tris the VECTOR area (all three components of sum ref_node_tri_normal) of the new boundary tris equals that of the removed ones exactly (planar patch: the patch area); swap_area_conserved - that hypothesis is discharged for the boundary edge swap (the four segs built from ref_swap_node23 are the boundary of the two listed tris). Enlarge loop: the C has NO iteration cap (while (keep_growing)); the model runs enlarge_visible with two budgets, (#tet slots + 1) sweeps and as many cavity-changing enlarge_face calls per sweep; enlargeVisible_terminates / enlargeConforming_terminates - on a cavity whose lists are duplicate free and live the budgets are never exhausted (every such call lists a new live tet, resp. a new live boundary tri), what remains is a normal return or a sweep that asks for growth and changes nothing (Res.hang: the C spins forever); enlargeVisible_visible - REF_SUCCESS + VISIBLE from state unknown means: final face verification passed, ref_cavity_manifold said yes, every tet replace will create has valid nodes and ref_node_tet_vol not <= min_volume as the modelled predicate decides it, seg side untouched, tet_list only extended, and the ledger equation and non-degeneracy of the live faces carried along every enlarge_face / add_tet step; enlargeVisible_step - so the result is a CavStep2 once replace accepts. Form functions on a conforming grid (MeshConf: GridOK, adjacency walk = live cells, meshBd chi = 0 for all chi): edgeMatched_of_conforming / ballMatched_of_conforming (localisation with phi restricted to the faces through the edge / through n0 or n1) give formEdgeSwap_ledger, formEdgeSplit_ledger, formEdgeCollapse_ledger - a call that returns ok with state unknown and pulled no tet beyond the cells around the edge / the two balls lists exactly those cells and satisfies the ledger equation (face list = boundary of the tet set, skipped faces cancelled against each other and the listed boundary tris, cone of the segs added); swap_accept_conforming (form_edge_swap -> check_visible -> replace, the 3-D edge swap of ref_cavity_swap_tet_pass) and collapse_accept_conforming (form_edge_collapse -> enlarge_visible -> replace, the cavity fall-back of ref_collapse_to_remove_node1): accepted => the step is a CavStep2 and the new grid is again conforming with the grid invariant; non-vacuity by decide on an 8-tet star around an interior edge (8 tets -> 12) and a boundary edge with two tris (4 tets -> 6, tris (0,1,2),(0,6,1) -> (0,6,2),(6,1,2), id inherited). Rejects (C13): replace_requires_visible / replace_inconsistent_no_trace - ref_cavity_replace on a cavity that is not VISIBLE or not verified returns the grid value (cells, node validity, free lists) untouched; collapseCavityPath_no_trace / splitCavityPath_no_trace / swapTetCell_no_trace - the grid a modelled caller hands back differs from its input only through ref_cavity_replace of a VISIBLE cavity that passed the caller's acceptance test; swapTetTrial_accepts, cavRatio_band - what the acceptance tests require. Tie (streams cavity2_*): harness h_cavity2 (white-box ref_cavity.c) against refdrv cavity2 - form_edge_swap / _split / _collapse / form_ball / form_insert / form_insert_tet, add_tet_without_faceid, enlarge_face / _seg / _visible / _conforming / _combined, ref_cavity_visible, ref_cavity_manifold, check_visible, ratio / change (Float, bit patterns) / normdev, replace, ref_swap_node23 on generated edge stars (degree 3..12, interior / boundary with 1-3 face ids, flat / creased, volumes around min_volume, ghost nodes), vertex balls and jittered boxes, state compared after every call (f2n / s2n slot by slot, blank chains, lists, state); run level: hooked real ref_cavity_pass / ref_collapse_pass / ref_adapt_pass on small 3-D grids - every cavity_replace begin record is replayed by the model (certOk, verification, visibility, replace) and the accept record must equal the model result; every create..free without a replace must leave the structural grid hash unchanged.")

ASSUMPTIONS = [
    'mixed-element part: the cavity machine itself is not re-modelled on grids with non-simplex cells (only its gates and the '
    'cell / vertex bookkeeping of ref_cavity_replace); exactly-one-neighbour on a frozen triangular face is proved for the split '
    'only (swap: existence; collapse: existence under the stated neighbour hypothesis; cavity: not at all) and otherwise checked '
    'by the run-level and end-to-end oracles; the 2-D swap next to quadrilaterals is tied (function and run level) but has no '
    'interface theorem; ref_swap_pass (3-D two-face tet removal) is not used by ref adapt and is not covered',
    'collapse by substitution (ref_collapse_edge): chain-level conformity, no duplicate cell under the manifold guard, '
    'volume > min_volume of every created tet under the quality guard, and "ref_collapse_to_remove_node1 applies '
    'only guarded collapses" are PROVED in Props/C13Collapse (collapse_conforming, collapse_history_conforming, '
    'collapse_manifold_no_duplicate, collapse_quality_positive, toRemoveNode1_applies_guarded) and tied by the '
    'collapse_stars / collapse_run streams; the sentence on collapse in the next item is superseded to that extent',
    'operators whose conformity is PROVED: the cavity replace for tet cavities built with add_tet (cavity_history_conforming), for 2-D tri cavities built with add_tri, and - package cavity2 - for tet + boundary-tri cavities under the ledger equation (cavity_history_conforming_boundary), which is proved to be kept by the 3-D seg bookkeeping (ref_cavity_add_seg_face / remove_seg_face / remove_seg_add_tets: insertSeg_ledger), by enlarge_face / enlarge_visible (enlargeVisible_visible) and to be established by form_edge_swap / form_edge_split / form_edge_collapse on a conforming grid when no tet beyond the cells around the edge / the two vertex balls is pulled in by a cancelling seg (side condition `hextra`, decidable, true on manifold boundaries); whole pipelines: swap_accept_conforming, collapse_accept_conforming; every other cavity is covered through the executable certificate certOk (certified_step), evaluated by the drivers on every cavity handed to ref_cavity_replace. Edge split and 2-D edge swap by the meshops package (Props/C13). Only TIED (differential execution + oracles), not proved: ref_cavity_enlarge_seg / enlarge_conforming / enlarge_combined (modelled with budgets and tied; for cavities that list tets termination within the budgets and `the lists stay duplicate free and live` are proved - enlargeConforming_terminates, Lemmas/Cavity2Conf Grow - but the ledger equation across an add_tri step is not: the faces skipped by remove_seg_add_tets match the added tri only if its tet was not listed before, which the final face verification / certOk decide case by case; the pure-surface case tet_list = [] is the 2-D theory of Props/C01), ref_cavity_add_tet_without_faceid, form_ball, form_insert, form_insert_tet (modelled, tied, no theorem; form_insert2 / _unconstrain of ref_layer are not modelled), the loop of ref_cavity_swap_tet_pass over cells and its gates (ref_cavity_edge_swap_boundary: a parameter of swapTetCell), ref_cavity_normdev (needs CAD: constant without it), the NUMBERS of cavity_ratio / cavity_change (Float-tied; only their logic is proved), node smoothing, the pass drivers and their selection order, final numbering, readers/writers. The non-degeneracy of the live faces (three distinct nodes) is a clause of certOk / a hypothesis `hnd` of the pipeline theorems, not derived from the grid; that the adjacency walk lists exactly the live cells (OrderOK) is a hypothesis on the input grid of the a-priori theorems (container property, C14), its preservation by ref_cavity_replace is not proved here; vector-area conservation takes the seg chain = boundary of the listed tris as a hypothesis, discharged for form_edge_swap only (swap_area_conserved); `the set of face ids is unchanged` is proved as `no new id appears` only (certified_ids_partial)',
    'valid3_signedConforming takes the orientation clause valid3Orient as an explicit hypothesis: Valid3 as coded '
    'counts unordered faces; that the two cells of a face see it with opposite orientation follows from positive '
    'volumes only geometrically (not proved). refine`s own ref_validation_* do not test tri orientation at all '
    '(a flipped boundary tri passes cell_volume, cell_face, boundary_manifold, unused_node)',
    'the signed theorems do not exclude a double cover (+2 and -2 cancel): the unsigned statement is '
    'replace_star_two_sided for the side triangles of the new star plus the Valid oracle on real runs; geometric '
    'non-overlap of the new star is what ref_cavity_visible checks per new tet (visible_positive), in floating point',
    'IEEE rounding in ref_node_tet_vol / ref_node_tri_normal is modelled (Float instance, bit-compared), not '
    'verified: replace_volume, replace_area, visible_positive_real hold in exact real arithmetic',
    'ref_cavity_verify_seg_manifold only checks that the END node of each live seg is the START of exactly one '
    'live seg (segs (0,9),(1,9),(9,0) pass - example in Props/C01); 2-D conformity is therefore proved from the seg '
    'list being a boundary, not from that check',
    'serial harness: every node is owned unless the stream marks it with `ghost` (then the '
    'REF_CAVITY_PARTITION_CONSTRAINED returns are reached); ref_geom (CAD) is absent, pyramids/prisms are absent '
    '(the MANIFOLD_CONSTRAINED early return of form_edge_* is not reached); node ids passed to insert_face / '
    'insert_seg are >= 0 (a negative first entry would make the row look blank in the C); cells have distinct '
    'valid nodes; the per-node adjacency order of ref_adj is modelled by one registration-order list per cell '
    'store (exact unless ref_cell_replace_node reorders edg cells that share a node)',
    'heap, pointers, realloc and 32-bit integer width are modelled with unbounded lists / Int, not verified',
]

TRUSTED = ['harness/h_cavity.c, harness/h_cavity2.c, checks/streams_cavity.py, checks/streams_cavity2.py (generators and the exact-rational oracles), '
           'checks/cli.py + checks/oracles.py + checks/pyio.py for the end-to-end streams']
