"""streams `dist_*` (C06): the distributed-mesh mechanisms under mpiexec.

dist_fn   (diff)     function-level: one op line carries the per-rank id states / vertex tables of ALL ranks; the
                     harness builds them with the real ref_node API and calls the real ref_node_synchronize_globals,
                     ref_node_eliminate_unused_offset, ref_node_eliminate_active_parts, ref_cell_part, ref_node_ghost_*;
                     `refdrv dist` computes the same line from the model.  Includes the exhaustive enumeration of small
                     per-rank {old ids, new ids, unused ids} states.
dist_run  (validate) run-level: real histories (parallel read of a pyio-written mesh, then a seeded sequence of
                     migrate_to_balance / adapt_pass / grid_pack / synchronize_globals / ghost refresh with changing
                     metrics); every sync hook dumps the distributed state; `refdrv dist validate` evaluates distInv on it
                     and re-runs the model's syncGlobals on the real pre-states.
The oracles state the C06 invariants directly on the implementation's lines, independent of the Lean model.
"""
import atexit
import itertools
import os
import random
import shutil
import struct
import tempfile

from .common import Stream
from . import meshgen, pyio

NP_QUICK = [1, 2, 3, 4, 5, 8]
NP_MORE = [6, 7]


def line(op, np, hdr, groups):
    return ' '.join([op, str(np)] + [str(h) for h in hdr] + [x for g in groups for x in (['|'] + [str(t) for t in g])])


# ---------------------------------------------------------------------------------------------------------
# id states for ref_node_synchronize_globals
# ---------------------------------------------------------------------------------------------------------
def group_of(old, new, slots, unused):
    """slots: list of global or None (hole)"""
    return [old, new, 'S'] + ['x' if s is None else s for s in slots] + ['U'] + list(unused)


def valid_world(rng, np, n_old, p_unused=0.25, max_new=3, holes=True):
    """a world satisfying the id invariant: shared ids [0,n_old) are live on >=1 rank or unused on exactly one;
    every rank has k_r fresh ids [n_old, n_old+k_r), each live on that rank or in its unused list"""
    ranks = [{'slots': [], 'unused': []} for _ in range(np)]
    for g in range(n_old):
        if rng.random() < p_unused:
            ranks[rng.randrange(np)]['unused'].append(g)
        else:
            holders = [r for r in range(np) if rng.random() < 0.5] or [rng.randrange(np)]
            for r in holders:
                ranks[r]['slots'].append(g)
    groups = []
    for r in range(np):
        k = rng.randint(0, max_new)
        for g in range(n_old, n_old + k):
            if rng.random() < 0.3:
                ranks[r]['unused'].append(g)
            else:
                ranks[r]['slots'].append(g)
        sl = ranks[r]['slots']
        rng.shuffle(sl)
        if holes:
            for _ in range(rng.randint(0, 2)):
                sl.insert(rng.randint(0, len(sl)), None)
        rng.shuffle(ranks[r]['unused'])
        groups.append(group_of(n_old, n_old + k, sl, ranks[r]['unused']))
    return line('sync', np, [], groups)


def structured_worlds(rng, np):
    ops = []
    n = 6
    allr = list(range(n))
    # nothing anywhere / ranks with nothing
    ops.append(line('sync', np, [], [group_of(0, 0, [], []) for _ in range(np)]))
    ops.append(line('sync', np, [], [group_of(n, n, allr if r == np - 1 else [], []) for r in range(np)]))
    # all-new on one rank (each rank in turn is the only one with fresh ids)
    for who in range(np):
        ops.append(line('sync', np, [], [group_of(n, n + (4 if r == who else 0),
                                                  allr + ([n, n + 1, n + 2, n + 3] if r == who else []), [])
                                         for r in range(np)]))
    # every rank has fresh ids
    ops.append(line('sync', np, [], [group_of(n, n + r + 1, [0, 5] + list(range(n, n + r + 1)), [1, 2, 3, 4] if r == 0 else [])
                                     for r in range(np)]))
    # unused at the ends / interleaved, on the first, the last, or spread over the ranks
    for pat in ([0], [n - 1], [0, n - 1], [1, 3, 5], [0, 2, 4], [0, 1, 2], [3, 4, 5]):
        live = [g for g in allr if g not in pat]
        for where in ('first', 'last', 'spread'):
            groups = []
            for r in range(np):
                if where == 'first':
                    un = pat if r == 0 else []
                elif where == 'last':
                    un = pat if r == np - 1 else []
                else:
                    un = [u for i, u in enumerate(pat) if i % np == r]
                groups.append(group_of(n, n + 1, live + [n], list(reversed(un))))
            ops.append(line('sync', np, [], groups))
    # fresh ids returned to the unused list (rejected split trials), holes in the slot table
    ops.append(line('sync', np, [], [group_of(4, 7, [0, None, 1, 2, 3, 5, None], [4, 6]) for r in range(np)]))
    return ops


def exhaustive_worlds(np, n_ids):
    """every assignment of ids 0..n_ids-1 to {old live (on which ranks), old unused (on which rank), fresh live /
    fresh unused on rank r}: for np<=2 and few ids this is the full enumeration the property asks for"""
    ops = []
    for n_old in range(0, n_ids + 1):
        n_new_total = n_ids - n_old
        # compositions of the fresh ids over the ranks
        for ks in itertools.product(range(n_new_total + 1), repeat=np):
            if sum(ks) != n_new_total:
                continue
            # each old id: ('u', rank) or ('l', nonempty subset of ranks)
            choices_old = [('u', r) for r in range(np)] + \
                          [('l', s) for m in range(1, np + 1) for s in itertools.combinations(range(np), m)]
            for old_assign in itertools.product(choices_old, repeat=n_old):
                # fresh: bitmask per rank live/unused ; to bound the count only all-live and "last one unused"
                for fresh_mode in (0, 1):
                    groups = []
                    for r in range(np):
                        slots = [g for g, a in enumerate(old_assign) if a[0] == 'l' and r in a[1]]
                        unused = [g for g, a in enumerate(old_assign) if a[0] == 'u' and a[1] == r]
                        fresh = list(range(n_old, n_old + ks[r]))
                        if fresh_mode == 1 and fresh:
                            unused.append(fresh.pop())
                        groups.append(group_of(n_old, n_old + ks[r], slots + fresh, unused))
                    ops.append(line('sync', np, [], groups))
                    if n_new_total == 0:
                        break
    return ops


def big_world(rng, np):
    """more than 100000 unused ids in total so that ref_node_eliminate_active_parts makes several slices
    (chunk = MAX(total/np + 1, 100000)); rank r holds the unused run [r*per, (r+1)*per) and two live ids above"""
    per = rng.choice([60001, 50001, 70000])
    tot = per * np
    n_old = tot + 2 * np
    groups = []
    for r in range(np):
        live = [tot + 2 * r, tot + 2 * r + 1] + ([tot + 2 * ((r + 1) % np)] if np > 1 else [])
        groups.append(group_of(n_old, n_old, live, ['%d:%d' % (r * per, (r + 1) * per)]))
    return line('sync', np, [], groups)


def malformed_world(rng, np):
    """outside the id invariant (duplicates in unused, unused overlapping live, ranks disagreeing on old_n_global):
    only the model correspondence is checked"""
    groups = []
    for r in range(np):
        old = rng.choice([4, 5, 6])
        k = rng.randint(0, 2)
        live = rng.sample(range(0, old + k), rng.randint(0, old + k))
        unused = [rng.randrange(0, old + k + 1) for _ in range(rng.randint(0, 3))]
        groups.append(group_of(old, old + k, live, unused))
    return line('sync', np, [], groups)


def gen_elimoff(rng):
    n = rng.randint(0, 8)
    pool = sorted(rng.sample(range(0, 30), min(30, n + rng.randint(0, 6))))
    us = sorted(rng.sample(pool, rng.randint(0, len(pool) - n))) if len(pool) > n else []
    gs = [g for g in pool if g not in us][:n]
    if rng.random() < 0.15:  # unsorted / overlapping: correspondence only
        gs = [rng.randrange(0, 12) for _ in range(rng.randint(0, 5))]
        us = [rng.randrange(0, 12) for _ in range(rng.randint(0, 5))]
    return 'elimoff %s ; %s' % (' '.join(map(str, gs)), ' '.join(map(str, us)))


def gen_active(rng):
    n = rng.randint(1, 8)
    counts = [rng.choice([0, 0, 1, 2, 3, 5, 9]) for _ in range(n)]
    chunk = rng.choice([1, 2, 3, 5, 8, 10, 100])
    return 'active %d %d %s' % (chunk, rng.randrange(n), ' '.join(map(str, counts)))


def gen_cellpart(rng, np):
    n = rng.choice([2, 3, 4, 4, 4, 5, 6, 8])
    gs = rng.sample(range(0, 40), n)
    kind = rng.random()
    if kind < 0.25:  # smallest global first / last / in the middle
        gs.sort()
    elif kind < 0.5:
        gs.sort(reverse=True)
    parts = [rng.randrange(max(np, 3)) for _ in range(n)]
    return 'cellpart ' + ' '.join('%d,%d' % (g, p) for g, p in zip(gs, parts))


def dhex(x):
    return struct.pack('>d', float(x)).hex()


def gen_ghost(rng, np):
    ty = rng.choice(['int', 'glob', 'dbl', 'dbl'])
    ldim = rng.choice([1, 1, 2, 3, 6, 15])
    nglob = rng.randint(0, 14)
    owner = [rng.randrange(np) for _ in range(nglob)]
    kind = rng.choice(['random', 'random', 'all_on_one', 'no_ghost', 'everyone_has_all'])
    if kind == 'all_on_one':
        o = rng.randrange(np)
        owner = [o] * nglob
    groups = []
    for r in range(np):
        nodes = []
        for g in range(nglob):
            if owner[g] == r:
                have = True
            elif kind == 'no_ghost':
                have = False
            elif kind == 'everyone_has_all':
                have = True
            else:
                have = rng.random() < 0.4
            if have:
                if ty == 'dbl':
                    vals = [dhex(100.0 * r + g + 0.125 * l) for l in range(ldim)]
                else:
                    vals = [str(1000 * r + 10 * g + l) for l in range(ldim)]
                nodes.append('%d,%d,%s' % (g * 3 + 1, owner[g], ','.join(vals)))
        rng.shuffle(nodes)
        groups.append(nodes)
    return line('ghost', np, [ty, ldim], groups)


def gen_fn(rng, tier, np):
    n = 40 if tier == 'quick' else 200
    ops = []
    ops += structured_worlds(rng, np)
    if np <= 2:
        ops += exhaustive_worlds(np, 3 if np == 2 else 5)
        if tier != 'quick' and np == 2:
            ops += exhaustive_worlds(2, 4)
    elif np == 3:
        ops += exhaustive_worlds(3, 2 if tier == 'quick' else 3)
    for _ in range(n):
        ops.append(valid_world(rng, np, rng.choice([0, 1, 3, 6, 12, 30]), rng.choice([0.0, 0.2, 0.5]),
                               rng.choice([0, 1, 3, 6])))
        if rng.random() < 0.15:
            ops.append(malformed_world(rng, np))
        ops.append(gen_elimoff(rng))
        ops.append(gen_active(rng))
        ops.append(gen_cellpart(rng, np))
        ops.append(gen_ghost(rng, np))
        if rng.random() < 0.03:
            ops.append(rng.choice(['sync %d | 1 1 S q U' % np, 'sync %d' % (np + 1), 'cellpart 1,0', 'ghost %d int 1 | 1,%d,5' % (np, np),
                                   'frobnicate %d | 1' % np, 'active 5 9 1 2', 'elimoff 1 2']))
    if np in (2, 3):
        ops.append(big_world(rng, np))
    if np >= 2:
        ops.append(valid_world(rng, np, 400, 0.3, 20))
    return ops


# ---------------------------------------------------------------------------------------------------------
# the oracle for synchronize_globals: the id invariant on the input, the bijection on the output
# ---------------------------------------------------------------------------------------------------------
def expand(tokens):
    out = []
    for t in tokens:
        if t == 'x':
            out.append(None)
        elif ':' in t:
            a, b = t.split(':')
            out += list(range(int(a), int(b)))
        else:
            out.append(int(t))
    return out


def parse_groups(o):
    w = o.split()
    groups, cur = [], None
    for t in w[2:]:
        if t == '|':
            if cur is not None:
                groups.append(cur)
            cur = []
        elif cur is not None:
            cur.append(t)
    if cur is not None:
        groups.append(cur)
    return w[0], int(w[1]), groups


def id_invariant(states):
    """states: list of dict(old, new, live=[globals], unused=[globals]) -> None if the invariant holds, else why not"""
    olds = {s['old'] for s in states}
    if len(olds) != 1:
        return 'old_n_global differs'
    old = olds.pop()
    if old < 0:
        return 'old_n_global unset'
    seen_unused = set()
    for s in states:
        if s['new'] < old:
            return 'new < old'
        if len(set(s['live'])) != len(s['live']) or len(set(s['unused'])) != len(s['unused']):
            return 'duplicates'
        if set(s['live']) & set(s['unused']):
            return 'live and unused overlap'
        for g in s['live'] + s['unused']:
            if g < 0 or g >= s['new']:
                return 'id outside [0,new_n)'
        fresh = {g for g in s['live'] + s['unused'] if g >= old}
        if fresh != set(range(old, s['new'])):
            return 'fresh ids not exactly [old,new)'
        for u in s['unused']:
            if u < old:
                if u in seen_unused:
                    return 'unused twice'
                seen_unused.add(u)
    live_old = set()
    for s in states:
        live_old |= {g for g in s['live'] if g < old}
    if live_old & seen_unused:
        return 'old id both live and unused'
    if live_old | seen_unused != set(range(old)):
        return 'an old id is neither live nor unused'
    return None


def check_bijection(states, posts):
    """posts: list of dict(newN, oldN, nunused, table={local: global}); states carry slots (local -> old global)"""
    bad = []
    old = states[0]['old']
    verts = {}
    for r, (s, p) in enumerate(zip(states, posts)):
        if p['nunused'] != 0:
            bad.append('rank %d still has %d unused ids' % (r, p['nunused']))
        if p['newN'] != p['oldN']:
            bad.append('rank %d: new_n_global != old_n_global after the call' % r)
        if set(p['table'].keys()) != set(s['slots'].keys()):
            bad.append('rank %d: the set of live slots changed' % r)
            continue
        for loc, g in s['slots'].items():
            key = ('old', g) if g < old else ('new', r, g)
            ng = p['table'][loc]
            if key in verts and verts[key] != ng:
                bad.append('vertex %s has new ids %d and %d on different ranks' % (key, verts[key], ng))
            verts[key] = ng
    n = len(verts)
    vals = sorted(verts.values())
    if vals != list(range(n)):
        bad.append('new ids are not exactly 0..%d: %s' % (n - 1, vals[:20]))
    for r, p in enumerate(posts):
        if p['newN'] != n:
            bad.append('rank %d: n_global = %d, number of live vertices is %d' % (r, p['newN'], n))

    def order_key(k):
        return (0, k[1]) if k[0] == 'old' else (1, k[1], k[2])
    ks = sorted(verts.keys(), key=order_key)
    for a, b in zip(ks, ks[1:]):
        if not verts[a] < verts[b]:
            bad.append('not monotone: %s -> %d, %s -> %d' % (a, verts[a], b, verts[b]))
            break
    return bad


def parse_post(txt):
    w = txt.split()
    if len(w) < 4 or w[3] != 'T':
        return None
    return {'newN': int(w[0]), 'oldN': int(w[1]), 'nunused': int(w[2]),
            'table': {int(t.split(':')[0]): int(t.split(':')[1]) for t in w[4:]}}


def oracle_sync(o, r):
    op, np, groups = parse_groups(o)
    if r in ('bad-op', 'hang'):
        return []
    states = []
    for g in groups:
        if len(g) < 4 or g[2] != 'S' or 'U' not in g:
            return []
        u = g.index('U')
        slots = expand(g[3:u])
        states.append({'old': int(g[0]), 'new': int(g[1]), 'slots': {i: s for i, s in enumerate(slots) if s is not None},
                       'live': [s for s in slots if s is not None], 'unused': expand(g[u + 1:])})
    if id_invariant(states) is not None:
        return []  # outside the hypothesis: correspondence only
    posts = [parse_post(x) for x in r.split(' | ')]
    if len(posts) != np or any(p is None for p in posts):
        return ['malformed result line']
    return check_bijection(states, posts)


def oracle_fn(ops, impl):
    bad = []
    for i, (o, r) in enumerate(zip(ops, impl)):
        w = o.split()
        if r in ('bad-op', 'hang'):
            continue
        if w[0] == 'sync':
            for m in oracle_sync(o, r):
                bad.append((i, 'synchronize_globals: ' + m))
        elif w[0] == 'elimoff':
            k = w.index(';')
            gs, us = list(map(int, w[1:k])), list(map(int, w[k + 1:]))
            if gs == sorted(gs) and us == sorted(us) and not set(gs) & set(us) and len(set(us)) == len(us):
                exp = [g - len([u for u in us if u < g]) for g in gs]
                if r.split() != ['ok'] + list(map(str, exp)):
                    bad.append((i, 'eliminate_unused_offset: got %s expected %s' % (r, exp)))
        elif w[0] == 'active':
            chunk, a0, counts = int(w[1]), int(w[2]), list(map(int, w[3:]))
            a1, na = a0 + 1, counts[a0]
            while a1 < len(counts) and na + counts[a1] <= chunk:
                na += counts[a1]
                a1 += 1
            if r.split() != ['ok', str(a1), str(na)]:
                bad.append((i, 'eliminate_active_parts: got %s expected %d %d' % (r, a1, na)))
        elif w[0] == 'cellpart':
            vs = [tuple(map(int, t.split(','))) for t in w[1:]]
            k = min(range(len(vs)), key=lambda j: vs[j][0])
            if r.split() != ['ok', str(k), str(vs[k][1])]:
                bad.append((i, 'cell owner: got %s, the vertex with the smallest global is #%d with part %d' % (r, k, vs[k][1])))
        elif w[0] == 'ghost':
            op, np, groups = parse_groups(o)
            ldim = int(w[3])
            before = [{int(t.split(',')[0]): (int(t.split(',')[1]), t.split(',')[2:]) for t in g} for g in groups]
            res = r.split(' | ')
            if len(res) != np:
                bad.append((i, 'ghost: expected %d per-rank results' % np))
                continue
            for q in range(np):
                rw = res[q].split()
                if rw[0] != 'ok':
                    bad.append((i, 'ghost: status %s on rank %d' % (rw[0], q)))
                    continue
                after = {int(t.split(':')[0]): t.split(':')[1].split(',') for t in rw[1:]}
                if set(after) != set(before[q]):
                    bad.append((i, 'ghost: vertex set changed on rank %d' % q))
                    continue
                for g, (p, vals) in before[q].items():
                    exp = vals if (p == q or np == 1) else before[p][g][1]
                    if after[g] != exp:
                        bad.append((i, 'ghost: rank %d vertex %d (part %d) has %s, owner entry is %s' % (q, g, p, after[g], exp)))
    return bad


# ---------------------------------------------------------------------------------------------------------
# run-level
# ---------------------------------------------------------------------------------------------------------
_TMP = []


def _tmpdir():
    if not _TMP:
        d = tempfile.mkdtemp(prefix='c06_mesh_')
        _TMP.append(d)
        atexit.register(lambda: shutil.rmtree(d, ignore_errors=True))
    return _TMP[0]


def gen_run(rng, tier, np):
    nruns = 2 if tier == 'quick' else 6
    ops = []
    for k in range(nruns):
        mseed = rng.randrange(1 << 30)
        mr = random.Random(mseed)
        dim3 = rng.random() < 0.75
        path = os.path.join(_tmpdir(), 'm_%d_%d_%d.meshb' % (np, k, mseed))
        if dim3:
            n = rng.choice([(2, 2, 2), (3, 2, 2), (2, 2, 1), (3, 3, 2)] if np >= 4 else [(1, 1, 1), (2, 2, 2), (2, 1, 1), (3, 2, 2)])
            v, t, s = meshgen.box_tets(n[0], n[1], n[2], mr, rng.choice([0.0, 0.2]), (1.0, 1.0, 1.0),
                                       rng.choice(['sides', 'one', 'split']))
            pyio.write_meshb(path, 3, v, {'tet': t, 'tri': s})
        else:
            n = rng.choice([(2, 2), (3, 3), (4, 3)])
            v, t, e = meshgen.square_tris(n[0], n[1], mr, rng.choice([0.0, 0.2]), (1.0, 1.0), 'sides')
            pyio.write_meshb(path, 2, v, {'tri': t, 'edg': e})
        nsteps = rng.randint(3, 12) if tier != 'quick' else rng.randint(3, 8)
        steps = []
        nadapt = 0
        for _ in range(nsteps):
            s = rng.choice(['bal', 'adapt', 'adapt', 'pack', 'sync', 'ghost'])
            if s == 'adapt':
                if nadapt >= (2 if tier == 'quick' else 3):
                    s = 'bal'
                else:
                    nadapt += 1
                    # random metric: refine (h small) or coarsen (h large), graded in x
                    h = rng.choice([0.35, 0.5, 0.7, 1.5, 3.0]) if nadapt > 1 else rng.choice([0.4, 0.5, 0.7])
                    steps.append('metric:%g:%g' % (h, rng.choice([0.0, 0.5, 2.0])))
            steps.append(s)
        ops.append('run %d %s %d %s' % (np, path, mseed, ' '.join(steps)))
    return ops


def parse_state(l):
    w = l.split()
    label, np = w[1], int(w[2])
    groups, cur = [], None
    for t in w[3:]:
        if t == '|':
            if cur is not None:
                groups.append(cur)
            cur = []
        else:
            cur.append(t)
    groups.append(cur)
    ranks = []
    for g in groups:
        c = g.index('C')
        nodes = {}
        dup = False
        for t in g[4:c]:
            f = t.split(',')
            if int(f[0]) in nodes:
                dup = True
            nodes[int(f[0])] = (int(f[1]), tuple(f[2:]))
        cells = [tuple(int(x) for x in t.split(',')) for t in g[c + 1:]]
        ranks.append({'old': int(g[0]), 'new': int(g[1]), 'nunused': int(g[2]), 'nodes': nodes, 'cells': cells, 'dup': dup})
    return label, np, ranks


def state_invariants(label, np, ranks):
    """the C06 sentence, clause by clause, on one dumped state"""
    bad = []
    owner = {}
    for r, s in enumerate(ranks):
        if s['dup']:
            bad.append('rank %d lists a global twice' % r)
        for g, (p, pay) in s['nodes'].items():
            if not 0 <= p < np:
                bad.append('vertex %d on rank %d has part %d' % (g, r, p))
            if owner.setdefault(g, p) != p:
                bad.append('vertex %d has two owners: %d and %d' % (g, owner[g], p))
    for g, p in owner.items():
        if 0 <= p < np and (g not in ranks[p]['nodes'] or ranks[p]['nodes'][g][0] != p):
            bad.append('vertex %d: owner rank %d does not store it as owned' % (g, p))
    owned = [g for r, s in enumerate(ranks) for g, (p, _) in s['nodes'].items() if p == r]
    if len(owned) != len(set(owned)):
        bad.append('a global id is owned twice')
    if len(owned) != len(owner):
        bad.append('owned vertices %d != distinct vertices %d' % (len(owned), len(owner)))
    synced = all(s['nunused'] == 0 and s['old'] == s['new'] for s in ranks)
    if synced:
        if sorted(owned) != list(range(len(owned))):
            bad.append('synchronised global ids are not contiguous 0..N-1')
        for r, s in enumerate(ranks):
            if s['new'] != len(owned):
                bad.append('rank %d: n_global %d != summed owned vertices %d' % (r, s['new'], len(owned)))
    allcells = set()
    for r, s in enumerate(ranks):
        if len(set(s['cells'])) != len(s['cells']):
            bad.append('rank %d stores a cell twice' % r)
        allcells |= set(s['cells'])
    stored = [set(s['cells']) for s in ranks]
    ncell_owned = 0
    for c in allcells:
        vs = c[2:]
        parts = {owner.get(g, -1) for g in vs}
        for r in range(np):
            if (r in parts) != (c in stored[r]):
                bad.append('cell %s: rank %d %s it but parts of its vertices are %s' %
                           (c, r, 'stores' if c in stored[r] else 'does not store', sorted(parts)))
        co = owner.get(min(vs), -1)
        if not (0 <= co < np and c in stored[co]):
            bad.append('cell %s: owner rank %d does not store it' % (c, co))
    for r, s in enumerate(ranks):
        ncell_owned += len([c for c in s['cells'] if owner.get(min(c[2:]), -1) == r])
        used = {g for c in s['cells'] for g in c[2:]}
        for g in used:
            if g not in s['nodes']:
                bad.append('rank %d stores a cell with vertex %d it does not store' % (r, g))
        for g, (p, pay) in s['nodes'].items():
            if p != r and g not in used:
                bad.append('rank %d stores ghost vertex %d that no stored cell needs' % (r, g))
            if p != r and 0 <= p < np and g in ranks[p]['nodes'] and ranks[p]['nodes'][g][1] != pay:
                bad.append('ghost vertex %d on rank %d differs from the owner copy (coordinates/metric/aux)' % (g, r))
    if ncell_owned != len(allcells):
        bad.append('summed owned cells %d != distinct cells %d' % (ncell_owned, len(allcells)))
    return bad[:6]


def parse_syncpair(l):
    w = l.split()
    np = int(w[1])
    groups, cur = [], None
    for t in w[2:]:
        if t == '|':
            if cur is not None:
                groups.append(cur)
            cur = []
        else:
            cur.append(t)
    groups.append(cur)
    states, posts = [], []
    for g in groups:
        gi, si, ui, ri = g.index('G'), g.index('S'), g.index('U'), g.index('R')
        slots = {i: int(t) for i, t in enumerate(g[gi + 1:si]) if t != 'x'}
        states.append({'old': int(g[0]), 'new': int(g[1]), 'slots': slots, 'live': list(slots.values()),
                       'unused': [int(t) for t in g[ui + 1:ri]]})
        posts.append(parse_post(' '.join(g[ri + 1:])))
    return np, states, posts


def oracle_run(ops, impl):
    bad = []
    for i, l in enumerate(impl):
        if l.startswith('state '):
            label, np, ranks = parse_state(l)
            for m in state_invariants(label, np, ranks):
                bad.append((min(i, len(ops) - 1), '%s: %s' % (label, m)))
        elif l.startswith('syncpair '):
            np, states, posts = parse_syncpair(l)
            why = id_invariant(states)
            if why is not None:
                bad.append((min(i, len(ops) - 1), 'id invariant does not hold before synchronize_globals: ' + why))
                continue
            for m in check_bijection(states, posts):
                bad.append((min(i, len(ops) - 1), 'synchronize_globals on a real state: ' + m))
        elif l.startswith('run-failed'):
            bad.append((min(i, len(ops) - 1), l))
    return bad


def _nontrivial(op, out):
    return out not in ('bad-op', 'hang')


def _mk_fn(name, nps, thorough_only=False):
    s = Stream(name, 'h_dist', 'dist', gen_fn, oracle=oracle_fn, np=nps, timeout=280, nontrivial=_nontrivial,
               session='\x00none', batches={'quick': 1, 'thorough': 2})
    s.thorough_only = thorough_only
    s.ops_file = True
    return s


def _mk_run(name, nps, thorough_only=False):
    s = Stream(name, 'h_dist', 'dist', gen_run, oracle=oracle_run, kind='validate', np=nps, driver_args=('validate',),
               timeout=290, nontrivial=_nontrivial, session='run', env={'REF_VERIF_PARTITIONER_FULL': '1'},
               batches={'quick': 1, 'thorough': 2})
    s.thorough_only = thorough_only
    s.ops_file = True
    return s


FN = _mk_fn('dist_fn', NP_QUICK)
RUN = _mk_run('dist_run', NP_QUICK)
FN_MORE = _mk_fn('dist_fn_more', NP_MORE, True)
RUN_MORE = _mk_run('dist_run_more', NP_MORE, True)
STREAMS = [FN, RUN, FN_MORE, RUN_MORE]
