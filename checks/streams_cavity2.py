"""Streams for the `cavity2` work package (C01 / C13): the parts of ref_cavity.c around the insert / verify / replace core.

diff streams (harness h_cavity2  <->  refdrv cavity2), one `dump` (f2n / s2n slot by slot incl. blank chains, tet_list /
tri_list in push order) after every call:
  cavity2_stars   interior and boundary EDGE STARS of degree 3..12 (closed ring = interior edge, open fan = boundary edge with
                  two tris; 1, 2, 3 face ids around the edge; flat / convex / re-entrant dihedral; new node at the midpoint,
                  off it, far outside, and within 0 .. 1e-13 of the plane of a cavity face so that would-be tet volumes
                  straddle min_volume = 1e-15), random vertex numbering, random cell insertion order and node rotation,
                  ghost vertices, uniform / anisotropic / full metrics, ratio limits; form_split / form_swap /
                  form_collapse / form_ball / form_insert / form_insert_tet -> [enlarge_face i / enlarge_seg i /
                  visible_face i] -> [enlarge_*] -> visible -> verify -> manifold -> ratio -> change -> [normdev] -> ledger
                  -> replace -> grid, chained on the same grid
  cavity2_boxes   the same pipelines on jittered Kuhn boxes of checks/meshgen.py (patches one / sides / split): enlarge
                  loops that really grow, the twelve (edge, node) swap candidates of a tet, vertex balls, insertion of an
                  isolated vertex, hand-made add_tet / add_tet_wo / add_tri cavities, the `two-face boundary tet` scenario
                  (findings/cavity2_twoface_ledger), tri-only surfaces and planar twod grids (seg cavities)
  cavity2_bad     wrong states, dead cells, stale cavities after a replace, junk faces / segs (the `while (keep_growing)`
                  loops that never end are left by the harness's call budget and print `hang` on both sides), junk ops
oracle (Python, on the C output only, exact rationals).  Each cavity is announced by `note caller` (a sequence the
  library itself runs between ref_cavity_create and ref_cavity_free: swap_tet_pass, collapse fall-back, split, ref_layer)
  or `note free` (any other use of the API).  After every successful replace on a grid that was conforming, for a
  `caller` cavity, or a `free` one whose last `ledger` printed the certificate: the signed boundary chain (tets minus
  tris) is still zero and the tris created carry face ids of tris that were removed; for a `caller` cavity or one that
  reached VISIBLE through a volume test and passed ref_cavity_manifold: every face is in two tets or one tet + one tri; total volume is conserved
  exactly when no tri changed; every new tet has volume > min_volume when the cavity reached VISIBLE through a volume test
  (check_visible / enlarge_visible / enlarge_combined from state unknown); a `caller` cavity accepted without the
  certificate is reported.  A `hang` on a freshly formed cavity outside the `bad` stream is a violation.

validate stream (harness h_cavity2 run -> refdrv cavity2 replay):
  cavity2_run     real ref_cavity_pass / ref_collapse_pass / ref_split_pass / ref_adapt_pass on boxes of 1..3 cells per
                  direction, 1 / 6 / 12 face ids, jitter, uniform / anisotropic / rotated / varying rotated metrics through
                  ref_node_metric_set; one record per `cavity_replace` begin / accept (cavity, complete stars of every node
                  of a listed cell in adjacency order, coordinates + metric + log-metric bit patterns, the thresholds of
                  ref_grid_adapt, structural grid hash).  The driver requires visible / both manifold verifications /
                  certOk / segIdsOk / faceVisible on every new tet, runs Cavity.replace and, for the caller,
                  collapseCavityPath resp. formEdgeSwap + checkVisible + swapTetTrial, and compares with the accept record.
                  Python oracle on the C output: local validity of the accept stars (every face with a centre node in two
                  tets or one tet + one tri: the stars of the centre nodes are complete), exact positive volumes, face ids,
                  and NO-TRACE: (1) inside ref_cavity_pass the hash at every begin equals the hash after the previous accept /
                  at pass start and the hash at pass end equals the hash after the last accept; (2) every ref_cavity_create /
                  ref_cavity_free pair of ref_collapse.c / ref_split.c without an accept in between leaves the hash unchanged.
"""
import math
from fractions import Fraction

from . import meshgen
from .common import Stream
from .streams_cavity import hx, unhx, fvol, parse_grid, signed_boundary, unsigned_cover, TET_FACES
from .streams_collapse import exp_sym

EVEN4 = [(0, 1, 2, 3), (0, 2, 3, 1), (0, 3, 1, 2), (1, 0, 3, 2), (1, 2, 0, 3), (1, 3, 2, 0),
         (2, 0, 1, 3), (2, 1, 3, 0), (2, 3, 0, 1), (3, 0, 2, 1), (3, 1, 0, 2), (3, 2, 1, 0)]
OTHERS12 = [(0, 1, 2), (0, 1, 3), (0, 2, 1), (0, 2, 3), (0, 3, 1), (0, 3, 2),
            (1, 2, 0), (1, 2, 3), (1, 3, 0), (1, 3, 2), (2, 3, 0), (2, 3, 1)]


def N(tier, q, t=None):
    return q if tier == 'quick' else (t if t is not None else 5 * q)


# ------------------------------------------------------------------ meshes
def orient(verts, t):
    a, b, c, d = t
    if meshgen.tet_vol(verts[a], verts[b], verts[c], verts[d]) < 0:
        a, b = b, a
    return (a, b, c, d)


def boundary_faces(tets):
    cnt = {}
    for t in tets:
        for f in TET_FACES:
            tri = (t[f[0]], t[f[1]], t[f[2]])
            cnt.setdefault(tuple(sorted(tri)), []).append(tri)
    return [l[0] for _, l in sorted(cnt.items()) if len(l) == 1]


def scramble(rng, verts, tets, tris):
    """random vertex numbering, random insertion order, random (orientation preserving) rotation of every cell;
    returns (verts, tets, tris, p) with p[old] = new"""
    n = len(verts)
    p = list(range(n))
    rng.shuffle(p)
    nv = [None] * n
    for i in range(n):
        nv[p[i]] = verts[i]
    nt = []
    for t in tets:
        e = rng.choice(EVEN4)
        nt.append(tuple(p[t[k]] for k in e))
    ns = []
    for s in tris:
        r = rng.randrange(3)
        ns.append(tuple(p[s[(k + r) % 3]] for k in range(3)) + (s[3],))
    rng.shuffle(nt)
    rng.shuffle(ns)
    return nv, nt, ns, p


def edge_star(rng, n, closed, span=math.pi, rough=True):
    """edge (0,1) along z with a ring of n points: closed -> n tets around an interior edge; open -> n-1 tets around a
    boundary edge whose two boundary tris lie in the half planes at angle 0 and `span`"""
    verts = [(0.0, 0.0, 0.0), (0.0, 0.0, 1.0)]
    ns = n if closed else n - 1
    tot = 2 * math.pi if closed else span
    while True:
        w = [rng.uniform(0.5, 1.5) for _ in range(ns)]
        gaps = [tot * x / sum(w) for x in w]
        if max(gaps) < 0.8 * math.pi:
            break
    th = 0.0
    for k in range(n):
        r = rng.uniform(0.7, 1.3) if rough else 1.0
        z = 0.5 + (rng.uniform(-0.2, 0.2) if rough else 0.0)
        x, y = r * math.cos(th), r * math.sin(th)
        if k == 0:
            x, y = r, 0.0
        if not closed and k == n - 1 and span == math.pi:
            x, y = -r, 0.0          # exactly flat boundary
        verts.append((x, y, z))
        if k < ns:
            th += gaps[k]
    tets = []
    for k in range(ns):
        tets.append(orient(verts, (0, 1, 2 + k, 2 + (k + 1) % n)))
    return verts, tets


def star_ids(rng, verts, tets, n, closed, mode):
    table = {'one': (1, 1, 1, 1), 'edge': (1, 1, 2, 2), 'two': (1, 2, 1, 2), 'three': (1, 2, 3, 3)}
    tris = []
    for f in boundary_faces(tets):
        s = set(f)
        if mode == 'rand':
            fid = rng.randint(1, 3)
        else:
            e0, e1, c0, c1 = table[mode]
            if 0 in s and 1 in s:
                fid = e0 if 2 in s else e1
            else:
                fid = c0 if 0 in s else c1
        tris.append(f + (fid,))
    return tris


def box(rng, nmax=3, nmin=1):
    n = [rng.randint(nmin, nmax) for _ in range(3)]
    v, t, s = meshgen.box_tets(n[0], n[1], n[2], rng, rng.choice([0.0, 0.15, 0.3]),
                               patches=rng.choice(['sides', 'one', 'split']))
    return [tuple(p) for p in v], [tuple(x[:4]) for x in t], [tuple(x[:4]) for x in s]


def metric_of(rng, kind, p):
    if kind == 'iso':
        h = 0.7
        hs = [h, h, h]
    elif kind == 'isovar':
        h = rng.uniform(0.4, 2.0)
        hs = [h, h, h]
    elif kind == 'aniso':
        hs = [0.4, 1.6, 0.9]
    elif kind == 'lin':
        h = 0.5 + 0.6 * abs(p[0])
        hs = [h, h, h]
    else:  # full
        l = [rng.uniform(-1, 1) * (0.3 if k in (1, 2, 4) else 1.0) for k in range(6)]
        return exp_sym(l), l
    m = [1.0 / hs[0] ** 2, 0.0, 0.0, 1.0 / hs[1] ** 2, 0.0, 1.0 / hs[2] ** 2]
    return m, [math.log(m[0]), 0.0, 0.0, math.log(m[3]), 0.0, math.log(m[5])]


def metric_line(v, m, l):
    return 'metric %d %s %s' % (v, ' '.join(hx(x) for x in m), ' '.join(hx(x) for x in l))


def node_line(p):
    return 'node %s %s %s' % (hx(p[0]), hx(p[1]), hx(p[2]))


def grid_ops(rng, verts, tets, tris, tag=None, metric=None, ghosts=()):
    ops = ['reset' if tag is None else 'reset ' + tag]
    for p in verts:
        ops.append(node_line(p))
    metric = metric if metric is not None else rng.choice(['id', 'id', 'iso', 'isovar', 'aniso', 'lin', 'full'])
    if metric != 'id':
        for i, p in enumerate(verts):
            m, l = metric_of(rng, metric, p)
            ops.append(metric_line(i, m, l))
    if rng.random() < 0.25:
        ops.append('limits %s %s' % (hx(rng.choice([1.0e-3, 0.2, 0.5])), hx(rng.choice([3.0, 1.8, 1.2]))))
    for g in ghosts:
        ops.append('ghost %d' % g)
    for t in tets:
        ops.append('tet %d %d %d %d' % tuple(t[:4]))
    for t in tris:
        ops.append('tri %d %d %d %d' % tuple(t[:4]))
    return ops


def add(a, b, s=1.0):
    return tuple(x + s * y for x, y in zip(a, b))


def mid(verts, a, b, t=0.5):
    return tuple((1 - t) * x + t * y for x, y in zip(verts[a], verts[b]))


def rand_vec(rng, r):
    return tuple(rng.uniform(-r, r) for _ in range(3))


def near_plane(rng, verts, f):
    """a point within 0 .. 1e-13 of the plane of face f, on either side: the tet (f, point) has |volume| around 1e-15"""
    a, b, c = (verts[k] for k in f[:3])
    w = [rng.uniform(0.2, 0.5) for _ in range(3)]
    sw = sum(w)
    cen = tuple(sum(w[i] * q[k] for i, q in enumerate((a, b, c))) / sw for k in range(3))
    u = tuple(y - x for x, y in zip(a, b))
    v = tuple(y - x for x, y in zip(a, c))
    nrm = (u[1] * v[2] - u[2] * v[1], u[2] * v[0] - u[0] * v[2], u[0] * v[1] - u[1] * v[0])
    ln = math.sqrt(sum(x * x for x in nrm)) or 1.0
    eps = rng.choice([0.0, 1e-16, 1e-15, 3e-15, 1e-14, 3e-14, 1e-13]) * rng.choice([-1, 1])
    return tuple(cen[k] + eps * nrm[k] / ln for k in range(3))


# ------------------------------------------------------------------ pipelines
ENL = ['enlarge_visible', 'enlarge_conforming', 'enlarge_combined']


def tail(rng, enl='rand', probe=True):
    ops = ['dump']
    if probe and rng.random() < 0.4:
        for _ in range(rng.randint(1, 3)):
            k = rng.choice(['visible_face', 'enlarge_face', 'enlarge_seg'])
            ops.append('%s %d' % (k, rng.choice([0, 0, 1, 2, 3, 5, 8, 11, -1, 400])))
            ops.append('dump')
    if enl == 'rand':
        enl = rng.choice([None, None] + ENL)
    if enl:
        ops += [enl, 'dump']
    ops += ['visible', 'dump', 'verify', 'manifold', 'ratio', 'change']
    if rng.random() < 0.4:
        ops.append('normdev')
    ops += ['ledger', 'replace', 'dump', 'grid']
    return ops


# the sequences the library itself runs between ref_cavity_create and ref_cavity_free (ref_cavity_swap_tet_pass,
# ref_collapse_to_remove_node1, ref_split_pass, ref_layer.c): after `note caller` the oracle requires a conforming result of
# every accepted replace; after `note free` (arbitrary use of the API, e.g. the tri-first form_insert on a grid with tets)
# only when the certificate `certOk` held
CALLER_ENL = {'split': ['enlarge_combined'],          # ref_split_pass (try_cavity)
              'collapse': ['enlarge_visible'],         # ref_collapse_to_remove_node1 (!allowed branch)
              'swap': [None, None, 'enlarge_combined'],   # ref_cavity_swap_tet_pass; ref_layer.c
              'insert_tet': ['enlarge_combined']}      # ref_layer.c


def cav(rng, kind, form, caller=True, enl='pick', probe=True):
    """one cavity from form_* to replace; kind in split|collapse|swap|ball|insert|insert_tet"""
    if enl == 'pick':
        if caller and kind in CALLER_ENL and rng.random() < 0.6:
            enl = rng.choice(CALLER_ENL[kind])
        else:
            enl = rng.choice([None] + ENL)
            caller = caller and kind in CALLER_ENL and enl in CALLER_ENL[kind]
    else:
        caller = caller and kind in CALLER_ENL and enl in CALLER_ENL[kind]
    return ['note caller' if caller else 'note free', form] + tail(rng, enl=enl, probe=probe)


def with_grid_dumps(ops):
    out = []
    for op in ops:
        if op.startswith(('form_', 'new')):
            out.append('grid')
        out.append(op)
    return out


def session_star(rng, tag=None):
    n = rng.choice([3, 3, 4, 4, 5, 5, 6, 6, 7, 8, 9, 10, 11, 12])
    closed = rng.random() < 0.5
    span = rng.choice([math.pi, math.pi, rng.uniform(0.55, 0.95) * math.pi, rng.uniform(1.05, 1.6) * math.pi])
    if not closed and n < 3 + (span > math.pi):
        n += 1
    verts, tets = edge_star(rng, n, closed, span, rough=rng.random() < 0.8)
    tris = star_ids(rng, verts, tets, n, closed, rng.choice(['one', 'one', 'edge', 'two', 'three', 'rand']))
    verts, tets, tris, p = scramble(rng, verts, tets, tris)
    ghosts = [rng.randrange(len(verts))] if rng.random() < 0.1 else []
    ops = grid_ops(rng, verts, tets, tris, tag=tag, ghosts=ghosts)
    n0, n1 = p[0], p[1]
    ring = [p[2 + k] for k in range(n)]
    if rng.random() < 0.5:
        n0, n1 = n1, n0
    nn = len(verts)
    kind = rng.choice(['split', 'split', 'split', 'swap', 'swap', 'collapse', 'ball', 'insert', 'insert_tet'])
    if kind == 'split':
        where = rng.choice(['mid', 'mid', 'off', 'far', 'plane', 'plane'])
        m = mid(verts, n0, n1, rng.choice([0.5, 0.3, 0.7]))
        if where == 'off':
            m = add(m, rand_vec(rng, 0.15))
        elif where == 'far':
            m = add(m, rand_vec(rng, 1.2))
        elif where == 'plane':
            caps = [t for t in tris if not (n0 in t[:3] and n1 in t[:3])]
            m = near_plane(rng, verts, rng.choice(caps))
        ops.append(node_line(m))
        if rng.random() < 0.3:
            mm, ll = metric_of(rng, rng.choice(['iso', 'aniso', 'full']), m)
            ops.append(metric_line(nn, mm, ll))
        ops += cav(rng, 'split', 'form_split %d %d %d' % (n0, n1, nn))
        # chain: collapse the new node back / ball of the new node / swap an edge of the new star
        nxt = rng.choice(['collapse_back', 'ball', 'swap', 'none'])
        if nxt == 'collapse_back':
            ops += cav(rng, 'collapse', 'form_collapse %d %d' % (rng.choice([n0, n1] + ring[:2]), nn))
        elif nxt == 'ball':
            ops += cav(rng, 'ball', 'form_ball %d' % nn)
        elif nxt == 'swap':
            ops += cav(rng, 'swap', 'form_swap %d %d %d' % (nn, rng.choice(ring), rng.choice([n0, n1] + ring)), caller=False)
    elif kind == 'swap':
        ops.append('node23 %d %d' % (n0, n1))
        ops.append('node23 %d %d' % (n1, rng.choice(ring)))
        node = rng.choice(ring + ring + [n0, rng.randrange(nn)])
        ops += cav(rng, 'swap', 'form_swap %d %d %d' % (n0, n1, node), caller=node in ring)
        if rng.random() < 0.5:
            a, b = rng.sample(ring, 2)
            ops += cav(rng, 'swap', 'form_swap %d %d %d' % (a, b, rng.choice(ring + [n0, n1])), caller=False, enl=None)
    elif kind == 'collapse':
        a, b = rng.choice([(n0, n1), (ring[0], n0), (ring[1], ring[0]), (n1, ring[-1])])
        ops += cav(rng, 'collapse', 'form_collapse %d %d' % (a, b))
    elif kind == 'ball':
        ops += cav(rng, 'ball', 'form_ball %d' % rng.choice([n0, n1] + ring))
    else:
        site = rng.choice([n0, n1] + ring)
        m = add(verts[site], rand_vec(rng, 0.25))
        if rng.random() < 0.3:
            m = near_plane(rng, verts, rng.choice(tris))
        ops.append(node_line(m))
        protect = rng.choice([-1, -1, n0, n1] + ring)
        if kind == 'insert':
            ops += cav(rng, 'insert', 'form_insert %d %d %d %d' % (nn, site, protect, rng.choice([-1, -1, 1, 2, 3])))
        else:
            ops += cav(rng, 'insert_tet', 'form_insert_tet %d %d %d' % (nn, site, protect))
    return ops


def edges_of(tets):
    es = set()
    for c in tets:
        for i in range(4):
            for j in range(i + 1, 4):
                es.add((min(c[i], c[j]), max(c[i], c[j])))
    return sorted(es)


def session_box(rng, tag=None, ncav=None):
    verts, tets, tris = box(rng, nmax=rng.choice([2, 2, 3]))
    if rng.random() < 0.5:
        verts, tets, tris, _ = scramble(rng, verts, tets, tris)
    ghosts = [rng.randrange(len(verts))] if rng.random() < 0.08 else []
    ops = grid_ops(rng, verts, tets, tris, tag=tag, ghosts=ghosts)
    nn = len(verts)
    es = edges_of(tets)
    for _ in range(ncav or rng.randint(2, 5)):
        kind = rng.choice(['split', 'split', 'collapse', 'collapse', 'swap', 'swap', 'swap12', 'ball', 'insert', 'insert_tet',
                           'add'])
        a, b = rng.choice(es)
        if rng.random() < 0.5:
            a, b = b, a
        if kind == 'split':
            m = mid(verts, a, b, rng.choice([0.5, 0.35, 0.6]))
            r = rng.choice([0.0, 0.0, 0.1, 0.3, 0.6])
            m = add(m, rand_vec(rng, r))
            ops.append(node_line(m))
            ops += cav(rng, 'split', 'form_split %d %d %d' % (a, b, nn))
            nn += 1
        elif kind == 'collapse':
            ops += cav(rng, 'collapse', 'form_collapse %d %d' % (a, b))
        elif kind == 'swap':
            t = rng.choice(tets)
            o = rng.choice(OTHERS12)
            ops.append('node23 %d %d' % (t[o[0]], t[o[1]]))
            # after earlier cavities the tet may be gone: then the third node need not be a neighbour of the edge any more
            ops += cav(rng, 'swap', 'form_swap %d %d %d' % (t[o[0]], t[o[1]], t[o[2]]), caller=False)
        elif kind == 'swap12':
            # the candidate loop of ref_cavity_swap_tet_pass on one tet: form, check_visible, ratio, change
            t = rng.choice(tets)
            for o in OTHERS12:
                ops += ['form_swap %d %d %d' % (t[o[0]], t[o[1]], t[o[2]]), 'visible', 'ratio', 'change', 'dump']
            o = rng.choice(OTHERS12)
            ops += cav(rng, 'swap', 'form_swap %d %d %d' % (t[o[0]], t[o[1]], t[o[2]]), caller=False, enl=None, probe=False)
        elif kind == 'ball':
            ops += cav(rng, 'ball', 'form_ball %d' % a)
        elif kind in ('insert', 'insert_tet'):
            m = add(verts[a], rand_vec(rng, rng.choice([0.1, 0.3])))
            ops.append(node_line(m))
            if kind == 'insert':
                ops += cav(rng, 'insert', 'form_insert %d %d %d %d' % (nn, a, rng.choice([-1, -1, b]), rng.choice([-1, -1, 1, 2, 7])))
            else:
                ops += cav(rng, 'insert_tet', 'form_insert_tet %d %d %d' % (nn, a, rng.choice([-1, -1, b])))
            nn += 1
        else:
            # a hand-made cavity: tets around an edge one by one, with and without the face id filter
            star = [i for i, x in enumerate(tets) if a in x and b in x]
            rng.shuffle(star)
            ops += ['note free', 'new', 'form %d' % rng.choice([a, b])]
            for i in star:
                if rng.random() < 0.5:
                    ops.append('add_tet %d' % i)
                else:
                    ops.append('add_tet_wo %d %d' % (i, rng.choice([1, 2, 3, 7, -1])))
                ops.append('dump')
            for i in rng.sample(range(len(tris)), min(2, len(tris))):
                ops += ['add_tri %d' % i, 'dump']
            ops += tail(rng)
    return ops


def session_surface(rng, tag=None):
    """tris only (the regime of ref_cavity_surf_geom_*_pass and of ref_layer's form_insert): the boundary surface of a box or
    of an edge star, or a planar twod square with edg cells; every cavity is a seg cavity"""
    twod = rng.random() < 0.3
    edgs = []
    if twod:
        v, t, e = meshgen.square_tris(rng.randint(2, 4), rng.randint(2, 4), rng, rng.choice([0.0, 0.2]),
                                      patches=rng.choice(['sides', 'one']))
        verts = [tuple(p) + (0.0,) for p in v]
        tris = [tuple(x[:4]) for x in t]
        edgs = [tuple(x[:3]) for x in e]
    elif rng.random() < 0.5:
        verts, tets, tris = box(rng, nmax=2)
    else:
        n = rng.randint(3, 8)
        verts, tets = edge_star(rng, n, True)
        tris = star_ids(rng, verts, tets, n, True, rng.choice(['one', 'one', 'edge', 'rand']))
    ops = grid_ops(rng, verts, [], tris, tag='twod' if twod else tag)
    for e in edgs:
        ops.append('edg %d %d %d' % e)
    nn = len(verts)
    for _ in range(rng.randint(1, 4)):
        t = rng.choice(tris)
        kind = rng.choice(['ball', 'insert', 'insert', 'tri', 'swap', 'split'])
        enl = rng.choice([None, 'enlarge_conforming', 'enlarge_conforming', 'enlarge_combined'])
        if kind == 'ball':
            ops += cav(rng, 'ball', 'form_ball %d' % t[0], caller=False, enl=enl)
        elif kind == 'insert':
            w = [rng.uniform(0.1, 1.0) for _ in range(3)]
            m = tuple(sum(w[i] * verts[t[i]][k] for i in range(3)) / sum(w) for k in range(3))
            ops.append(node_line(m))
            ops += cav(rng, 'insert', 'form_insert %d %d %d %d' % (nn, t[0], rng.choice([-1, -1, t[1]]), rng.choice([-1, t[3]])),
                       caller=False, enl=enl)
            nn += 1
        elif kind == 'tri':
            # ref_cavity_surf_geom_edge_pass: form_empty, add_tri, enlarge_conforming, normdev, replace
            ops += ['note free', 'new', 'form %d' % t[0], 'add_tri %d' % tris.index(t), 'dump', 'enlarge_conforming', 'dump',
                    'normdev', 'manifold', 'ledger', 'replace', 'dump', 'grid']
        elif kind == 'swap':
            ops += ['node23 %d %d' % (t[0], t[1])]
            ops += cav(rng, 'swap', 'form_swap %d %d %d' % (t[0], t[1], t[2]), caller=False, enl=enl)
        else:
            ops.append(node_line(mid(verts, t[0], t[1])))
            ops += cav(rng, 'split', 'form_split %d %d %d' % (t[0], t[1], nn), caller=False, enl=enl)
            nn += 1
    return ops


def session_twoface(rng, tag=None):
    """boundary edge (n0,n1) with two same-id tris; the tet (n0,n1,p,x) of the star has a SECOND boundary face (n1,p,x)
    with the same id (flat or slightly convex).  form_split, then enlarge_conforming / enlarge_combined: every unattached
    seg is non-conforming without CAD, so enlarge_seg -> add_tri -> remove_seg_add_tets reaches the tri on (n1,p,x)
    while its tet is already listed.  Variants: further tets (`wings`) behind the other lateral faces, one or two ids."""
    # wall y = 0, domain y > 0: n0 = 0, n1 = 1, p = 2, q = 3, x = 4
    bend = rng.choice([0.0, 0.0, 0.05, 0.2, -0.05])
    verts = [(0.0, 0.0, 0.0), (1.0, 0.0, 0.0), (0.5, bend, 0.9), (0.5, 0.0, -0.9), (0.5, 0.9, 0.0)]
    tets = [orient(verts, (0, 1, 2, 4)), orient(verts, (0, 1, 4, 3))]
    lateral = [((1, 2, 4), 0), ((0, 2, 4), 0), ((0, 4, 3), 1), ((1, 4, 3), 1)]
    for k, (f, ti) in enumerate(lateral):
        if rng.random() < (0.12 if k == 0 else 0.45):
            cen = tuple(sum(verts[v][c] for v in f) / 3.0 for c in range(3))
            tc = tuple(sum(verts[v][c] for v in tets[ti]) / 4.0 for c in range(3))
            out = tuple(cen[c] - tc[c] for c in range(3))
            ln = math.sqrt(sum(x * x for x in out))
            verts.append(tuple(cen[c] + rng.uniform(0.5, 0.9) * out[c] / ln for c in range(3)))
            tets.append(orient(verts, f + (len(verts) - 1,)))
    two = rng.random() < 0.4
    tris = []
    for f in boundary_faces(tets):
        wall = set(f) in ({0, 1, 2}, {0, 1, 3})
        fid = 1 if (wall or set(f) == {1, 2, 4} or not two or rng.random() < 0.5) else 2
        tris.append(f + (fid,))
    if rng.random() < 0.7:
        verts, tets, tris, p = scramble(rng, verts, tets, tris)
    else:
        p = list(range(len(verts)))
    ops = grid_ops(rng, verts, tets, tris, tag=tag, metric=rng.choice(['id', 'iso']))
    nn = len(verts)
    m = mid(verts, p[0], p[1], 0.5)
    if rng.random() < 0.4:
        m = add(m, (0.0, rng.choice([0.05, 0.2]), rng.choice([0.0, 0.1])))
    ops.append(node_line(m))
    ops += ['note caller', 'form_split %d %d %d' % (p[0], p[1], nn)]
    ops += ['dump', 'ledger', rng.choice(['enlarge_conforming', 'enlarge_combined', 'enlarge_combined']), 'dump', 'ledger',
            'manifold', 'verify', 'visible', 'dump', 'ratio', 'change', 'ledger', 'replace', 'dump', 'grid']
    return ops


def gen_stars(rng, tier):
    ops = []
    for _ in range(N(tier, 1200, 2400)):
        ops += session_star(rng)
    return with_grid_dumps(ops)


def gen_boxes(rng, tier):
    ops = []
    for _ in range(N(tier, 240, 480)):
        ops += session_box(rng)
    for _ in range(N(tier, 80, 160)):
        ops += session_twoface(rng)
    for _ in range(N(tier, 160, 320)):
        ops += session_surface(rng)
    return with_grid_dumps(ops)


# ------------------------------------------------------------------ bad share
def session_bad(rng):
    if rng.random() < 0.5:
        verts, tets, tris = box(rng, nmax=2)
    else:
        n = rng.randint(3, 7)
        verts, tets = edge_star(rng, n, rng.random() < 0.5)
        tris = star_ids(rng, verts, tets, n, True, 'rand')
    ops = grid_ops(rng, verts, tets, tris, tag='bad', ghosts=[rng.randrange(len(verts))] if rng.random() < 0.3 else [])
    nv, nt, ns = len(verts), len(tets), len(tris)
    a, b = rng.choice(edges_of(tets))
    kind = rng.choice(['state', 'dead', 'stale', 'junkface', 'junkseg', 'junk', 'surf', 'ghost', 'ids', 'twice'])
    if kind == 'state':
        ops += ['form_split %d %d %d' % (a, b, rng.randrange(nv)), 'dump', 'set_state %d' % rng.randint(0, 6)]
        ops += [rng.choice(ENL), 'dump', 'visible', 'replace', 'dump', 'set_state 1', 'enlarge_combined', 'dump', 'replace',
                'dump', 'grid']
    elif kind == 'dead':
        ops += ['form_collapse %d %d' % (a, b), 'dump', 'enlarge_visible', 'dump', 'visible', 'replace', 'dump', 'grid']
        # the cavity still lists the removed cells
        ops += ['change', 'ledger', 'normdev', 'manifold', 'set_state 0', 'enlarge_visible', 'dump', 'enlarge_conforming',
                'dump', 'replace', 'dump', 'add_tet %d' % rng.randrange(nt), 'add_tet_wo %d 1' % rng.randrange(nt),
                'add_tri %d' % rng.randrange(ns), 'dump']
    elif kind == 'stale':
        ops += ['form_ball %d' % a, 'dump', 'enlarge_visible', 'visible', 'replace', 'dump']
        ops += ['enlarge_face %d' % rng.randrange(6), 'enlarge_seg %d' % rng.randrange(6), 'visible_face %d' % rng.randrange(6),
                'ratio', 'change', 'dump', 'grid']
    elif kind == 'junkface':
        ops += ['new', 'form %d' % a]
        for _ in range(rng.randint(1, 5)):
            f = rng.sample(range(nv + (2 if rng.random() < 0.2 else 0)), 3)
            ops.append('insert_face %d %d %d' % tuple(f))
        ops += ['dump', 'enlarge_visible', 'dump', 'enlarge_face 0', 'visible_face 0', 'ratio', 'change', 'manifold', 'ledger',
                'dump']
    elif kind == 'junkseg':
        ops += ['new', 'form %d' % a]
        for _ in range(rng.randint(1, 5)):
            f = rng.sample(range(nv), 2)
            ops.append('insert_seg %d %d %d' % (f[0], f[1], rng.choice([1, 1, 2])))
        ops += ['dump', 'enlarge_conforming', 'dump', 'enlarge_seg 0', 'normdev', 'manifold', 'ledger', 'dump',
                'enlarge_combined', 'dump']
    elif kind == 'surf':
        ops += ['form_ball %d' % a, 'surf_node %d' % rng.choice([b, -1, nv + 3]), 'dump', 'enlarge_conforming', 'dump',
                'manifold', 'normdev', 'ledger', 'visible', 'replace', 'dump', 'grid']
    elif kind == 'ghost':
        ops += ['ghost %d' % a, 'form_swap %d %d %d' % (a, b, rng.randrange(nv)), 'dump', 'form_ball %d' % b, 'dump',
                'enlarge_visible', 'dump', 'form_insert %d %d -1 -1' % (rng.randrange(nv), a), 'dump',
                'form_insert_tet %d %d %d' % (b, rng.randrange(nv), a), 'dump', 'enlarge_combined', 'dump']
    elif kind == 'ids':
        ops += ['form_swap %d %d %d' % (a, a, b), 'form_split %d %d %d' % (a, a, b), 'form_ball %d' % (nv + 5),
                'form_insert %d %d 0 5000' % (a, b), 'add_tet_wo 0 -2000', 'enlarge_face 300000', 'visible_face -1',
                'node23 %d %d' % (a, a), 'node23 %d %d' % (a, nv + 7), 'metric %d 0 0' % a, 'limits 0 1', 'run v',
                'form_insert_tet %d %d -2' % (a, b), 'metric %d %s' % (nv + 9, ' '.join([hx(1.0)] * 12))]
    elif kind == 'twice':
        i = rng.randrange(nt)
        ops += ['new', 'form %d' % a, 'add_tet_wo %d 1' % i, 'add_tet_wo %d 2' % i, 'add_tet %d' % i, 'dump',
                'add_tet_wo %d 1' % (nt + 3), 'add_tet_wo -1 1', 'enlarge_visible', 'dump']
    else:
        for _ in range(14):
            ops.append(rng.choice(['enlarge_visible', 'enlarge_conforming now', 'ratio', 'change', 'normdev', 'ledger', 'manifold',
                                   'visible_face x', 'enlarge_seg', 'form_swap 1 2', 'form_ball', 'frobnicate', 'node23 0',
                                   'add_tet_wo 0', 'metric 0', 'dump', 'grid', 'replace', 'form_insert 0 1 2',
                                   'node zz 0 0', 'set_state 9', 'limits zz zz', 'form -7']))
    return ops


def gen_bad(rng, tier):
    ops = []
    for _ in range(N(tier, 250, 500)):
        ops += session_bad(rng)
    return ops


# ------------------------------------------------------------------ oracle (function level)
ST_OPS = ('form', 'form_split', 'form_collapse', 'form_swap', 'form_ball', 'form_insert', 'form_insert_tet', 'add_tet',
          'add_tri', 'add_tet_wo', 'insert_face', 'insert_seg', 'enlarge_face', 'enlarge_seg', 'enlarge_visible',
          'enlarge_conforming', 'enlarge_combined', 'visible', 'replace')
STATUS = ('ok', 'failure', 'null', 'invalid', 'div_zero', 'not_found', 'implement', 'increase_limit', 'ill_conditioned')


def conforming(tets, tris):
    return all((c == [2, 0] or c == [1, 1]) for c in unsigned_cover(tets, tris).values()) and \
        not signed_boundary(tets, tris)


def oracle_fn(ops, impl):
    bad = []
    verts, before = {}, None
    state = 0          # cavity state as last printed
    vol_checked = False   # the cavity reached VISIBLE through a volume test of the faces it has now
    bad_session = False
    caller = False        # `note caller`: a sequence the library itself runs
    cert = False          # the last `ledger` said certOk and nothing touched the cavity since
    fresh = False         # the cavity was formed on the present grid and not replaced yet
    mani = False          # ref_cavity_manifold said yes (no new cell repeats a cell that stays) and nothing changed since
    for i, (op, line) in enumerate(zip(ops, impl)):
        w = op.split()
        lw = line.split()
        if not w:
            continue
        k = w[0]
        if k == 'reset':
            verts, before, state, vol_checked, caller, cert, fresh, mani = {}, None, 0, False, False, False, False, False
            bad_session = len(w) > 1 and w[1] == 'bad'
            continue
        if k == 'note':
            caller = len(w) > 1 and w[1] == 'caller'
            continue
        if k.startswith('form_') and line == 'bad-op':
            caller = False       # an end of the edge is gone: what follows runs on the previous cavity
        if k == 'ledger':
            cert = lw[:3] == ['ok', '1', '1']
            continue
        if k == 'manifold':
            mani = lw == ['ok', '1']
            continue
        if k in ('new', 'set_state', 'surf_node', 'form') or (k in ST_OPS and k not in ('visible', 'replace')):
            cert = False
            mani = False
        if (k.startswith('form') or k == 'new') and line != 'bad-op':
            fresh = True
        elif (k.startswith('form_') and line == 'bad-op') or (k == 'replace' and line.startswith('ok ')):
            fresh = False      # what follows runs on a cavity that was already replaced
        if line == 'hang' and not bad_session and fresh:
            bad.append((i, 'ref_cavity_%s never returns (keep_growing set by a sweep that changes nothing)' % k))
        if k == 'node' and line.startswith('ok '):
            try:
                verts[int(lw[1])] = (unhx(w[1]), unhx(w[2]), unhx(w[3]))
            except Exception:
                pass
        elif k == 'new' and line == 'ok':
            state, vol_checked = 0, False
        elif k == 'set_state' and line == 'ok':
            state, vol_checked = int(w[1]), False
        elif k == 'surf_node':
            vol_checked = False
        elif k == 'grid' and '|' in line:
            tets, tris, edgs = parse_grid(line)
            if before is not None and before[2]:
                bt, bs = before[0], before[1]
                if conforming(bt, bs) and before[4]:
                    # the certificate alone gives the signed statement; the unsigned cover also needs the volume test
                    # (and, outside the library's own sequences, ref_cavity_manifold: the swap pass has ref_swap_manifold)
                    cover = unsigned_cover(tets, tris) if (before[5] or (before[3] and before[6])) else {}
                    wrong = [f for f, c in cover.items() if not (c == [2, 0] or c == [1, 1])]
                    if wrong:
                        bad.append((i, 'after replace face %s is in %d tets and %d tris' %
                                    (wrong[0], cover[wrong[0]][0], cover[wrong[0]][1])))
                    if signed_boundary(tets, tris):
                        bad.append((i, 'after replace the signed boundary chain (tets minus tris) is not zero'))
                    old_ids = set(t[3] for t in bs if t not in set(tris))
                    new_ids = set(t[3] for t in tris if t not in set(bs))
                    if not new_ids <= old_ids:
                        bad.append((i, 'replace created tris with face ids %s, removed ids %s' %
                                    (sorted(new_ids), sorted(old_ids))))
                    try:
                        if sorted(bs) == sorted(tris):
                            sa, sb = set(bt), set(tets)
                            v0 = sum(fvol(verts, *t[:4]) for t in bt if t not in sb)
                            v1 = sum(fvol(verts, *t[:4]) for t in tets if t not in sa)
                            if v0 != v1:
                                bad.append((i, 'replace changed the total volume by %s' % float(v1 - v0)))
                        old = set(bt)
                        for t in tets:
                            if t not in old:
                                v = fvol(verts, *t[:4])
                                if before[3] and v <= Fraction(1e-15) / 2:
                                    bad.append((i, 'volume-tested cavity produced tet %s with volume %s' % (t, float(v))))
                                    break
                    except KeyError:
                        pass
            before = [tets, tris, False, False, False, False, False]
        if k in ST_OPS and len(lw) == 2 and lw[0] in STATUS and lw[1].isdigit():
            new_state = int(lw[1])
            if k == 'replace':
                if before is not None:
                    before[2] = lw[0] == 'ok'
                    before[3] = vol_checked
                    before[4] = caller or cert
                    before[5] = caller
                    before[6] = mani
                    if caller and lw[0] == 'ok' and ops[i - 1] == 'ledger' and not cert:
                        bad.append((i, 'library sequence accepted by ref_cavity_replace without the certificate '
                                       '(listed cells live, faces non-degenerate, ledger balanced): %s' % impl[i - 1]))
            elif k in ('visible', 'enlarge_visible'):
                if state == 0:
                    vol_checked = lw[0] == 'ok' and new_state == 1
            elif k == 'enlarge_combined':
                vol_checked = lw[0] == 'ok' and new_state == 1 and state in (0, 1)
            else:
                vol_checked = False
            state = new_state
    return bad[:20]


def nontrivial(op, out):
    return not (out.startswith('bad-op') or out == 'ok')


STARS = Stream('cavity2_stars', 'h_cavity2', 'cavity2', gen_stars, oracle=oracle_fn, whitebox=['ref_cavity'],
               nontrivial=nontrivial, timeout=900)
BOXES = Stream('cavity2_boxes', 'h_cavity2', 'cavity2', gen_boxes, oracle=oracle_fn, whitebox=['ref_cavity'],
               nontrivial=nontrivial, timeout=900)
BAD = Stream('cavity2_bad', 'h_cavity2', 'cavity2', gen_bad, oracle=oracle_fn, whitebox=['ref_cavity'],
             nontrivial=nontrivial, timeout=900)



# ------------------------------------------------------------------ run level
def rot_metric(rng, hs):
    """R diag(1/h^2) R^T for a random rotation R"""
    a, b, c = (rng.uniform(0, math.pi) for _ in range(3))
    ca, sa, cb, sb, cc, sc = math.cos(a), math.sin(a), math.cos(b), math.sin(b), math.cos(c), math.sin(c)
    r = [[cb * cc, sa * sb * cc - ca * sc, ca * sb * cc + sa * sc],
         [cb * sc, sa * sb * sc + ca * cc, ca * sb * sc - sa * cc],
         [-sb, sa * cb, ca * cb]]
    d = [1.0 / h ** 2 for h in hs]
    m = [[sum(r[i][k] * d[k] * r[j][k] for k in range(3)) for j in range(3)] for i in range(3)]
    return [m[0][0], m[0][1], m[0][2], m[1][1], m[1][2], m[2][2]]


def run_session(rng, passes, size=None):
    n = size or [rng.randint(1, 3) for _ in range(3)]
    v, t, s = meshgen.box_tets(n[0], n[1], n[2], rng, rng.choice([0.0, 0.3, 0.7]),
                               patches=rng.choice(['sides', 'sides', 'one', 'split']))
    verts = [tuple(p) for p in v]
    tets = [tuple(x[:4]) for x in t]
    tris = [tuple(x[:4]) for x in s]
    if rng.random() < 0.5:
        verts, tets, tris, _ = scramble(rng, verts, tets, tris)
    ops = ['reset']
    for p in verts:
        ops.append(node_line(p))
    kind = rng.choice(['iso', 'aniso', 'rot', 'rot', 'rotvar', 'rotvar'])
    h = rng.choice([0.7, 1.5, 3.0]) / max(n)
    an = rng.choice([1.0, 3.0, 3.0, 8.0])
    hs = [h, h * an, h * math.sqrt(an)]
    m_rot = rot_metric(rng, hs)
    for i, p in enumerate(verts):
        if kind == 'iso':
            m = [1.0 / h ** 2, 0.0, 0.0, 1.0 / h ** 2, 0.0, 1.0 / h ** 2]
        elif kind == 'aniso':
            m = [1.0 / hs[0] ** 2, 0.0, 0.0, 1.0 / hs[1] ** 2, 0.0, 1.0 / hs[2] ** 2]
        elif kind == 'rot':
            m = m_rot
        else:
            m = rot_metric(rng, [x * rng.uniform(0.8, 1.25) for x in hs])
        ops.append('metric %d %s' % (i, ' '.join(hx(x) for x in m)))
    for c in tets:
        ops.append('tet %d %d %d %d' % c)
    for c in tris:
        ops.append('tri %d %d %d %d' % c)
    ops.append('run ' + passes)
    return ops


def gen_run(rng, tier):
    ops = []
    for _ in range(N(tier, 40, 80)):
        ops += run_session(rng, rng.choice(['v', 'vv', 'v', 'vcv', 'svv']))
    for _ in range(N(tier, 40, 80)):
        ops += run_session(rng, rng.choice(['c', 'cc', 'cvc', 'sc', 'vsc']))
    for _ in range(N(tier, 24, 48)):
        ops += run_session(rng, rng.choice(['a', 'aa', 'ava', 'ac']), size=[rng.randint(1, 2) for _ in range(3)])
    ops += ['run x', 'run', 'frobnicate']
    return ops


def parse_run_rec(line):
    sec = line.split(' | ')
    hw = sec[0].split()
    r = {'phase': hw[1]}
    for w in hw[2:]:
        k, v = w.split('=')
        r[k] = v
    tab = {}
    for s in sec[1:]:
        ws = s.split()
        tab[ws[0]] = ws[1:]
    r['C'] = [int(x) for x in tab.get('C', [])]
    r['T'] = sorted(tuple(int(x) for x in w.split(':')[1:]) for w in tab.get('T', []))
    r['R'] = sorted(tuple(int(x) for x in w.split(':')[1:]) for w in tab.get('R', []))
    r['F'] = [tuple(int(x) for x in w.split(',')) for w in tab.get('F', [])]
    r['S'] = [tuple(int(x) for x in w.split(',')) for w in tab.get('S', [])]
    r['xyz'] = {}
    for w in tab.get('N', []):
        f = w.split(':')
        r['xyz'][int(f[0])] = tuple(unhx(x) for x in f[2:5])
    return r


def local_cover(centres, tets, tris):
    """what can be decided from the dumped stars: the stars of the centre nodes are complete, so for every face with at
    least one centre node ALL tets and tris on it are in the dump: it must be in two tets and no tri, or in one tet and
    one tri; every dumped tri with a centre node must lie on exactly one tet"""
    cs = set(centres)
    out = []
    cover = unsigned_cover(tets, tris)
    for f, c in sorted(cover.items()):
        if not (set(f) & cs):
            continue
        if not (c == [2, 0] or c == [1, 1]):
            out.append('face %s is in %d tets and %d tris' % (f, c[0], c[1]))
    return out


def oracle_run(ops, impl):
    out = []
    begin = None
    chain = None      # expected hash of the next begin inside ref_cavity_pass (None: not inside a cavity pass)
    for i, line in enumerate(impl):
        w = line.split()
        if not w:
            continue
        if w[0] == 'pass':
            if w[1] == 'begin':
                chain = w[2]
            else:
                if chain is not None and w[2] != chain:
                    out.append((0, 'line %d: grid hash at the end of ref_cavity_pass differs from the hash after the last '
                                   'accepted replacement: a trial cavity left a trace' % i))
                if len(w) > 3 and w[3] != 'ok':
                    out.append((0, 'line %d: ref_cavity_pass returned %s' % (i, w[3])))
                chain = None
        elif w[0] == 'hash' or w[0] == 'rec':
            ph = w[1]
            h = w[2] if w[0] == 'hash' else [x for x in w if x.startswith('hash=')][0][5:]
            if chain is not None:
                if ph == 'begin' and h != chain:
                    out.append((0, 'line %d: grid hash at cavity_replace begin differs from the hash after the previous '
                                   'accept / at pass start: a rejected trial cavity left a trace' % i))
                if ph == 'accept':
                    chain = h
            if w[0] == 'rec':
                r = parse_run_rec(line)
                if ph == 'begin':
                    begin = r
                elif ph == 'accept':
                    where = 'line %d (accept node=%s)' % (i, r.get('node'))
                    for m in local_cover(r['C'], r['T'], r['R'])[:3]:
                        out.append((0, where + ': ' + m))
                    if begin is None or begin.get('node') != r.get('node'):
                        out.append((0, where + ': no begin record'))
                    else:
                        old = set(begin['T'])
                        for t in r['T']:
                            if t not in old:
                                try:
                                    v = fvol(r['xyz'], *t[:4])
                                except KeyError:
                                    out.append((0, where + ': tet %s uses a vertex that is not valid' % (t,)))
                                    break
                                if v <= Fraction(1e-15) / 2:
                                    out.append((0, where + ': new tet %s has volume %s' % (t, float(v))))
                                    break
                        new_ids = set(t[3] for t in r['R'] if t not in set(begin['R']))
                        old_ids = set(t[3] for t in begin['R'] if t not in set(r['R']))
                        if not new_ids <= old_ids:
                            out.append((0, where + ': new tris carry face ids %s, removed tris had %s' %
                                        (sorted(new_ids), sorted(old_ids))))
                    begin = None
        elif w[0] == 'free':
            if w[1:] == ['replaced=0', 'same=0']:
                out.append((0, 'line %d: a cavity created and freed without a replacement changed the grid hash' % i))
        elif w[0] == 'done':
            if w[1] != 'ok':
                out.append((0, 'line %d: a pass returned %s' % (i, w[1])))
    return out[:20]


RUN = Stream('cavity2_run', 'h_cavity2', 'cavity2', gen_run, oracle=oracle_run, kind='validate', whitebox=['ref_cavity'],
             harness_args=('run',), driver_args=('replay',), session='reset',
             nontrivial=lambda op, out: out.startswith('rec') or out.startswith('free'), timeout=900)

STREAMS = [STARS, BOXES, BAD, RUN]
