"""stand-alone spec for the `interppack` work package (development / mutation self-test only: the streams and the
props module are registered in checks/c05.py)"""
from . import streams_interppack

ID = 'C05'
PROPS_MODULE = ['Refine.Props.C05Pack']
STREAMS = list(streams_interppack.STREAMS)
EXPLANATION = 'interppack part of C05: see checks/c05.py'
ASSUMPTIONS = ['see checks/c05.py']
