from . import streams_codec, streams_sol, cli
from . import streams_formats

ID = 'C09'
PROPS_MODULE = ['Refine.Props.C09', 'Refine.Props.C09Sol', 'Refine.Props.C09Formats']
STREAMS = [streams_codec.SOLB_WRITE, streams_codec.SOLB_READ] + streams_sol.STREAMS + [cli.FIELDRT, cli.FIELDRT_MPI] + \
    [streams_formats.C20_FIELDS, streams_formats.FIELDS_SER, streams_formats.FIELDS_RST_MPI, streams_formats.FIELDS_SNAP_MPI]
EXPLANATION = (
    'Proved in Lean (Refine/Props/C09.lean): decodeSolb n (encodeSolb v s) = ok (ldim, rows) for every ldim '
    '(versions 2,3,4; 2-D and 3-D; also with the C20 count check), decodeMetricSolb (encodeMetricSolb v twod ms) = '
    'ok ms, the memory<->file slot permutation (translated from ref_gather_node_metric_solb / '
    'ref_part_metric_solb) is an involution and is libMeshb\'s (xx,xy,yy,xz,yz,zz) order.  Tie: bytes of '
    'ref_gather_scalar_by_extension / ref_gather_metric == encodeSolb / encodeMetricSolb (stream solb_write, '
    'ldim 0..20, permuted global ids), arrays returned by ref_part_scalar / ref_part_metric == decodeSolb / '
    'decodeMetricSolb on files from an independent libMeshb writer incl. vector types and the legacy '
    'twice-the-vertices case (solb_read).  Oracle: checks/meshio_ref.py parses what the C wrote and predicts what '
    'the C must read; values are position-tagged bit patterns.  END-TO-END (cli_metric_roundtrip[_mpi]; no model '
    'side): `ref adapt -s 0 --export-metric-as` at np = 0,2,3,5 (chunk limits 64..1000, every rank active) on 2-D and '
    '3-D meshes with a metric file from the independent writer whose six components are all distinct and position '
    'dependent: entry j of the output field must be bit-identical to the input tensor of the vertex that became '
    'output vertex j (multi-rank read ref_part_metric -> ghost/bcast -> ref_gather_metric).  '
    'TEXT FORMATS AND MULTI-RANK CHUNK LOOPS (Refine/Props/C09Sol.lean, Model/Sol.lean, streams sol_*): the slot order of '
    'every metric branch (ascii .sol 3-D / 2-D, plain six columns, .solb 3-D / 2-D, bamg, the three writers) is '
    'regenerated from the C into Gen/SolOrder.lean and proved to be libMeshb\'s xx xy yy xz yz zz resp. xx xy yy resp. the '
    'natural order, reader = writer for every pair refine has, row-level read(independent write t) = t for all values; '
    'chunked_read_eq_whole: the while(nnode_read < nnode) loop (rank 0 reads a section, ref_mpi_bcast, every rank stores) '
    'equals ONE pass over the rows for every chunk >= 1 and every world of ranks; field_index_is_vertex_index: the local '
    'node of global g ends with entry g and nothing else.  Tie (h_sol.c <-> refdrv sol, np = 1 serial with ASan and np = 2, 3 '
    'under mpiexec): the real ref_part_metric / ref_part_scalar / ref_part_bamg_metric on token-level files from independent '
    'ASCII writers and pyio .solb bytes, with the reader chunk floor 100000 replaced through a MAX shim so that node counts '
    'that are not multiples of the chunk take several passes; the real ref_gather_metric / ref_gather_scalar_by_extension '
    '(.metric, .met, .solb, .sol, .txt, .bin, .rst) with reduce_byte_limit chunks of 1..3 rows; oracles: tensor recovered = '
    'tensor stored by component NAME, entry g <-> vertex g on every rank.  '
    '.RST AND .SNAP READERS (work package formats; Model/FormatsBin.lean partScalarRst / partScalarSnap built on the same chunk '
    'loop Sol.scatterFile, Props/C09Formats.lean): rst_layout_two_ranks (a concrete 3-vertex, 2-variable, 2-step file on two ranks with ghost copies and chunk floor 2: vertex g of every rank ends with [step0 var0, step0 var1, step1 var0, step1 var1] of file vertex g); a general .rst / .snap layout theorem is NOT proved (the byte-level RowStream lemma and the per-pass theorem exist only as scratch work), the general claim rests on the tie.  Tie: formats_fields (h_sol, one rank with ASan) and '
    'formats_rst_mpi (np = 2, 3 under mpiexec): the real ref_part_scalar on .rst (1..3 variables x 1..3 steps, dof >= vertices) '
    'and .snap (versions 2 and 3, 1..4 fields, vertex count n / 2n / 2n+1) files from independent writers, chunk floors from 1 '
    'up so that several passes occur; per-rank values == model, oracle: == what an independent parser reads for that vertex.  '
    'c20_fields_mut: the same for every header mutant the model accepts (serial).  KNOWN FINDING snap-nnode-bcast-as-int '
    '(stream formats_snap_mpi, np = 2): the .snap reader broadcasts its 8-byte vertex count as a 4-byte integer and does not '
    'survive a second rank (MPI_ERR_TRUNCATE); theorem snap_bcast_counterexample (Props/C20Formats.lean).')
ASSUMPTIONS = [
    'Model/Solb.lean (streams solb_*) covers one rank; the multi-rank sum/broadcast paths of the same functions are '
    'modelled in Model/Sol.lean as World functions (Comm.bcast / Comm.sum) and tied at np = 2, 3 by the sol_*_mpi streams',
    'text files are token lists: a number is the 64-bit pattern strtod returns (harness prints %.17g); values written '
    'by the text writers are chosen exactly representable with < 16 significant digits so %.15e is exact: decimal '
    'printing/parsing itself is not modelled; %d applied to a token with a fraction, line[1024] overflow, .csv, .plt, '
    '.restart_sol are not modelled; the .rst and .snap readers are (package formats, byte level); .plt: header / zone '
    'validation only (the values are placed by a nearest-vertex search)',
    'the reader chunk floor (100000 in the C, Gen/SolOrder.readChunkFloor) is an op parameter of the tie (MAX macro shim in '
    'the white-box include of ref_part.c, no source change); the model takes it as a parameter and '
    'reader_chunk_pos is proved for the production value',
    'a read error on rank 0 of a multi-rank run leaves the other ranks in ref_mpi_bcast (the C deadlocks): malformed '
    'files are generated for np = 1 only, the model returns rank 0\'s status',
    'chunked_read_eq_whole is proved for any sequential row reader (RowStream); that rdMany over the token/byte stream '
    'of an independent writer is such a reader is shown on concrete files (examples, decide) and by the tie, not in general',
    'field_index_is_vertex_index assumes ref_node_local is injective on the rank (the node-id invariant of C14/C06)',
    'ref_node_metric_set also stores log(m); its status on non-SPD input belongs to the matrix kernel (C16): the '
    'metric streams use SPD tensors and the model takes ref_node_metric_set to succeed',
    'entry g of a field file belongs to the vertex with global id g: the harness builds grids with a permutation '
    'of dense global ids and ref_node_synchronize_globals is then the identity; renumbering of sparse ids is C06/C07',
    'IEEE values are carried as 64-bit patterns; the serial writer copies them (ref_mpi_sum on one rank is a copy)',
]
TRUSTED = ['tools/translate_more_codec.py (metric slot order)', 'tools/translate_more_sol.py (slot order of every branch, reader chunk floor)', 'checks/meshio_ref.py as the independent layout']
