from . import streams_codec, streams_sol, cli

ID = 'C09'
PROPS_MODULE = ['Refine.Props.C09', 'Refine.Props.C09Sol']
STREAMS = [streams_codec.SOLB_WRITE, streams_codec.SOLB_READ] + streams_sol.STREAMS + [cli.FIELDRT, cli.FIELDRT_MPI]
EXPLANATION = (
    'Proved in Lean (Refine/Props/C09.lean): decodeSolb n (encodeSolb v s) = ok (ldim, rows) for every ldim '
    '(versions 2,3,4; 2-D and 3-D; also with the C20 count check), decodeMetricSolb (encodeMetricSolb v twod ms) = '
    'ok ms, the memory<->file slot permutation (translated from ref_gather_node_metric_solb / '
    'ref_part_metric_solb) is an involution and is libMeshb\'s (xx,xy,yy,xz,yz,zz) order.  Tie: bytes of '
    'ref_gather_scalar_by_extension / ref_gather_metric == encodeSolb / encodeMetricSolb (stream solb_write, '
    'ldim 0..20, permuted global ids), arrays returned by ref_part_scalar / ref_part_metric == decodeSolb / '
    'decodeMetricSolb on files from an independent libMeshb writer incl. vector types and the legacy '
    'twice-the-vertices case (solb_read).  Oracle: checks/meshio_ref.py parses what the C wrote and predicts what '
    'the C must read; values are position-tagged bit patterns.  END-TO-END (cli_metric_roundtrip[_mpi]; no model '
    'side): `ref adapt -s 0 --export-metric-as` at np = 0,2,3,5 (chunk limits 64..1000, every rank active) on 2-D and '
    '3-D meshes with a metric file from the independent writer whose six components are all distinct and position '
    'dependent: entry j of the output field must be bit-identical to the input tensor of the vertex that became '
    'output vertex j (multi-rank read ref_part_metric -> ghost/bcast -> ref_gather_metric).')
ASSUMPTIONS = [
    'the Lean model covers one rank (ref_mpi_create stub): chunk loops run once; the multi-rank sum/broadcast path '
    'is covered by the end-to-end cli_metric_roundtrip_mpi stream only (oracle, no model side)',
    'ref_node_metric_set also stores log(m); its status on non-SPD input belongs to the matrix kernel (C16): the '
    'metric streams use SPD tensors and the model takes ref_node_metric_set to succeed',
    'entry g of a field file belongs to the vertex with global id g: the harness builds grids with a permutation '
    'of dense global ids and ref_node_synchronize_globals is then the identity; renumbering of sparse ids is C06/C07',
    'IEEE values are carried as 64-bit patterns; the serial writer copies them (ref_mpi_sum on one rank is a copy)',
]
TRUSTED = ['tools/translate_more_codec.py (metric slot order)', 'checks/meshio_ref.py as the independent layout']
