"""streams `dist2_*` (C06, second part): the real ref_migrate_shufflin on hand-built distributed grids, under mpiexec.

dist2_shufflin (diff)  one op line = the per-rank vertex tables (global, NEW part, 15 reals + aux) and cell lists of all
                       ranks [+ further part arrays]; harness/h_dist2.c builds the REF_GRIDs with ref_node_add /
                       ref_cell_add and runs ref_migrate_shufflin (once per round); `refdrv dist2` computes the same line
                       with Refine.Model.Shufflin.shufflin.  Worlds: layouts of a global mesh (box tets + boundary tris,
                       square tris + boundary edges, prism slab with tris and quads, random cell soups with cells
                       spanning up to 4 ranks) under an old partition, migrating to random / blocked / single-rank /
                       rank-emptying / unchanged partitions, back and forth over several rounds; plus a malformed share
                       (stale ghost payloads, misplaced / missing / duplicated cells, unreferenced ghosts) for which only
                       the correspondence is checked.
dist2_idhist   (diff)  histories of ref_node id operations (next_global+add, remove, remove_without_global, rejected
                       trial vertex) on every rank between ref_node_synchronize_globals calls, through the real ref_node
                       functions and through Refine.Model.DistIds.run.
The oracles state the C06 sentence directly on the implementation's lines.
"""
import struct

from .common import Stream
from . import meshgen
from .streams_dist import state_invariants, id_invariant, check_bijection, parse_post

NP_QUICK = [1, 2, 3, 4, 5, 8]
NP_MORE = [6, 7]
NREAL = 15
GROUP = {'edg': 0, 'tri': 3, 'qua': 6, 'tet': 8, 'pyr': 9, 'pri': 10, 'hex': 11}
HAS_ID = {0: True, 1: True, 2: True, 3: True, 4: True, 5: True, 6: True, 7: True}
NODE_PER = {0: 2, 3: 3, 6: 4, 8: 4, 9: 5, 10: 6, 11: 8}


def dhex(x):
    return struct.pack('>d', float(x)).hex()


# ---------------------------------------------------------------------------------------------------------
# global meshes: (nvert, cells) with cells = list of (group, id, (verts...)); payload is a function of the global id
# ---------------------------------------------------------------------------------------------------------
def renumber(nv, cells, rng):
    """random renumbering of the vertices (so that the smallest global of a cell is anywhere)"""
    perm = list(range(nv))
    rng.shuffle(perm)
    return nv, [(g, i, tuple(perm[v] for v in vs)) for g, i, vs in cells]


def mesh_box(rng):
    n = rng.choice([(1, 1, 1), (2, 1, 1), (2, 2, 1), (2, 2, 2)])
    v, t, s = meshgen.box_tets(n[0], n[1], n[2], rng, 0.0, (1.0, 1.0, 1.0), rng.choice(['sides', 'one']))
    cells = [(8, 0, tuple(c[:4])) for c in t] + [(3, c[3], tuple(c[:3])) for c in s]
    return renumber(len(v), cells, rng)


def mesh_square(rng):
    n = rng.choice([(1, 1), (2, 2), (3, 2), (3, 3)])
    v, t, e = meshgen.square_tris(n[0], n[1], rng, 0.0, (1.0, 1.0), 'sides')
    cells = [(3, c[3], tuple(c[:3])) for c in t] + [(0, c[2], tuple(c[:2])) for c in e]
    return renumber(len(v), cells, rng)


def mesh_prism(rng):
    v, d = meshgen.prism_slab(rng.choice([1, 2]), rng.choice([1, 2]), rng.choice([1, 2]), rng)
    cells = [(10, 0, tuple(c[:6])) for c in d['pri']] + [(3, c[3], tuple(c[:3])) for c in d['tri']] + \
            [(6, c[4], tuple(c[:4])) for c in d['qua']]
    return renumber(len(v), cells, rng)


def mesh_soup(rng):
    """random cells over few vertices: cells share vertices heavily and span many ranks; distinct vertex sets per group"""
    nv = rng.randint(4, 14)
    cells, seen = [], set()
    for _ in range(rng.randint(1, 14)):
        g = rng.choice([0, 3, 3, 8, 8, 8, 6, 9, 10, 11])
        k = NODE_PER[g]
        if k > nv:
            continue
        vs = tuple(rng.sample(range(nv), k))
        key = (g, frozenset(vs))
        if key in seen:
            continue
        seen.add(key)
        cells.append((g, rng.randint(1, 9) if g in HAS_ID else 0, vs))
    used = sorted({v for c in cells for v in c[2]})
    # isolated vertices are legal (owned, in no cell) but keep most used
    return nv, cells


def payload_of(g, naux, salt=0.0):
    vals = [0.25 * g + 1.0 + salt, 0.5 * g - 3.0, 7.0 + g,            # xyz
            1.0 + g, 0.125 * g, 0.0, 2.0 + g, 0.0625 * g, 3.0 + g,    # m
            0.001 * g, 0.002 * g, 0.003 * g, 0.004 * g, 0.005 * g, 0.006 * g]  # log m
    vals += [100.0 + g + 0.5 * k for k in range(naux)]
    return [dhex(x) for x in vals]


# ---------------------------------------------------------------------------------------------------------
# partitions and layouts
# ---------------------------------------------------------------------------------------------------------
def gen_part(rng, nv, np, kind=None):
    kind = kind or rng.choice(['random', 'random', 'random', 'blocks', 'one', 'few', 'cyclic'])
    if kind == 'one':
        r = rng.randrange(np)
        return [r] * nv
    if kind == 'few':   # some ranks end up empty
        live = rng.sample(range(np), max(1, np // 2))
        return [rng.choice(live) for _ in range(nv)]
    if kind == 'blocks':
        return [min(np - 1, g * np // max(nv, 1)) for g in range(nv)]
    if kind == 'cyclic':
        o = rng.randrange(np)
        return [(g + o) % np for g in range(nv)]
    return [rng.randrange(np) for _ in range(nv)]


def layout(nv, cells, part, np):
    """the state determined by the global mesh and the partition: per rank (sorted vertex list, cell list)"""
    ranks = []
    for r in range(np):
        cs = [c for c in cells if any(part[v] == r for v in c[2])]
        vs = {g for g in range(nv) if part[g] == r} | {v for c in cs for v in c[2]}
        ranks.append((sorted(vs), cs))
    return ranks


def fmt_line(np, nv, naux, ranks, rounds):
    """ranks: per rank (nodes=[(g, part, payload)], cells=[(grp, id, verts)])"""
    toks = ['shufflin', str(np), str(nv), str(naux), str(1 + len(rounds))]
    for nodes, cs in ranks:
        toks.append('|')
        toks += ['%d,%d,%s' % (g, p, ','.join(pl)) for g, p, pl in nodes]
        toks.append('C')
        toks += ['%d,%d,%s' % (g, i, ','.join(map(str, vs))) for g, i, vs in cs]
    for arr in rounds:
        toks.append('|')
        toks += [str(p) for p in arr]
    return ' '.join(toks)


def world_of(rng, np, nv, cells, naux, old, new, shuffle=True):
    ranks = []
    for r, (vs, cs) in enumerate(layout(nv, cells, old, np)):
        nodes = [(g, new[g], payload_of(g, naux)) for g in vs]
        cs = list(cs)
        if shuffle:
            rng.shuffle(nodes)
            rng.shuffle(cs)
        ranks.append((nodes, cs))
    return ranks


def gen_consistent(rng, np, tier):
    nv, cells = rng.choice([mesh_box, mesh_box, mesh_square, mesh_square, mesh_prism, mesh_soup, mesh_soup])(rng)
    naux = rng.choice([0, 0, 0, 1, 2])
    old = gen_part(rng, nv, np)
    nround = rng.choice([1, 1, 2, 3]) if tier == 'quick' else rng.choice([1, 2, 3, 5])
    parts = [gen_part(rng, nv, np) for _ in range(nround)]
    k = rng.random()
    if k < 0.1:
        parts[0] = list(old)                      # nothing moves
    elif k < 0.2 and nround >= 2:
        parts[1] = list(old)                      # there and back again
    elif k < 0.3 and nround >= 3:
        parts[2] = list(parts[0])
    ranks = world_of(rng, np, nv, cells, naux, old, parts[0])
    return fmt_line(np, nv, naux, ranks, parts[1:])


def gen_malformed(rng, np):
    """worlds outside the hypotheses of shufflin_spec that the harness still accepts (parts consistent, cell vertices
    stored): only model = implementation is checked"""
    nv, cells = rng.choice([mesh_box, mesh_square, mesh_soup])(rng)
    naux = rng.choice([0, 1])
    old = gen_part(rng, nv, np)
    new = gen_part(rng, nv, np)
    ranks = world_of(rng, np, nv, cells, naux, old, new)
    ranks = [(list(n), list(c)) for n, c in ranks]
    for _ in range(rng.randint(1, 3)):
        kind = rng.choice(['stale', 'dropcell', 'extracell', 'dupid', 'rotated', 'lonely', 'dupcell'])
        r = rng.randrange(np)
        nodes, cs = ranks[r]
        have = {g for g, _, _ in nodes}
        if kind == 'stale' and nodes:        # a copy with different values (ghost not refreshed / owner clobbered)
            i = rng.randrange(len(nodes))
            g, p, _ = nodes[i]
            nodes[i] = (g, p, payload_of(g, naux, salt=1000.0 + r))
        elif kind == 'dropcell' and cs:
            cs.pop(rng.randrange(len(cs)))
        elif kind in ('extracell', 'dupid', 'rotated') and cells:
            g, i, vs = rng.choice(cells)
            if kind == 'dupid':
                i = i + 17 if g in HAS_ID else 0
            if kind == 'rotated':
                vs = vs[1:] + vs[:1]
            for v in vs:
                if v not in have:
                    nodes.append((v, new[v], payload_of(v, naux)))
                    have.add(v)
            cs.append((g, i, vs))
        elif kind == 'lonely':                # a stored vertex no cell needs
            g = rng.randrange(nv)
            if g not in have:
                nodes.append((g, new[g], payload_of(g, naux)))
        elif kind == 'dupcell' and cs:
            cs.append(rng.choice(cs))
    return fmt_line(np, nv, naux, ranks, [])


def gen_lonely(rng, np):
    """copies of a vertex that NO cell references disagree on its part (the only inconsistency the harness accepts: such
    a vertex never becomes a ghost, nobody waits for its owner): rank s says part q, rank q says part p.  The payload
    loop of ref_migrate_shufflin_node must set part = rank on the copy q already stores."""
    nv, cells = rng.choice([mesh_box, mesh_square, mesh_soup])(rng)
    naux = rng.choice([0, 1])
    old = gen_part(rng, nv, np)
    new = gen_part(rng, nv, np)
    ranks = [(list(n), list(c)) for n, c in world_of(rng, np, nv, cells, naux, old, new)]
    g = nv            # a fresh isolated vertex
    nv += 1
    q = rng.randrange(np)
    s = rng.choice([r for r in range(np) if r != q])
    p = rng.choice([r for r in range(np) if r != q])
    ranks[s][0].insert(rng.randint(0, len(ranks[s][0])), (g, q, payload_of(g, naux, salt=5.0)))
    ranks[q][0].insert(rng.randint(0, len(ranks[q][0])), (g, p, payload_of(g, naux, salt=9.0)))
    return fmt_line(np, nv, naux, ranks, [])


def gen_shufflin(rng, tier, np):
    n = (10 if np > 1 else 3) if tier == 'quick' else (40 if np > 1 else 6)
    ops = []
    # fixed small cases: one tet + one tri over np ranks, everything to the last rank, then back
    nv, cells = 5, [(8, 0, (0, 1, 2, 3)), (8, 0, (1, 2, 3, 4)), (3, 7, (1, 3, 2)), (0, 2, (0, 4))]
    old = [g % np for g in range(nv)]
    one = [np - 1] * nv
    ops.append(fmt_line(np, nv, 1, world_of(rng, np, nv, cells, 1, old, one, shuffle=False), [old, one, old]))
    for _ in range(n):
        ops.append(gen_consistent(rng, np, tier))
        if rng.random() < 0.35:
            ops.append(gen_malformed(rng, np))
        if np >= 2 and rng.random() < 0.3:
            ops.append(gen_lonely(rng, np))
        if rng.random() < 0.05:
            ops.append(rng.choice(['shufflin %d 3 0 1' % np, 'shufflin %d 2 0 1 %s' % (np, '| C ' * (np + 1)),
                                   'shufflin %d 1 0 1 %s' % (np, '| 0,%d,zz C ' % np * np), 'frobnicate %d | x' % np]))
    return ops


# ---------------------------------------------------------------------------------------------------------
# oracle: the post-condition of ref_migrate_shufflin, stated on the implementation's output
# ---------------------------------------------------------------------------------------------------------
def split_groups(tokens):
    groups, cur = [], None
    for t in tokens:
        if t == '|':
            if cur is not None:
                groups.append(cur)
            cur = []
        elif cur is not None:
            cur.append(t)
    if cur is not None:
        groups.append(cur)
    return groups


def parse_rank_in(g):
    c = g.index('C')
    nodes = {}
    for t in g[:c]:
        f = t.split(',')
        nodes[int(f[0])] = (int(f[1]), tuple(f[2:]))
    cells = [tuple(int(x) for x in t.split(',')) for t in g[c + 1:]]
    return nodes, cells


def parse_rank_out(txt):
    w = txt.split()
    if len(w) < 6 or w[4] != 'N' or 'C' not in w:
        return None
    c = w.index('C')
    nodes, dup = {}, False
    for t in w[5:c]:
        f = t.split(',')
        if int(f[0]) in nodes:
            dup = True
        nodes[int(f[0])] = (int(f[1]), tuple(f[2:]))
    cells = [tuple(int(x) for x in t.split(',')) for t in w[c + 1:]]
    return {'st': w[0], 'old': int(w[1]), 'new': int(w[2]), 'nunused': int(w[3]), 'nodes': nodes, 'cells': cells, 'dup': dup}


def hypotheses(ranks):
    """the hypotheses of shufflin_spec on the input world: copies of a vertex agree on the payload; a rank stores a
    cell once; two stored cells of one group with the same vertex set are the same cell (same order, same id)"""
    pay = {}
    bykey = {}
    for nodes, cells in ranks:
        for g, (p, pl) in nodes.items():
            if pay.setdefault(g, pl) != pl:
                return False
        if len(set(cells)) != len(cells):
            return False
        for c in cells:
            key = (c[0], frozenset(c[2:]))
            if bykey.setdefault(key, c) != c:
                return False
    return True


def oracle_shufflin_line(o, r):
    w = o.split()
    np, nv, naux, nround = int(w[1]), int(w[2]), int(w[3]), int(w[4])
    groups = split_groups(w[5:])
    ranks = [parse_rank_in(g) for g in groups[:np]]
    if not hypotheses(ranks):
        return []
    part = {}
    pay = {}
    for nodes, cells in ranks:
        for g, (p, pl) in nodes.items():
            part[g] = p
            pay[g] = pl
    allcells = {c for _, cells in ranks for c in cells}
    parts = [part] + [{g: int(t) for g, t in enumerate(grp)} for grp in groups[np:]]
    per_rank = r.split(' | ')
    if len(per_rank) != np:
        return ['expected %d per-rank results' % np]
    outs = [[parse_rank_out(x) for x in pr.split(' ## ')] for pr in per_rank]
    bad = []
    for k in range(nround):
        st = []
        for q in range(np):
            if k >= len(outs[q]) or outs[q][k] is None:
                return ['round %d rank %d: no state' % (k, q)]
            st.append(outs[q][k])
        if np == 1:
            continue   # not parallel: ref_migrate_shufflin returns at once
        pk = parts[k]
        for q, s in enumerate(st):
            if s['st'] != 'ok':
                bad.append('round %d rank %d: status %s' % (k, q, s['st']))
            want_cells = {c for c in allcells if any(pk[v] == q for v in c[2:])}
            if set(s['cells']) != want_cells or len(s['cells']) != len(want_cells):
                bad.append('round %d rank %d: stored cells differ from {c | some vertex of c has new part %d}: extra %s missing %s' %
                           (k, q, q, sorted(set(s['cells']) - want_cells)[:3], sorted(want_cells - set(s['cells']))[:3]))
            want_nodes = {g for g in pk if pk[g] == q and g in pay} | {v for c in want_cells for v in c[2:]}
            if set(s['nodes']) != want_nodes or s['dup']:
                bad.append('round %d rank %d: stored vertices differ from owned + needed: extra %s missing %s' %
                           (k, q, sorted(set(s['nodes']) - want_nodes)[:4], sorted(want_nodes - set(s['nodes']))[:4]))
            for g, (p, pl) in s['nodes'].items():
                if p != pk.get(g):
                    bad.append('round %d rank %d: vertex %d has part %d, new partition says %s' % (k, q, g, p, pk.get(g)))
                if pl != pay.get(g):
                    bad.append('round %d rank %d: vertex %d payload changed' % (k, q, g))
            if s['old'] != nv or s['new'] != nv or s['nunused'] != 0:
                bad.append('round %d rank %d: id counters changed' % (k, q))
        # the C06 sentence itself (needs ids 0..N-1 all present)
        if sorted(pay) == list(range(nv)):
            for m in state_invariants('shufflin', np, st):
                bad.append('round %d: %s' % (k, m))
    return bad[:6]


# ---------------------------------------------------------------------------------------------------------
# id histories: abstract simulation (python, independent of the Lean model) used by the generator and the oracle
# ---------------------------------------------------------------------------------------------------------
class IdSim:
    """per rank: live ids, unused stack, old, new -- the abstract meaning of the ref_node id operations"""

    def __init__(self, np):
        self.np = np
        self.live = [set() for _ in range(np)]
        self.unused = [[] for _ in range(np)]
        self.old = [-1] * np
        self.new = [-1] * np
        self.enabled = True     # every event so far satisfied its guard
        self.setup_ok = True

    def elsewhere(self, r, g):
        return any(g in self.live[q] for q in range(self.np) if q != r)

    def ev(self, r, t):
        if t[0] == 'N':
            self.old[r] = self.new[r] = int(t[1:])
        elif t[0] == 'a':
            self.live[r].add(int(t[1:]))
        elif t in ('F', 'T'):
            if self.unused[r]:
                g = self.unused[r].pop()
            else:
                if self.new[r] < 0:
                    self.setup_ok = False
                    return
                g = self.new[r]
                self.new[r] += 1
            if t == 'F':
                self.live[r].add(g)
            else:
                self.unused[r].append(g)
        elif t[0] == 'R':
            g = int(t[1:])
            if g in self.live[r]:
                if g < self.old[r] and self.elsewhere(r, g):
                    self.enabled = False
                self.live[r].discard(g)
                self.unused[r].append(g)
        elif t[0] == 'W':
            g = int(t[1:])
            if g in self.live[r]:
                if not (g < self.old[r] and self.elsewhere(r, g)):
                    self.enabled = False
                self.live[r].discard(g)

    def states(self):
        return [{'old': self.old[r], 'new': self.new[r], 'live': sorted(self.live[r]), 'unused': list(self.unused[r])}
                for r in range(self.np)]

    def sync(self):
        """the specification of ref_node_synchronize_globals: shared ids keep their order, fresh ids follow by rank"""
        old = self.old[0]
        # (an id both live and unused only occurs in histories that broke a guard: it keeps a number there)
        shared = sorted({g for r in range(self.np) for g in self.live[r] if g < old})
        m = {('o', g): i for i, g in enumerate(shared)}
        n = len(shared)
        for r in range(self.np):
            for g in sorted(x for x in self.live[r] if x >= old):
                m[('n', r, g)] = n
                n += 1
        for r in range(self.np):
            self.live[r] = {m[('o', g)] if g < old else m[('n', r, g)] for g in self.live[r]}
            self.unused[r] = []
            self.old[r] = self.new[r] = n


def gen_idhist_one(rng, np, enabled_only=True):
    old = rng.choice([0, 1, 3, 6, 10])
    sim = IdSim(np)
    evs = [[] for _ in range(np)]
    holders = {g: (rng.sample(range(np), rng.randint(1, np)) if rng.random() < 0.6 else [rng.randrange(np)]) for g in range(old)}
    for r in range(np):
        evs[r].append('N%d' % old)
        mine = [g for g in range(old) if r in holders[g]]
        rng.shuffle(mine)
        evs[r] += ['a%d' % g for g in mine]
        for t in evs[r]:
            sim.ev(r, t)
    nseg = rng.randint(1, 3)
    for seg in range(nseg):
        start = [set(s) for s in sim.live]   # liveness at the start of the segment decides the guards in ANY interleaving
        for r in range(np):
            for _ in range(rng.randint(0, 6)):
                k = rng.random()
                mine = sorted(sim.live[r])
                if k < 0.35 or not mine:
                    t = 'F'
                elif k < 0.5:
                    t = 'T'
                elif k < 0.8:
                    g = rng.choice(mine)
                    excl = g >= sim.old[r] or not any(g in start[q] for q in range(np) if q != r)
                    if enabled_only and not excl:
                        t = 'W%d' % g if any(g in sim.live[q] for q in range(np) if q != r) and g < sim.old[r] else 'F'
                    else:
                        t = 'R%d' % g
                else:
                    g = rng.choice(mine)
                    ghost = g < sim.old[r] and any(g in start[q] and g in sim.live[q] for q in range(np) if q > r)
                    # only drop a copy when a HIGHER rank still holds one at segment start and never drops it first
                    if enabled_only and not ghost:
                        t = 'T'
                    else:
                        t = 'W%d' % g
                evs[r].append(t)
                sim.ev(r, t)
        if seg < nseg - 1 or rng.random() < 0.8:
            for r in range(np):
                evs[r].append('S')
            sim.sync()
    return 'idhist %d %s' % (np, ' '.join('| ' + ' '.join(e) for e in evs))


def gen_idhist(rng, tier, np):
    n = 12 if tier == 'quick' else 60
    ops = []
    # the counterexample of Refine.Props.C06Ids.removeWithoutGlobal_fresh_breaks (np >= 2): dropping a FRESH vertex
    # without returning its id loses the id
    if np >= 2:
        ops.append('idhist %d | N4 a0 a1 a2 F W4 S | N4 a1 a2 a3 F S %s' % (np, '| N4 a0 S ' * (np - 2)))
    for _ in range(n):
        ops.append(gen_idhist_one(rng, np, enabled_only=rng.random() < 0.8))
        if rng.random() < 0.05:
            ops.append(rng.choice(['idhist %d | N3 a0 | S' % np, 'idhist %d %s' % (np, '| a1 N2 ' * np), 'idhist %d %s' % (np, '| Q ' * np),
                                   'idhist %d 7 %s' % (np, '| F ' * np)]))
    return ops


def parse_idstate(txt):
    w = txt.split()
    if len(w) < 5 or w[3] != 'T' or 'U' not in w:
        return None
    u = w.index('U')
    table = {int(t.split(':')[0]): int(t.split(':')[1]) for t in w[4:u]}
    return {'newN': int(w[0]), 'oldN': int(w[1]), 'nunused': int(w[2]), 'table': table, 'unused': [int(x) for x in w[u + 1:]]}


def oracle_idhist_line(o, r):
    """reachable_IdInv + sync_bijection on the implementation's lines: when the set-up world satisfies the id invariant
    and every event satisfies its guard (python simulation of the abstract semantics), then before EVERY
    synchronisation the implementation's state satisfies the id invariant and after it the ids are 0..N-1, the same on
    all ranks for a shared vertex"""
    w = o.split()
    np = int(w[1])
    groups = split_groups(w[2:])
    per_rank = [x.split(' ## ') for x in r.split(' | ')]
    if len(per_rank) != np:
        return ['expected %d per-rank results' % np]
    sim = IdSim(np)
    pos = [0] * np
    nsync = groups[0].count('S')
    bad = []
    for q in range(np):     # the set-up of every rank comes before anybody's first operation
        while pos[q] < len(groups[q]) and groups[q][pos[q]][0] in 'Na':
            sim.ev(q, groups[q][pos[q]])
            pos[q] += 1
    if id_invariant(sim.states()) is not None:
        return bad          # the set-up world is outside the hypotheses
    for k in range(nsync + 1):
        for q in range(np):
            while pos[q] < len(groups[q]) and groups[q][pos[q]] != 'S':
                sim.ev(q, groups[q][pos[q]])
                pos[q] += 1
            pos[q] += 1
        if k == nsync:
            break
        pre = [parse_idstate(per_rank[q][2 * k]) if 2 * k < len(per_rank[q]) else None for q in range(np)]
        post = [parse_idstate(per_rank[q][2 * k + 1]) if 2 * k + 1 < len(per_rank[q]) else None for q in range(np)]
        if any(x is None for x in pre + post):
            return ['malformed state at synchronisation %d' % k]
        states = [{'old': p['oldN'], 'new': p['newN'], 'slots': p['table'], 'live': list(p['table'].values()),
                   'unused': p['unused']} for p in pre]
        if not (sim.enabled and sim.setup_ok):
            return bad          # outside the hypotheses: correspondence only
        # the implementation's state is the one the abstract semantics predicts ...
        for q in range(np):
            if sorted(states[q]['live']) != sorted(sim.live[q]) or sorted(states[q]['unused']) != sorted(sim.unused[q]):
                bad.append('sync %d rank %d: live/unused ids %s/%s, abstract semantics says %s/%s' %
                           (k, q, sorted(states[q]['live']), states[q]['unused'], sorted(sim.live[q]), sim.unused[q]))
        why = id_invariant(states)
        if why is not None:
            # only a violation when the history started from a world satisfying the invariant
            bad.append('sync %d: id invariant broken before ref_node_synchronize_globals after an enabled history: %s' % (k, why))
            return bad
        posts = [{'newN': p['newN'], 'oldN': p['oldN'], 'nunused': p['nunused'], 'table': p['table']} for p in post]
        for m in check_bijection(states, posts):
            bad.append('sync %d: %s' % (k, m))
        sim.sync()
        for q in range(np):
            if sorted(post[q]['table'].values()) != sorted(sim.live[q]):
                bad.append('sync %d rank %d: ids after the call %s, specification %s' % (k, q, sorted(post[q]['table'].values()), sorted(sim.live[q])))
    return bad[:6]


def oracle(ops, impl):
    bad = []
    for i, (o, r) in enumerate(zip(ops, impl)):
        if r in ('bad-op', 'hang'):
            continue
        w = o.split()
        try:
            if w[0] == 'shufflin':
                for m in oracle_shufflin_line(o, r):
                    bad.append((i, 'ref_migrate_shufflin: ' + m))
            elif w[0] == 'idhist':
                for m in oracle_idhist_line(o, r):
                    bad.append((i, 'id history: ' + m))
        except (ValueError, IndexError) as ex:
            bad.append((i, 'unparsable result line: %r' % (ex,)))
    return bad


def _nontrivial(op, out):
    return out not in ('bad-op', 'hang')


def _mk(name, gen, nps, thorough_only=False):
    s = Stream(name, 'h_dist2', 'dist2', gen, oracle=oracle, np=nps, timeout=280, nontrivial=_nontrivial,
               session='\x00none', batches={'quick': 1, 'thorough': 2})
    s.thorough_only = thorough_only
    s.ops_file = True
    return s


SHUF = _mk('dist2_shufflin', gen_shufflin, NP_QUICK)
SHUF_MORE = _mk('dist2_shufflin_more', gen_shufflin, NP_MORE, True)
IDH = _mk('dist2_idhist', gen_idhist, NP_QUICK)
IDH_MORE = _mk('dist2_idhist_more', gen_idhist, NP_MORE, True)
STREAMS = [SHUF, IDH, SHUF_MORE, IDH_MORE]
