"""Shared machinery for every property check (DESIGN.md section 2).

Stage A  obligations : translator regen + lake build of the property module + axiom audit
Stage B  correspondence : C harness (built from /repo's working tree) vs compiled Lean driver
Stage C  search : only when A or B breaks -- look for a concrete failing input with the
                  property's direct oracle; otherwise `no-failing-input-found`.
"""
import fcntl
import hashlib
import json
import os
import random
import re
import shutil
import subprocess
import sys
import time

VERIF = os.path.dirname(os.path.dirname(os.path.abspath(__file__)))
REPO = os.environ.get('VERIF_REPO', '/repo')
LEAN = os.path.join(VERIF, 'lean')
GUARD = 'NASA_REFINE_VERIF'
ALLOWED_AXIOMS = {'propext', 'Classical.choice', 'Quot.sound'}
FORBIDDEN = re.compile(r'\b(sorry|admit|native_decide|bv_decide|implemented_by|maxHeartbeats\s+0)\b|^\s*axiom\s|\bunsafe\s')

CORE_SRC = """ref_adapt ref_agents ref_adj ref_args ref_axi ref_cavity ref_cell ref_cloud ref_clump
ref_collapse ref_comprow ref_dict ref_dist ref_edge ref_elast ref_export ref_face ref_facelift ref_fixture
ref_fortran ref_gather ref_geom ref_grid ref_histogram ref_html ref_import ref_inflate ref_interp ref_iso
ref_layer ref_list ref_math ref_matrix ref_meshlink ref_metric ref_node ref_oct ref_part ref_phys ref_recon
ref_search ref_shard ref_smooth ref_sort ref_split ref_subdiv ref_swap ref_validation ref_mpi ref_migrate
ref_egads""".split()

SAN_FLAGS = ['-fsanitize=address,undefined', '-fno-sanitize-recover=all', '-fno-omit-frame-pointer']
BASE_FLAGS = ['-O1', '-g', '-ffp-contract=off', '-D' + GUARD, '-I' + os.path.join(REPO, 'src')]


def log(msg):
    sys.stderr.write(msg + '\n')
    sys.stderr.flush()


class Stream:
    """One correspondence stream.

    kind 'diff'     : gen -> ops ; harness < ops > impl ; refdrv driver < ops > model ; compare line by line
    kind 'validate' : gen -> ops ; harness < ops > dump ; refdrv driver < dump > verdict lines ('ok ...' / 'bad ...')
    gen(rng, tier) returns a list of op lines.
    oracle(ops, impl_lines) returns a list of (index, message): the property's direct statement
    evaluated on the implementation's own output (independent of the Lean model).
    """

    def __init__(self, name, harness, driver, gen, oracle=None, kind='diff', np=None, whitebox=(),
                 driver_args=(), harness_args=(), nontrivial=None, session='reset', timeout=300,
                 sanitize=True, env=None, extra_src=(), batches=None, site=None):
        self.name = name
        self.harness = harness
        self.driver = driver
        self.gen = gen
        self.oracle = oracle
        self.kind = kind
        self.np = np  # None: serial; else list of rank counts (MPI harness)
        self.whitebox = tuple(whitebox)
        self.driver_args = tuple(driver_args)
        self.harness_args = tuple(harness_args)
        self.nontrivial = nontrivial or (lambda op, out: not (out.startswith('bad-op') or out == 'ok'))
        self.session = session
        self.timeout = timeout
        self.sanitize = sanitize
        self.env = env or {}
        self.extra_src = tuple(extra_src)
        self.batches = batches or {'quick': 1, 'thorough': 4}
        self.site = site  # stable name of the failure site for known_findings.json (optional)


class Ctx:
    def __init__(self, prop, tier, seed):
        self.prop = prop
        self.tier = tier
        self.seed = seed
        self.t0 = time.time()
        self.build = os.path.join(VERIF, '.build', '%s_%d' % (prop, os.getpid()))
        os.makedirs(self.build, exist_ok=True)
        self.objs = {}
        self.harness_exe = {}
        self.violations = []  # (replay_path, found_input: bool, text)
        self.known = []
        self.cov = {'streams': {}, 'evaluations': 0, 'distinct_nontrivial': 0, 'samples': [],
                    'traces_validated_against_impl': 0}
        self.replay_dir = os.path.join(VERIF, 'replays')
        os.makedirs(self.replay_dir, exist_ok=True)

    def cleanup(self):
        shutil.rmtree(self.build, ignore_errors=True)


# ---------------------------------------------------------------------------
# Stage A
# ---------------------------------------------------------------------------
class LakeLock:
    def __enter__(self):
        self.f = open(os.path.join(LEAN, '.lake.lock'), 'w')
        fcntl.flock(self.f, fcntl.LOCK_EX)
        return self

    def __exit__(self, *a):
        fcntl.flock(self.f, fcntl.LOCK_UN)
        self.f.close()


def strip_lean_comments(text):
    # nested block comments and line comments
    out = []
    i = 0
    depth = 0
    n = len(text)
    while i < n:
        if text.startswith('/-', i):
            depth += 1
            i += 2
        elif depth and text.startswith('-/', i):
            depth -= 1
            i += 2
        elif depth:
            if text[i] == '\n':
                out.append('\n')
            i += 1
        elif text.startswith('--', i):
            while i < n and text[i] != '\n':
                i += 1
        elif text[i] == '"':
            j = i + 1
            while j < n and text[j] != '"':
                if text[j] == '\\':
                    j += 1
                j += 1
            out.append('""')
            i = j + 1
        else:
            out.append(text[i])
            i += 1
    return ''.join(out)


def lean_files():
    for root, _, files in os.walk(LEAN):
        if '.lake' in root:
            continue
        for f in files:
            if f.endswith('.lean'):
                yield os.path.join(root, f)


def module_closure(module):
    """project-local modules transitively imported by `module` (file paths)"""
    seen = {}
    todo = [module]
    while todo:
        m = todo.pop()
        if m in seen:
            continue
        path = os.path.join(LEAN, *m.split('.')) + '.lean'
        if not os.path.exists(path):
            continue
        seen[m] = path
        with open(path) as f:
            for line in f:
                mm = re.match(r'\s*(?:public\s+)?import\s+(\S+)', line)
                if mm and (mm.group(1).startswith('Refine') or mm.group(1).startswith('Drivers')):
                    todo.append(mm.group(1))
    return seen


def theorem_names(path, namespace):
    text = strip_lean_comments(open(path).read())
    names = []
    for m in re.finditer(r'^\s*(?:@\[[^\]]*\]\s*)?(?:private\s+|protected\s+)?(?:theorem|lemma)\s+([^\s:({\[]+)', text, re.M):
        names.append(namespace + '.' + m.group(1))
    return names


def stage_a_one(ctx, prop_module, driver_modules=('Drivers.Main',)):
    """returns dict(obligations=[...], failed=[(name, why)], translator=[...], build_ok, refdrv_ok, log)"""
    res = {'obligations': [], 'failed': [], 'translator': [], 'build_ok': False, 'refdrv_ok': False,
           'statements': {}, 'axioms': {}, 'log': ''}
    with LakeLock():
        p = subprocess.run([sys.executable, os.path.join(VERIF, 'tools', 'translate.py'), '--repo', REPO],
                           capture_output=True, text=True)
        res['translator'] = p.stdout.strip().splitlines()
        if p.returncode != 0:
            for l in res['translator']:
                if ' ERROR ' in l:
                    res['failed'].append(('translator:' + l.split()[0], l))
            if not any(' ERROR ' in l for l in res['translator']):
                res['failed'].append(('translator', (p.stderr or p.stdout)[-2000:]))
        # the executable model first: Stage B needs it even when a proof breaks
        p = subprocess.run(['lake', 'build', 'refdrv'], cwd=LEAN, capture_output=True, text=True)
        res['refdrv_ok'] = p.returncode == 0
        if p.returncode != 0:
            res['log'] += p.stdout[-4000:] + p.stderr[-2000:]
            res['failed'].append(('build:refdrv', 'the executable model no longer builds against the regenerated tables'))
        p = subprocess.run(['lake', 'build', prop_module], cwd=LEAN, capture_output=True, text=True)
        res['build_ok'] = p.returncode == 0
        build_out = p.stdout + p.stderr
    ppath = os.path.join(LEAN, *prop_module.split('.')) + '.lean'
    names = theorem_names(ppath, prop_module)
    res['obligations'] = names
    if not res['build_ok']:
        res['log'] += build_out[-6000:]
        # attribute errors to theorems of the property file when possible
        bad = set()
        src_lines = open(ppath).read().splitlines()
        for m in re.finditer(r'error: (\S+?\.lean):(\d+):(\d+):\s*(.*)', build_out):
            f, ln = m.group(1), int(m.group(2))
            if os.path.abspath(os.path.join(LEAN, f)) == os.path.abspath(ppath) or os.path.abspath(f) == os.path.abspath(ppath):
                # nearest theorem at or above the line
                for k in range(min(ln, len(src_lines)) - 1, -1, -1):
                    mm = re.match(r'\s*(?:theorem|lemma)\s+([^\s:({\[]+)', src_lines[k])
                    if mm:
                        bad.add(prop_module + '.' + mm.group(1))
                        break
            else:
                bad.add('lemma-file:' + f + ':' + str(ln))
        if not bad:
            bad.add('build:' + prop_module)
        for b in sorted(bad):
            res['failed'].append((b, 'does not check against the current source (lake build failed)'))
        return res
    # audit: forbidden tokens in the import closure, axioms of every property theorem
    for mod, path in module_closure(prop_module).items():
        text = strip_lean_comments(open(path).read())
        for i, line in enumerate(text.splitlines()):
            if FORBIDDEN.search(line):
                res['failed'].append(('audit:' + mod, 'forbidden token at %s:%d: %s' % (path, i + 1, line.strip()[:80])))
    audit = os.path.join(ctx.build, 'Audit.lean')
    with open(audit, 'w') as f:
        f.write('import %s\n' % prop_module)
        for n in names:
            f.write('#check @%s\n#print axioms %s\n' % (n, n))
    p = subprocess.run(['lake', 'env', 'lean', audit], cwd=LEAN, capture_output=True, text=True)
    out = p.stdout
    if p.returncode != 0:
        res['failed'].append(('audit', 'audit file failed: ' + (p.stdout + p.stderr)[-1500:]))
        return res
    # parse: "'name' depends on axioms: [a, b]" | "'name' does not depend on any axioms"
    flat = re.sub(r'\n\s+', ' ', out)
    for n in names:
        m = re.search(r"'%s' depends on axioms: \[([^\]]*)\]" % re.escape(n), flat)
        if m:
            ax = [a.strip() for a in m.group(1).split(',') if a.strip()]
        elif re.search(r"'%s' does not depend on any axioms" % re.escape(n), flat):
            ax = []
        else:
            res['failed'].append((n, 'no axiom report'))
            continue
        res['axioms'][n] = ax
        extra = [a for a in ax if a not in ALLOWED_AXIOMS]
        if extra:
            res['failed'].append((n, 'depends on non-standard axioms %s' % extra))
        m = re.search(r'^@?%s : (.*?)(?=^\S)' % re.escape(n), out, re.M | re.S)
        if m:
            res['statements'][n] = re.sub(r'\s+', ' ', m.group(1)).strip()[:600]
    return res


def stage_a(ctx, prop_modules):
    """prop_modules: one module name or a list; results are merged"""
    if isinstance(prop_modules, str):
        prop_modules = [prop_modules]
    tot = None
    for k, m in enumerate(prop_modules):
        r = stage_a_one(ctx, m)
        if tot is None:
            tot = r
        else:
            tot['obligations'] += r['obligations']
            tot['failed'] += [f for f in r['failed'] if f not in tot['failed']]
            tot['build_ok'] = tot['build_ok'] and r['build_ok']
            tot['refdrv_ok'] = tot['refdrv_ok'] and r['refdrv_ok']
            tot['statements'].update(r['statements'])
            tot['axioms'].update(r['axioms'])
            tot['log'] += r['log']
    return tot


def leanchecker(ctx, prop_module):
    with LakeLock():
        p = subprocess.run(['lake', 'env', 'leanchecker', prop_module], cwd=LEAN, capture_output=True, text=True)
    return p.returncode == 0, (p.stdout + p.stderr)[-800:]


# ---------------------------------------------------------------------------
# building the implementation side from /repo's working tree
# ---------------------------------------------------------------------------
def build_objs(ctx, mpi=False, sanitize=True):
    key = (mpi, sanitize)
    if key in ctx.objs:
        return ctx.objs[key]
    d = os.path.join(ctx.build, 'obj_%s_%s' % ('mpi' if mpi else 'ser', 'san' if sanitize else 'nosan'))
    os.makedirs(d, exist_ok=True)
    cc = 'mpicc' if mpi else 'gcc'
    flags = BASE_FLAGS + (SAN_FLAGS if sanitize else []) + (['-DHAVE_MPI'] if mpi else [])
    procs = []
    srcs = [s for s in CORE_SRC if os.path.exists(os.path.join(REPO, 'src', s + '.c'))]
    # 16 at a time
    pending = list(srcs)
    fails = []
    running = []
    while pending or running:
        while pending and len(running) < 16:
            s = pending.pop()
            cmd = [cc] + flags + ['-c', os.path.join(REPO, 'src', s + '.c'), '-o', os.path.join(d, s + '.o')]
            running.append((s, subprocess.Popen(cmd, stdout=subprocess.PIPE, stderr=subprocess.STDOUT, text=True)))
        s, pr = running.pop(0)
        out, _ = pr.communicate()
        if pr.returncode != 0:
            fails.append((s, out[-1500:]))
    if fails:
        raise BuildError('compile of /repo/src failed: %s' % fails[:2])
    ctx.objs[key] = d
    return d


class BuildError(Exception):
    pass


def build_harness(ctx, stream):
    mpi = stream.np is not None
    key = (stream.harness, mpi, stream.sanitize)
    if key in ctx.harness_exe:
        return ctx.harness_exe[key]
    d = build_objs(ctx, mpi=mpi, sanitize=stream.sanitize)
    cc = 'mpicc' if mpi else 'gcc'
    flags = BASE_FLAGS + (SAN_FLAGS if stream.sanitize else []) + (['-DHAVE_MPI'] if mpi else [])
    exe = os.path.join(ctx.build, '%s_%s' % (stream.harness, 'mpi' if mpi else 'ser'))
    objs = [os.path.join(d, s + '.o') for s in CORE_SRC
            if s not in stream.whitebox and os.path.exists(os.path.join(d, s + '.o'))]
    srcs = [os.path.join(VERIF, 'harness', stream.harness + '.c')] + \
           [os.path.join(VERIF, 'harness', s) for s in stream.extra_src]
    cmd = [cc] + flags + ['-I' + os.path.join(VERIF, 'harness')] + srcs + objs + ['-lm', '-o', exe]
    p = subprocess.run(cmd, capture_output=True, text=True)
    if p.returncode != 0:
        raise BuildError('harness %s failed to build: %s' % (stream.harness, (p.stdout + p.stderr)[-3000:]))
    ctx.harness_exe[key] = exe
    return exe


REFDRV = os.path.join(LEAN, '.lake', 'build', 'bin', 'refdrv')


def run_impl(ctx, stream, ops, np=None):
    if callable(stream.harness):
        # python runner driving binaries rebuilt from /repo's working tree (end-to-end CLI streams)
        return stream.harness(ctx, stream, ops, np)
    exe = build_harness(ctx, stream)
    env = dict(os.environ)
    env['MALLOC_PERTURB_'] = str(1 + (ctx.seed * 37 + 11) % 254)
    env['ASAN_OPTIONS'] = 'detect_leaks=0:abort_on_error=0:exitcode=99'
    env['UBSAN_OPTIONS'] = 'print_stacktrace=1:halt_on_error=1:exitcode=98'
    env.update(stream.env)
    cmd = [exe] + list(stream.harness_args)
    if np is not None:
        cmd = ['mpiexec', '--allow-run-as-root', '--oversubscribe', '-n', str(np)] + cmd
        env['OMPI_MCA_rmaps_base_oversubscribe'] = '1'
        env['OMPI_MCA_mpi_yield_when_idle'] = '1'
    data = '\n'.join(ops) + '\n'
    if getattr(stream, 'ops_file', False):
        # additive (comm package): Open MPI 4.1.4's mpiexec stdin forwarding stalls / segfaults on large inputs
        # under load, so such a stream hands the ops to the harness as `--ops <file>`; stdin is /dev/null
        opath = os.path.join(ctx.build, 'ops_%s_%d.txt' % (stream.name, os.getpid()))
        with open(opath, 'w') as f:
            f.write(data)
        cmd = cmd + ['--ops', opath]
        data = ''
    try:
        p = subprocess.run(cmd, input=data, capture_output=True, text=True, timeout=stream.timeout, env=env,
                           cwd=ctx.build)
        return p.returncode, p.stdout.splitlines(), p.stderr[-4000:]
    except subprocess.TimeoutExpired as ex:
        out = ex.stdout.decode() if isinstance(ex.stdout, bytes) else (ex.stdout or '')
        return -9, out.splitlines(), 'TIMEOUT after %ss' % stream.timeout


def run_model(ctx, stream, lines):
    data = '\n'.join(lines) + '\n'
    try:
        p = subprocess.run([REFDRV, stream.driver] + list(stream.driver_args), input=data, capture_output=True,
                           text=True, timeout=stream.timeout)
        return p.returncode, p.stdout.splitlines(), p.stderr[-2000:]
    except subprocess.TimeoutExpired:
        return -9, [], 'TIMEOUT'


def real_ops(ops):
    return [o for o in ops if o.strip() and not o.lstrip().startswith('#')]


def compare(ctx, stream, ops, np=None):
    """-> dict(status, first_diff, impl, model, rc)  status in ok|diff|impl-crash|model-crash"""
    rc, impl, err = run_impl(ctx, stream, ops, np)
    r = {'rc': rc, 'impl': impl, 'stderr': err, 'model': None, 'first_diff': None}
    ro = real_ops(ops)
    if stream.kind == 'oracle':
        # no model side: the stream exists for its oracle (end-to-end statement of the property)
        r['status'] = 'ok' if (rc == 0 and len(impl) == len(ro)) else 'impl-crash'
        if r['status'] != 'ok':
            r['first_diff'] = len(impl)
        return r
    if stream.kind == 'validate':
        if rc != 0:
            r['status'] = 'impl-crash'
            return r
        mrc, model, merr = run_model(ctx, stream, impl)
        r['model'] = model
        if mrc != 0:
            r['status'] = 'model-crash'
            r['stderr'] = merr
            return r
        bad = [i for i, l in enumerate(model) if not l.startswith('ok')]
        r['status'] = 'ok' if not bad else 'invariant'
        r['first_diff'] = bad[0] if bad else None
        return r
    mrc, model, merr = run_model(ctx, stream, ops)
    r['model'] = model
    if mrc != 0:
        r['status'] = 'model-crash'
        r['stderr'] = merr
        return r
    n = min(len(impl), len(model))
    for i in range(n):
        if impl[i] != model[i]:
            r['status'] = 'diff'
            r['first_diff'] = i
            return r
    if rc != 0 or len(impl) != len(ro):
        r['status'] = 'impl-crash'
        r['first_diff'] = len(impl)
        return r
    if len(model) != len(ro):
        r['status'] = 'model-crash'
        r['first_diff'] = len(model)
        return r
    r['status'] = 'ok'
    return r


def sessions_of(ops, delim):
    out, cur = [], []
    for o in ops:
        if o.split()[:1] == [delim] and cur:
            out.append(cur)
            cur = []
        cur.append(o)
    if cur:
        out.append(cur)
    return out


def shrink(ctx, stream, ops, np, still_fails, budget=120):
    """delta debugging: first whole sessions, then lines inside the remaining ones"""
    sess = sessions_of(ops, stream.session)
    used = [0]

    def test(ss):
        used[0] += 1
        return used[0] <= budget and still_fails([l for s in ss for l in s])

    # keep only one failing session if possible
    if len(sess) > 1:
        for s in sess:
            if test([s]):
                sess = [s]
                break
        else:
            n = 2
            while len(sess) >= 2 and used[0] < budget:
                chunk = max(1, len(sess) // n)
                reduced = False
                for i in range(0, len(sess), chunk):
                    cand = sess[:i] + sess[i + chunk:]
                    if cand and test(cand):
                        sess = cand
                        n = max(n - 1, 2)
                        reduced = True
                        break
                if not reduced:
                    if chunk == 1:
                        break
                    n = min(len(sess), n * 2)
    lines = [l for s in sess for l in s]
    n = 2
    while len(lines) >= 2 and used[0] < budget:
        chunk = max(1, len(lines) // n)
        reduced = False
        for i in range(0, len(lines), chunk):
            cand = lines[:i] + lines[i + chunk:]
            if cand and test([cand]):
                lines = cand
                n = max(n - 1, 2)
                reduced = True
                break
        if not reduced:
            if chunk == 1:
                break
            n = min(len(lines), n * 2)
    return lines


def h16(s):
    return hashlib.sha256(s.encode()).hexdigest()[:16]


def write_replay(ctx, stream, np, ops, info):
    body = {'property': ctx.prop, 'stream': stream.name if stream else None, 'np': np, 'seed': ctx.seed,
            'tier': ctx.tier, 'ops': ops}
    body.update(info)
    key = h16(json.dumps({'p': ctx.prop, 's': body['stream'], 'ops': ops, 'thm': info.get('theorem')}, sort_keys=True))
    body['key'] = key
    path = os.path.join(ctx.replay_dir, '%s_%s.json' % (ctx.prop, key))
    with open(path, 'w') as f:
        json.dump(body, f, indent=1)
    return path, key


def load_known():
    p = os.path.join(VERIF, 'known_findings.json')
    if not os.path.exists(p):
        return []
    return json.load(open(p)).get('findings', [])


def report(ctx, replay, key, found_input, text, site=None):
    for k in load_known():
        if ctx.prop in [k.get('property')] + list(k.get('also', [])) and k.get('status') == 'known' and \
                ((key is not None and k.get('key') == key) or (site and k.get('site') == site)):
            line = 'KNOWN-FINDING: property=%s %s' % (ctx.prop, k.get('what', text))
            if line not in ctx.known:
                ctx.known.append(line)
                print(line)
            return
    ctx.violations.append((replay, found_input, text))


def oracle_failures(stream, ops, impl):
    if not stream.oracle:
        return []
    try:
        return list(stream.oracle(real_ops(ops), impl))
    except Exception as ex:  # an oracle crash on malformed output is itself reported
        return [(-1, 'oracle exception: %r' % (ex,))]


def stage_b_stream(ctx, stream, stage_a_broken):
    cov = {'evaluations': 0, 'distinct_nontrivial': 0, 'batches': 0, 'np': [], 'op_kinds': {}, 'status_kinds': {},
           'samples': []}
    ctx.cov['streams'][stream.name] = cov
    distinct = set()
    nps = stream.np if stream.np is not None else [None]
    nb = stream.batches.get(ctx.tier, 1) * (3 if stage_a_broken else 1)
    # corpus first
    corpus_dir = os.path.join(VERIF, 'corpus', ctx.prop)
    jobs = []
    if os.path.isdir(corpus_dir):
        for fn in sorted(os.listdir(corpus_dir)):
            if fn.startswith(stream.name + '.') and fn.endswith('.ops'):
                jobs.append(('corpus:' + fn, open(os.path.join(corpus_dir, fn)).read().splitlines(), None))
    for b in range(nb):
        for np in nps:
            rng = random.Random((ctx.seed * 1000003 + b * 7919 + (np or 0) * 104729) ^ int(h16(stream.name), 16))
            ops = stream.gen(rng, ctx.tier) if np is None else stream.gen(rng, ctx.tier, np)
            jobs.append(('gen:%d' % b, ops, np))
    for label, ops, np in jobs:
        if label.startswith('corpus:') and stream.np is not None:
            m = re.search(r'\.np(\d+)\.', label)
            np = int(m.group(1)) if m else stream.np[0]
        r = compare(ctx, stream, ops, np)
        cov['batches'] += 1
        if np is not None and np not in cov['np']:
            cov['np'].append(np)
        ro = real_ops(ops)
        impl = r['impl']
        for i, o in enumerate(ro[:len(impl)]):
            cov['evaluations'] += 1
            kind = o.split()[0]
            cov['op_kinds'][kind] = cov['op_kinds'].get(kind, 0) + 1
            st = impl[i].split()[0] if impl[i].split() else ''
            if not re.fullmatch(r'[-0-9a-f.]+', st or 'x'):
                cov['status_kinds'][st] = cov['status_kinds'].get(st, 0) + 1
            if stream.nontrivial(o, impl[i]):
                distinct.add(h16(o + '|' + impl[i]))
        if len(cov['samples']) < 3 and ro and impl:
            k = min(len(ro), len(impl)) // 2
            cov['samples'].append({'op': ro[k][:300], 'impl': impl[k][:300],
                                   'model': (r['model'][k][:300] if r['model'] and k < len(r['model']) else None)})
        if r['status'] == 'ok' and stream.kind == 'validate':
            ctx.cov['traces_validated_against_impl'] += len(r['model'] or [])
        ofail = oracle_failures(stream, ops, impl) if r['status'] in ('ok', 'diff') else []
        if r['status'] == 'ok' and not ofail:
            continue
        nviol = len(ctx.violations)
        handle_failure(ctx, stream, np, ops, r, ofail, label)
        if len(ctx.violations) == nviol:
            continue  # reported as a known finding only: the remaining batches / rank counts are still checked
        break  # one violation per stream is enough
    cov['distinct_nontrivial'] = len(distinct)
    ctx.cov['evaluations'] += cov['evaluations']
    ctx.cov['distinct_nontrivial'] += cov['distinct_nontrivial']
    ctx.cov['samples'].extend(cov.pop('samples'))
    return cov


def handle_failure(ctx, stream, np, ops, r, ofail, label):
    status = r['status']
    site = getattr(stream, 'site', None)
    log('[%s] stream %s %s: %s at op %s' % (ctx.prop, stream.name, label, status, r['first_diff']))

    # a batch whose oracle failures ALL carry the site of one listed known finding is reported at once (no shrinking: the
    # finding is identified by its site, and shrinking it again for every batch and rank count only costs time)
    if status == 'ok' and ofail and all(len(f) > 2 for f in ofail) and len({f[2] for f in ofail}) == 1:
        s0 = ofail[0][2]
        if any(ctx.prop in [k.get('property')] + list(k.get('also', [])) and k.get('status') == 'known' and
               k.get('site') == s0 for k in load_known()):
            report(ctx, None, None, True, ofail[0][1], site=s0)
            return
    # failures tagged with a known-finding site (third tuple element) must never mask an untagged one: when the
    # original batch has an untagged oracle failure the shrinker has to keep an untagged failure
    has_untagged = any(len(f) < 3 for f in (ofail or []))

    def fails(cand):
        rr = compare(ctx, stream, cand, np)
        if status == 'ok':  # oracle-only failure
            ofs = oracle_failures(stream, cand, rr['impl'])
            return any(len(f) < 3 for f in ofs) if has_untagged else bool(ofs)
        return rr['status'] == status

    small = shrink(ctx, stream, ops, np, fails) if status != 'model-crash' else ops
    rr = compare(ctx, stream, small, np)
    if status != 'ok' and rr['status'] != status:
        small, rr = ops, r
    of = oracle_failures(stream, small, rr['impl']) if rr['status'] in ('ok', 'diff') else []
    i = rr['first_diff']
    ro = real_ops(small)
    info = {'kind': rr['status'], 'first_diff_index': i,
            'op': ro[i] if i is not None and i < len(ro) else None,
            'impl_line': rr['impl'][i] if i is not None and i < len(rr['impl']) else None,
            'model_line': rr['model'][i] if rr['model'] and i is not None and i < len(rr['model']) else None,
            'impl_rc': rr['rc'], 'impl_stderr_tail': rr['stderr'][-1500:] if rr['stderr'] else '',
            'oracle_failures': of[:10], 'harness': getattr(stream.harness, '__name__', stream.harness),
            'driver': stream.driver}
    # an oracle failure may carry a third element: a stable `site` id used by known_findings.json
    # (only when EVERY failure of the minimised case carries the same site is it reported as that known finding)
    of = sorted(of, key=lambda f: len(f) > 2)   # untagged first: the verdict quotes of[0]
    site = of[0][2] if of and all(len(f) > 2 and f[2] == of[0][2] for f in of) else getattr(stream, 'site', None)
    if rr['status'] == 'impl-crash':
        # a crash / sanitizer abort / timeout of the real code on a generated input is a concrete failing input
        info['verdict'] = 'implementation aborted (rc=%s) on this input' % rr['rc']
        path, key = write_replay(ctx, stream, np, small, info)
        report(ctx, path, key, True, info['verdict'], site=getattr(stream, 'crash_site', None) or site)
    elif rr['status'] == 'invariant':
        info['verdict'] = 'model invariant false on an implementation state: %s' % (rr['model'][i] if rr['model'] else '')
        path, key = write_replay(ctx, stream, np, small, info)
        report(ctx, path, key, True, info['verdict'], site=site)
    elif of:
        info['verdict'] = 'property oracle fails on the implementation output: %s' % (of[0][1],)
        info['site'] = site
        path, key = write_replay(ctx, stream, np, small, info)
        report(ctx, path, key, True, info['verdict'], site=site)
    else:
        # Stage C: the correspondence broke but the property holds on this input: search further
        found = stage_c_search(ctx, stream, np)
        if found:
            fops, fof = found
            info2 = dict(info)
            info2.update({'verdict': 'property oracle fails: %s' % (fof[0][1],), 'oracle_failures': fof[:10],
                          'correspondence_break': {'ops': small, 'op': info['op'], 'impl': info['impl_line'],
                                                   'model': info['model_line']}})
            path, key = write_replay(ctx, stream, np, fops, info2)
            report(ctx, path, key, True, info2['verdict'], site=site)
        else:
            info['verdict'] = 'correspondence stream %s no longer checks (model %s vs implementation %s); ' \
                              'no input violating the property oracle found' % (stream.name, info['model_line'], info['impl_line'])
            info['theorem'] = 'correspondence:' + stream.name
            path, key = write_replay(ctx, stream, np, small, info)
            report(ctx, path, key, False, info['verdict'], site=site)
    if rr['status'] != 'model-crash':
        # keep the minimised case in the corpus candidates directory (not committed automatically)
        cdir = os.path.join(ctx.replay_dir, 'corpus_candidates', ctx.prop)
        os.makedirs(cdir, exist_ok=True)
        with open(os.path.join(cdir, '%s.%s%s.ops' % (stream.name, ('np%d.' % np) if np else '', h16('\n'.join(small)))), 'w') as f:
            f.write('\n'.join(small) + '\n')


def stage_c_search(ctx, stream, np, rounds=None):
    """fresh seeded generation, oracle on the implementation's own output"""
    if not stream.oracle:
        return None
    rounds = rounds or (6 if ctx.tier == 'quick' else 30)
    for k in range(rounds):
        rng = random.Random(ctx.seed * 7 + 1000 + k)
        ops = stream.gen(rng, ctx.tier) if np is None else stream.gen(rng, ctx.tier, np)
        rc, impl, err = run_impl(ctx, stream, ops, np)
        of = oracle_failures(stream, ops, impl)
        if rc != 0 and not of:
            of = [(len(impl), 'implementation aborted rc=%s' % rc)]
        if of:
            def fails(cand):
                rc2, impl2, _ = run_impl(ctx, stream, cand, np)
                return bool(oracle_failures(stream, cand, impl2)) or rc2 != 0
            small = shrink(ctx, stream, ops, np, fails, budget=60)
            rc2, impl2, _ = run_impl(ctx, stream, small, np)
            of2 = oracle_failures(stream, small, impl2) or of
            return small, of2
    return None


# ---------------------------------------------------------------------------
# top level
# ---------------------------------------------------------------------------
def run_check(spec, tier, seed, replay=None):
    """spec: module with ID, PROPS_MODULE, STREAMS, ASSUMPTIONS, EXPLANATION, optional WITNESS(ctx, stage_a_result)"""
    ctx = Ctx(spec.ID, tier, seed)
    try:
        return _run_check(ctx, spec, replay)
    finally:
        ctx.cleanup()


def _run_check(ctx, spec, replay):
    if replay:
        return run_replay(ctx, spec, replay)
    a = stage_a(ctx, spec.PROPS_MODULE)
    a_broken = bool(a['failed'])
    checker_cmd = 'cd /verif/lean && lake build %s && lake env lean <audit: #print axioms of every theorem>' % (
        spec.PROPS_MODULE if isinstance(spec.PROPS_MODULE, str) else ' '.join(spec.PROPS_MODULE))
    if ctx.tier == 'thorough' and a['build_ok']:
        for pm in ([spec.PROPS_MODULE] if isinstance(spec.PROPS_MODULE, str) else spec.PROPS_MODULE):
            ok, out = leanchecker(ctx, pm)
            checker_cmd += ' && lake env leanchecker %s' % pm
            if not ok:
                a['failed'].append(('leanchecker:' + pm, out))
                a_broken = True
    streams = [s for s in spec.STREAMS if ctx.tier == 'thorough' or not getattr(s, 'thorough_only', False)]
    build_error = None
    if a['refdrv_ok']:
        for s in streams:
            try:
                stage_b_stream(ctx, s, a_broken)
            except BuildError as ex:
                build_error = str(ex)
                break
    if build_error:
        info = {'kind': 'build', 'verdict': build_error[:3000], 'theorem': 'build:harness'}
        path, key = write_replay(ctx, None, None, [], info)
        report(ctx, path, key, False, 'the correspondence harness no longer builds against /repo: ' + build_error[:300])
    if a_broken:
        # Stage C for broken obligations: executable witnesses over the regenerated model, else no-failing-input
        wit = []
        if hasattr(spec, 'WITNESS') and a['refdrv_ok']:
            try:
                wit = spec.WITNESS(ctx, a)
            except Exception as ex:
                wit = []
                log('witness search failed: %r' % (ex,))
        already_found = any(v[1] for v in ctx.violations)
        for name, why in a['failed']:
            info = {'kind': 'obligation', 'theorem': name, 'why': why, 'log_tail': a['log'][-3000:],
                    'witnesses': wit[:20]}
            if wit:
                info['verdict'] = 'obligation %s fails; concrete witness in the regenerated model: %s' % (name, wit[0])
                path, key = write_replay(ctx, None, None, [], info)
                report(ctx, path, key, True, info['verdict'])
            elif not already_found:
                info['verdict'] = 'theorem/obligation %s no longer checks: %s' % (name, why[:300])
                path, key = write_replay(ctx, None, None, [], info)
                report(ctx, path, key, False, info['verdict'])
    # evidence
    nob = len(a['obligations'])
    failed_names = {n for n, _ in a['failed']}
    discharged = 0 if not a['build_ok'] else len([n for n in a['obligations'] if n not in failed_names])
    samples = [{'theorem': n, 'statement': a['statements'].get(n, ''), 'axioms': a['axioms'].get(n)}
               for n in a['obligations'][:4]] + ctx.cov['samples'][:6]
    trusted = ['Lean 4.33.0 kernel' + (' + leanchecker' if ctx.tier == 'thorough' else ''),
               'axioms used: ' + ', '.join(sorted({x for v in a['axioms'].values() for x in v}) or ['none']),
               'no native_decide / bv_decide / sorry / user axioms (audited by grep + #print axioms on every run)',
               'tools/translate.py (tables/macros/constants regenerated from /repo/src)',
               'correspondence harnesses harness/*.c + Lean compiler/runtime for refdrv + glibc libm on both sides',
               ] + list(getattr(spec, 'TRUSTED', []))
    ev = {
        'property_id': ctx.prop, 'tier': ctx.tier, 'seed': ctx.seed, 'level': 'proof',
        'coverage': {
            'obligations': nob, 'discharged': discharged, 'checker_cmd': checker_cmd, 'trusted_base': trusted,
            'evaluations': ctx.cov['evaluations'], 'distinct_nontrivial': ctx.cov['distinct_nontrivial'],
            'rule': getattr(spec, 'RULE', 'seeded generator per stream; an evaluation is one op line executed by both '
                                          'the C implementation and the Lean model; non-trivial = result is not a '
                                          'rejected/ok-only line; distinct = sha256 of (op, implementation result)'),
            'traces_validated_against_impl': ctx.cov['traces_validated_against_impl'],
            'samples': samples, 'streams': ctx.cov['streams'], 'translator': a['translator'],
            'theorems': a['obligations'], 'explanation': spec.EXPLANATION,
            'known_findings_reported': ctx.known,
        },
        'assumptions': list(spec.ASSUMPTIONS),
        'wall_s': round(time.time() - ctx.t0, 2),
        'violations': len(ctx.violations),
    }
    os.makedirs(os.path.join(VERIF, 'evidence'), exist_ok=True)
    with open(os.path.join(VERIF, 'evidence', ctx.prop + '.json'), 'w') as f:
        json.dump(ev, f, indent=1)
    if ctx.violations:
        # a violation with a concrete input takes precedence in the output order
        for path, found, text in sorted(ctx.violations, key=lambda v: not v[1]):
            log('[%s] %s' % (ctx.prop, text[:500]))
            print('VIOLATION property=%s replay=%s%s' % (ctx.prop, path, '' if found else ' no-failing-input-found'))
        return 1
    print('OK property=%s tier=%s obligations=%d/%d evaluations=%d distinct=%d wall=%.1fs' %
          (ctx.prop, ctx.tier, discharged, nob, ctx.cov['evaluations'], ctx.cov['distinct_nontrivial'],
           time.time() - ctx.t0))
    return 0


def run_replay(ctx, spec, path):
    body = json.load(open(path))
    sname = body.get('stream')
    if not sname:
        # obligation replay: re-run stage A and report whether the named theorem checks now
        a = stage_a(ctx, spec.PROPS_MODULE)
        bad = [n for n, _ in a['failed']]
        if bad:
            print('VIOLATION property=%s replay=%s%s' % (ctx.prop, path, '' if body.get('witnesses') else ' no-failing-input-found'))
            return 1
        print('REPLAY-OK property=%s all obligations check' % ctx.prop)
        return 0
    stream = [s for s in spec.STREAMS if s.name == sname][0]
    with LakeLock():
        subprocess.run(['lake', 'build', 'refdrv'], cwd=LEAN, capture_output=True, text=True)
    r = compare(ctx, stream, body['ops'], body.get('np'))
    of = oracle_failures(stream, body['ops'], r['impl']) if r['status'] in ('ok', 'diff') else []
    print('replay status=%s oracle_failures=%s' % (r['status'], of[:3]))
    if r['status'] != 'ok' or of:
        found = bool(of) or r['status'] in ('impl-crash', 'invariant')
        print('VIOLATION property=%s replay=%s%s' % (ctx.prop, path, '' if found else ' no-failing-input-found'))
        return 1
    print('REPLAY-OK property=%s' % ctx.prop)
    return 0
