"""C14: the mesh containers behave like their abstract model under any operation sequence.

Part A (this file's streams): the integer list, dictionary, adjacency and sort/search helpers
(ref_list.c, ref_dict.c, ref_adj.c, ref_sort.c).  Part B (node / cell stores) appends its own
property module and streams.
"""
from . import streams_containers, streams_nodecell

ID = 'C14'
PROPS_MODULE = ['Refine.Props.C14', 'Refine.Props.C14NodeCell']
STREAMS = list(streams_containers.STREAMS) + list(streams_nodecell.STREAMS)
EXPLANATION = (
    'Proved in Lean 4 for all inputs (no size bound), about executable models that mirror ref_sort.c, ref_list.c, '
    'ref_dict.c and ref_adj.c loop by loop.  SORT/SEARCH: the heap sort (the literal single for(;;) loop with its sift-down loop and n<2 early return, proved equal to its two phases) '
    'returns a permutation of 0..n-1 for ANY comparison (REF_DBL keys with NaN included) under which the keys are '
    'non-decreasing over any linear order (int, glob, NaN-free dbl); the selection sort behind '
    'ref_sort_insertion_int and ref_sort_in_place_glob return the sorted permutation; ref_sort_unique_int returns '
    'the strictly increasing list of the distinct inputs (n>=1; n=0 yields nunique=1 as the C does); '
    'ref_sort_same decides set equality; the binary searches (literal mid=n>>1 start, lower<mid<upper loop) return '
    'an index holding the target iff it is present in a non-decreasing list, else not_found/REF_EMPTY, are sound on '
    'any list and terminate within upper-lower iterations; ref_sort_search_dbl over a linear order returns the '
    'documented clamps or an interval [a[p],a[p+1]) containing the target on any list (never REF_FAILURE, always '
    'terminating), the unique such interval on a sorted list; ref_sort_shuffle yields a permutation for every '
    'rand() stream; ref_sort_rand_in_range stays in [min,max].  LIST: RList refines List Int for every operation '
    'sequence (values, statuses, outputs, n<=max; delete removes all occurrences, not_found iff none; contains is '
    'membership).  DICT: the invariant (keys strictly increasing, values aligned, n<=max) is preserved by every '
    'operation; location/value are correct on both the linear (n<=10) and binary branches; store overwrites or '
    'inserts with exact counts; remove of an absent key is not_found and leaves the state unchanged; RDict refines '
    'a finite map for every operation sequence.  ADJ: the invariant (free list and per-node chains duplicate-free, '
    'pairwise disjoint, covering all items, free items carry REF_EMPTY) is preserved by add/remove/add_uniquely '
    'including both growth paths; add conses the reference onto the node list, remove erases its first occurrence '
    '(invalid and unchanged when absent, node<0 invalid, the parent-empty failure exit unreachable); degree, empty, '
    'min_degree_node are exact; counts are exact; every chain walk terminates within fuel=nitem; RAdj refines '
    'node -> List ref for every operation sequence.  Executable checkers proved equivalent to the three invariants '
    'are evaluated on full state dumps of the real C containers (stream cont_state_invariants).  The models are tied '
    'to the compiled C by differential execution: exhaustive arrays of length <=5 (quick) / <=7 (thorough) over a '
    '7-letter alphabet for sort/unique/search, seeded larger arrays, and stateful op sequences (up to 2000 ops per '
    'session) with descending ids, duplicates, REF_EMPTY, negatives and growth across the 10/20/100/1000 realloc '
    'thresholds, comparing every result line and periodic full array dumps (free list included) under ASan+UBSan; '
    'Python oracles state the abstract list/map/sorted-permutation property directly on the C output.')
ASSUMPTIONS = [
    'REF_INT / REF_GLOB are modelled as unbounded integers: 32/64-bit wrap-around inside index arithmetic '
    '(e.g. lower+upper in the binary search for n > 2^30) is not modelled',
    'heap, pointers, malloc/realloc failure are not modelled; the REF_INT_MAX growth caps of ref_adj_add are modelled '
    'as the same guard and assumed not to bite in the theorems (node < REF_INT_MAX, nitem <= REF_INT_MAX)',
    'array cells at or beyond n (ref_list, ref_dict) are never read by the public functions and are not modelled',
    'REF_DBL comparisons: the Float instance is compared bit-for-bit with the C; the ordering theorems for '
    'ref_sort_heap_dbl / ref_sort_search_dbl are stated over a linear order (no NaN)',
    'ref_sort_same(0, ..) and ref_sort_search_dbl on lists containing a NaN are refused by the harness '
    '(out-of-bounds read of a zero-length allocation resp. non-termination of the C loop); rand() is interposed by '
    'the harness so that ref_sort_shuffle / ref_sort_rand_in_range consume a stream given on the op line',
]

# ---- part B (node ids / cell store), merged from the nodecell package
from . import c14nc as _nc  # noqa: E402
EXPLANATION = EXPLANATION + ' PART B: ' + _nc.EXPLANATION
ASSUMPTIONS = list(ASSUMPTIONS) + [a for a in _nc.ASSUMPTIONS if a not in ASSUMPTIONS]
