from .common import Stream, run_model, REFDRV
from . import streams_tables
from . import streams_geom
from . import streams_quality
import subprocess

ID = 'C15'
PROPS_MODULE = ['Refine.Props.C15', 'Refine.Props.C15Quality']
STREAMS = [streams_tables.CELL, streams_geom.KERNELS, streams_geom.BARY, streams_geom.RATIO_QUAD, streams_quality.QUALITY]
EXPLANATION = (
    'Proved (Lean 4, exact real arithmetic, over the executable model that is bit-compared with the C on every run): '
    'the generated e2n/f2n tables of all 3-D cell types describe a closed, coherently oriented boundary (each directed '
    'side once, reversed once; each edge in two faces; Euler 2); tet volume is det/6, negated by every transposition and '
    'fixed by even permutations, zero for repeated vertices, additive over a cone point (cone4) and split in ratio by an '
    'edge split; volume is affine in vertex 0 so ref_node_tet_dvol_dnode0 IS the finite difference (tetVol_affine0); '
    'triangle normal/area antisymmetry and permutation invariance; vt_m_v second-order expansion with the coded '
    'derivative as linear term and the chain rule for sqrt_vt_m_v; bary4/bary3/bary3d weights sum to one and reproduce '
    'the query point (bary3d: its orthogonal projection; the un-normalised normal used by the C is proved harmless); the '
    'div_zero branches return what the C returns; edge length in the metric is symmetric in its end points and scales '
    'linearly with metric size above the 1e-12 cut-off. '
    'Tie: tet_vol/xyz_vol/dvol, tri_normal/area/orientation/darea, normalize, vt_m_v + both derivatives, '
    'ratio/ratio_node0/dratio_dnode0 (geometric), interpolate_edge, bary4/3/3d, clip_bary2/3/4 compared bit for bit on '
    'random and adversarial simplices; the quadrature edge length is validated around an uninterpreted ref_matrix_exp_m. '
    'Oracle: exact rational identities (fractions of the hex doubles) with conditioning-scaled tolerances, '
    'finite differences for the derivatives. '
    'Quality (Props/C15Quality, stream quality): ref_node_{tet,tri}_{epic,jac}_quality, the four ..._dquality_dnode0 and '
    'the two dispatching pairs are modelled one by one (Model/Quality.lean) and bit-compared with the C (static ones by '
    'white-box inclusion of ref_node.c) on random/adversarial cells with four different SPD vertex metrics, every even '
    'vertex permutation, both selectors. Proved: the quality returned by every dquality routine equals the plain quality '
    '(status included, all selector values); for the jac tet and the jac triangle: sum e^T M e, n.n and sum |e|^2 are exact '
    'quadratics in node 0 with the coded d_l2 / 2 n.dn / dl2 as linear terms, the volume is affine, and the gradient '
    'returned by the C IS the derivative of the model function of the plain quality (Mathlib HasDerivAt of '
    't -> quality(x0 + t delta) at 0, for every direction, on the smooth branch; the branch conditions are open); for '
    'the epic tet the power/sum-of-squares/quotient combination is the formal derivative given the edge-length '
    'gradients (_partial); epic and jac tet quality and epic and jac triangle quality are invariant '
    'under the 3-cycles (0 1 2) and (1 2 3), hence under all even permutations. Oracle: dquality value == plain value, '
    'derivative vs central difference of the plain quality, even-permutation invariance, an independent pure-Python '
    'reference value (quality one on the metric-regular simplex, q <= 1 for jac, sign vs min_volume).')
ASSUMPTIONS = [
    'IEEE rounding in every REF_DBL kernel is modelled (Float instance, bit-compared), not verified: theorems hold in '
    'exact real arithmetic',
    'quality in (0,1], quality = 1 on the metric-regular simplex and affine invariance (jac/epic quality: exp_m, log_m, '
    'pow 2/3) are NOT proved (oracle only: independent reference value on every generated case); they are tied (stream quality)',
    'derivative exactness is proved for the jac tet and jac triangle paths; for the epic tet only the combination is proved '
    '(given the edge-length gradients), for the epic triangle nothing: there the derivative is tied bit for bit and checked '
    'against finite differences (the edge-length derivative ref_node_dratio_dnode0 is a log-mean with branches, not proved)',
    'ref_node->ratio_method is REF_NODE_RATIO_GEOMETRIC in the quality model and stream (the quadrature variant is not composed '
    'into the quality functions)',
    'ratio_scale is proved for s >= 1 with end-point lengths >= 1e-12: below that cut-off the C returns '
    'MIN(ratio0, ratio1) instead of the logarithmic mean, so exact linear scaling is false there',
    'ref_matrix_exp_m is an uninterpreted input of the quadrature edge length (stream geom_ratio_quad): its output is '
    'taken from the implementation',
]


def WITNESS(ctx, a):
    p = subprocess.run([REFDRV, 'tables', 'witness'], capture_output=True, text=True)
    return [l for l in p.stdout.splitlines() if l.strip()]
