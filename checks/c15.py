from .common import Stream, run_model, REFDRV
from . import streams_tables
from . import streams_geom
from . import streams_quality
import subprocess

ID = 'C15'
PROPS_MODULE = ['Refine.Props.C15', 'Refine.Props.C15Quality']
STREAMS = [streams_tables.CELL, streams_geom.KERNELS, streams_geom.BARY, streams_geom.RATIO_QUAD, streams_quality.QUALITY]
EXPLANATION = (
    'Proved (Lean 4, exact real arithmetic, over the executable model that is bit-compared with the C on every run): '
    'the generated e2n/f2n tables of all 3-D cell types describe a closed, coherently oriented boundary (each directed '
    'side once, reversed once; each edge in two faces; Euler 2); tet volume is det/6, negated by every transposition and '
    'fixed by even permutations, zero for repeated vertices, additive over a cone point (cone4) and split in ratio by an '
    'edge split; volume is affine in vertex 0 so ref_node_tet_dvol_dnode0 IS the finite difference (tetVol_affine0); '
    'triangle normal/area antisymmetry and permutation invariance; vt_m_v second-order expansion with the coded '
    'derivative as linear term and the chain rule for sqrt_vt_m_v; bary4/bary3/bary3d weights sum to one and reproduce '
    'the query point (bary3d: its orthogonal projection; the un-normalised normal used by the C is proved harmless); the '
    'div_zero branches return what the C returns; edge length in the metric is symmetric in its end points and scales '
    'linearly with metric size above the 1e-12 cut-off. '
    'Tie: tet_vol/xyz_vol/dvol, tri_normal/area/orientation/darea, normalize, vt_m_v + both derivatives, '
    'ratio/ratio_node0/dratio_dnode0 (geometric), interpolate_edge, bary4/3/3d, clip_bary2/3/4 compared bit for bit on '
    'random and adversarial simplices; the quadrature edge length is validated around an uninterpreted ref_matrix_exp_m. '
    'Oracle: exact rational identities (fractions of the hex doubles) with conditioning-scaled tolerances, '
    'finite differences for the derivatives.')
ASSUMPTIONS = [
    'IEEE rounding in every REF_DBL kernel is modelled (Float instance, bit-compared), not verified: theorems hold in '
    'exact real arithmetic',
    'quality in (0,1], quality = 1 on the metric-regular simplex and affine invariance (jac/epic quality: exp_m, log_m, '
    'pow 2/3) are NOT proved and not tied by this package',
    'ratio_scale is proved for s >= 1 with end-point lengths >= 1e-12: below that cut-off the C returns '
    'MIN(ratio0, ratio1) instead of the logarithmic mean, so exact linear scaling is false there',
    'ref_matrix_exp_m is an uninterpreted input of the quadrature edge length (stream geom_ratio_quad): its output is '
    'taken from the implementation',
]


def WITNESS(ctx, a):
    p = subprocess.run([REFDRV, 'tables', 'witness'], capture_output=True, text=True)
    return [l for l in p.stdout.splitlines() if l.strip()]
