from .common import Stream, run_model, REFDRV
from . import streams_tables
import subprocess

ID = 'C15'
PROPS_MODULE = 'Refine.Props.C15'
STREAMS = [streams_tables.CELL]
EXPLANATION = ('Proved: the generated e2n/f2n tables of all 3-D cell types describe a closed, coherently oriented '
               'boundary (each directed side once, reversed once; each edge in two faces; Euler 2).')
ASSUMPTIONS = ['IEEE rounding in every REF_DBL kernel is modelled (Float instance, bit-compared), not verified']


def WITNESS(ctx, a):
    p = subprocess.run([REFDRV, 'tables', 'witness'], capture_output=True, text=True)
    return [l for l in p.stdout.splitlines() if l.strip()]
