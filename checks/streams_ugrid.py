"""streams of the ugrid work package (C08 mesh files: binary AFLR3 UGRID; C20 malformed UGRID input).

Harness `h_ugrid` (real refine writers/readers, serial and MPI) vs driver `ugrid` (Lean model Refine.Model.Ugrid).
The oracles use the independent UGRID reader/writer below (class `UFile`, written from the AFLR3 UGRID layout:
7 counts; xyz; tri, quad connectivity; tri, quad surface ids; tet, pyramid, prism, hex connectivity; .lb8 little /
.b8 big endian; `l` / `64` names carry 8-byte integers) and never the Lean model.
"""
import struct
import subprocess

from .common import Stream, REFDRV
from .streams_codec import dbits, fmt

SUFS = ['lb8.ugrid', 'b8.ugrid', 'lb8l.ugrid', 'b8l.ugrid', 'lb8.ugrid64', 'b8.ugrid64']
KINDS = ['tri', 'qua', 'tet', 'pyr', 'pri', 'hex']
PER = {'tri': 3, 'qua': 4, 'tet': 4, 'pyr': 5, 'pri': 6, 'hex': 8}
TAGGED = {'tri', 'qua'}
NPS_READ = [1, 2, 3, 5]
NPS_WRITE = [1, 2, 3]
TAG_BASES = [0, 1, 1000, -7, 2 ** 24 + 5, 20000001, 2 ** 31 - 60, -2 ** 31, 65536]


def fmt_of(suf):
    """(endian, integer format, integer size) from the documented naming"""
    e = '<' if suf.startswith('lb8') else '>'
    fat = suf in ('lb8l.ugrid', 'b8l.ugrid', 'lb8.ugrid64', 'b8.ugrid64')
    return e, ('q' if fat else 'i'), (8 if fat else 4)


def le_hex(h):
    return bytes.fromhex(h)[::-1]


class UFile:
    """independent writer; records the byte ranges of the sections and the offsets of the count / index / tag fields"""

    def __init__(self, suf, nodes, cells):
        """nodes: list of (hx, hy, hz) 16-digit hex bit patterns; cells: dict kind -> rows (0-based nodes [, tag])"""
        e, it, isz = fmt_of(suf)
        self.suf, self.e, self.it, self.isz = suf, e, it, isz
        out = bytearray()
        self.fields = []      # (kind, offset, width)
        self.bounds = [0]
        counts = [len(nodes)] + [len(cells.get(k) or []) for k in KINDS]
        for c in counts:
            self.fields.append(('count', len(out), isz))
            out += struct.pack(e + it, c)
        self.bounds.append(len(out))
        for n in nodes:
            for h in n:
                b = bytes.fromhex(h)          # big-endian print of the bit pattern
                out += b if e == '>' else b[::-1]
        self.bounds.append(len(out))
        for k in ('tri', 'qua'):
            for r in cells.get(k) or []:
                for x in r[:PER[k]]:
                    self.fields.append(('index', len(out), isz))
                    out += struct.pack(e + it, x + 1)
            self.bounds.append(len(out))
        for k in ('tri', 'qua'):
            for r in cells.get(k) or []:
                self.fields.append(('tag', len(out), isz))
                out += struct.pack(e + it, r[PER[k]])
            self.bounds.append(len(out))
        for k in ('tet', 'pyr', 'pri', 'hex'):
            for r in cells.get(k) or []:
                for x in r[:PER[k]]:
                    self.fields.append(('index', len(out), isz))
                    out += struct.pack(e + it, x + 1)
            self.bounds.append(len(out))
        self.data = bytes(out)


def parse_ufile(suf, b):
    """independent reader -> (nodes as hex triples, cells dict kind -> rows); raises ValueError"""
    e, it, isz = fmt_of(suf)
    if len(b) < 7 * isz:
        raise ValueError('short header')
    counts = struct.unpack_from(e + '7' + it, b, 0)
    p = 7 * isz
    if any(c < 0 for c in counts):
        raise ValueError('negative count')
    need = p + 24 * counts[0] + isz * sum(c * (PER[k] + (1 if k in TAGGED else 0)) for c, k in zip(counts[1:], KINDS))
    if need != len(b):
        raise ValueError('file has %d bytes, the counts need %d' % (len(b), need))
    nodes = []
    for _ in range(counts[0]):
        t = []
        for j in range(3):
            raw = b[p:p + 8]
            t.append((raw if e == '>' else raw[::-1]).hex())
            p += 8
        nodes.append(tuple(t))
    cells = {k: [] for k in KINDS}
    for k, n in zip(('tri', 'qua'), counts[1:3]):
        for _ in range(n):
            cells[k].append([x - 1 for x in struct.unpack_from(e + str(PER[k]) + it, b, p)])
            p += PER[k] * isz
    for k, n in zip(('tri', 'qua'), counts[1:3]):
        for r in cells[k]:
            r.append(struct.unpack_from(e + it, b, p)[0])
            p += isz
    for k, n in zip(('tet', 'pyr', 'pri', 'hex'), counts[3:7]):
        for _ in range(n):
            cells[k].append([x - 1 for x in struct.unpack_from(e + str(PER[k]) + it, b, p)])
            p += PER[k] * isz
    return nodes, cells


# ------------------------------------------------------------------------------------------------
# mesh descriptions
# ------------------------------------------------------------------------------------------------
def coord(rng, plain=False):
    """a coordinate bit pattern; plain: finite-or-inf, no NaN, no -0.0 (x + 0.0 == x bitwise)"""
    while True:
        h = dbits(rng, nan=not plain)
        if plain and (h == '8000000000000000' or fmt(h) == 'nan'):
            continue
        return h


def gen_counts(rng, allkinds):
    if allkinds:
        return {k: rng.choice([1, 2, 3, 5, 7]) for k in KINDS}
    c = {k: (rng.choice([1, 2, 4, 9]) if rng.random() < 0.5 else 0) for k in KINDS}
    return c


def gen_mesh(rng, allkinds=True, holes=True, plain=False, distinct=False, dup=False):
    """slots (None = removed slot), cells per kind over slot numbers.  Boundary faces use the node set A, volume cells the
    disjoint set B: no face of a volume cell is a boundary face, so ref_grid_inward_boundary_orientation (outside the
    model) has nothing to flip."""
    ns = rng.choice([10, 12, 17, 24, 40])
    slots = []
    for _ in range(ns):
        if holes and rng.random() < 0.15:
            slots.append(None)
        else:
            slots.append((coord(rng, plain), coord(rng, plain), coord(rng, plain)))
    live = [i for i, s in enumerate(slots) if s is not None]
    while len(live) < 10:
        i = rng.choice([j for j in range(ns) if slots[j] is None])
        slots[i] = (coord(rng, plain), coord(rng, plain), coord(rng, plain))
        live = [j for j, s in enumerate(slots) if s is not None]
    rng.shuffle(live)
    cut = rng.randint(4, len(live) - 4)
    a, b = live[:cut], live[cut:]
    counts = gen_counts(rng, allkinds)
    base = rng.choice(TAG_BASES)
    cells = {}
    for k in KINDS:
        pool = a if k in TAGGED else b
        rows, seen = [], set()
        for _ in range(counts[k]):
            for _try in range(50):
                if len(pool) >= PER[k] and (distinct or rng.random() < 0.8):
                    r = rng.sample(pool, PER[k])
                else:
                    r = [rng.choice(pool) for _ in range(PER[k])]
                if not distinct or frozenset(r) not in seen:
                    break
            if distinct and frozenset(r) in seen:
                continue
            seen.add(frozenset(r))
            if k in TAGGED:
                r = r + [base + rng.randint(0, 6)]
            rows.append(r)
        if dup and rows and rng.random() < 0.5:
            rows.insert(rng.randint(0, len(rows)), list(rng.choice(rows)))     # an exact duplicate
        cells[k] = rows
    return {'slots': slots, 'cells': cells}


def mesh_words(m):
    w = ['n', '%d' % len(m['slots'])]
    for s in m['slots']:
        if s is None:
            w.append('-')
        else:
            w.extend(s)
    for k in KINDS:
        rows = m['cells'][k]
        w += [k, '%d' % len(rows)]
        for r in rows:
            w += ['%d' % x for x in r]
    return w


def parse_mesh_words(w):
    assert w[0] == 'n'
    ns = int(w[1])
    k = 2
    slots = []
    for _ in range(ns):
        if w[k] == '-':
            slots.append(None)
            k += 1
        else:
            slots.append((w[k], w[k + 1], w[k + 2]))
            k += 3
    cells = {}
    for kd in KINDS:
        assert w[k] == kd
        nc = int(w[k + 1])
        k += 2
        sp = PER[kd] + (1 if kd in TAGGED else 0)
        cells[kd] = [[int(x) for x in w[k + sp * i:k + sp * (i + 1)]] for i in range(nc)]
        k += sp * nc
    assert k == len(w)
    return {'slots': slots, 'cells': cells}


def compact(m):
    """what refine holds: compacted vertex numbering"""
    o2n, nodes = {}, []
    for i, s in enumerate(m['slots']):
        if s is not None:
            o2n[i] = len(nodes)
            nodes.append(s)
    cells = {k: [[o2n[x] for x in r[:PER[k]]] + r[PER[k]:] for r in m['cells'][k]] for k in KINDS}
    return nodes, cells


def dump_of(nodes, cells):
    w = ['ok', 'n', '%d' % len(nodes)]
    for n in nodes:
        w += [fmt(h) for h in n]
    for k in KINDS:
        w += [k, '%d' % len(cells[k])]
        for r in cells[k]:
            w += ['%d' % x for x in r]
    return ' '.join(w)


def diff_at(a, b):
    wa, wb = a.split(), b.split()
    for i, (x, y) in enumerate(zip(wa, wb)):
        if x != y:
            return 'token %d: %s vs %s' % (i, x, y)
    return 'length %d vs %d' % (len(wa), len(wb))


def by_tag(rows, per):
    """the documented order of the serial writer: boundary faces by increasing surface id, file order inside one id"""
    return sorted(rows, key=lambda r: r[per])


# ------------------------------------------------------------------------------------------------
# C08: serial writer / reader
# ------------------------------------------------------------------------------------------------
def gen_write(rng, tier):
    ops = []
    n = 3 if tier == 'quick' else 12
    for suf in SUFS:
        for i in range(n):
            m = gen_mesh(rng, allkinds=i != 1)
            ops.append(' '.join(['write', suf] + mesh_words(m)))
        m = gen_mesh(rng, allkinds=True)
        ops.append(' '.join(['rt', suf] + mesh_words(m)))
    # an empty mesh and a mesh of nodes only
    ops.append('write lb8.ugrid n 0 tri 0 qua 0 tet 0 pyr 0 pri 0 hex 0')
    ops.append('write b8l.ugrid n 2 ' + ' '.join(['3ff0000000000000'] * 6) + ' tri 0 qua 0 tet 0 pyr 0 pri 0 hex 0')
    rng.shuffle(ops)
    return ops


def oracle_write(ops, impl):
    """C08: what the C writer wrote, read by the independent parser, is the mesh (boundary faces in surface-id order)"""
    bad = []
    for i, (o, r) in enumerate(zip(ops, impl)):
        w = o.split()
        if w[0] not in ('write', 'rt'):
            continue
        nodes, cells = compact(parse_mesh_words(w[2:]))
        want = {k: (by_tag(cells[k], PER[k]) if k in TAGGED else cells[k]) for k in KINDS}
        out = r.split()
        if not out or out[0] != 'ok':
            bad.append((i, 'C08 %s of a well-formed mesh returned %s' % (w[0], r[:60])))
            continue
        if w[0] == 'rt':
            exp = dump_of(nodes, want)
            if r != exp:
                bad.append((i, 'C08 export+import of %s is not the mesh: %s' % (w[1], diff_at(r, exp))))
            continue
        try:
            gn, gc = parse_ufile(w[1], bytes.fromhex(out[1]) if out[1] != '-' else b'')
        except (ValueError, struct.error) as ex:
            bad.append((i, 'C08 %s written by refine does not parse: %s' % (w[1], ex)))
            continue
        if [tuple(n) for n in gn] != [tuple(n) for n in nodes]:
            bad.append((i, 'C08 %s: vertices in the file differ from the mesh' % w[1]))
        for k in KINDS:
            if gc[k] != want[k]:
                bad.append((i, 'C08 %s: %s cells in the file differ from the mesh (%d written, %d in the mesh)'
                            % (w[1], k, len(gc[k]), len(want[k]))))
                break
    return bad


def gen_read(rng, tier):
    ops = []
    n = 3 if tier == 'quick' else 12
    for suf in SUFS:
        for i in range(n):
            nodes, cells = compact(gen_mesh(rng, allkinds=i != 1, holes=False))
            f = UFile(suf, nodes, cells)
            ops.append('read %s %s' % (suf, f.data.hex()))
        nodes, cells = compact(gen_mesh(rng, allkinds=True, holes=False))
        f = UFile(suf, nodes, cells)
        e, it, isz = fmt_of(suf)
        ops.append('readraw %d %d %s' % (1 if e == '>' else 0, 1 if isz == 8 else 0, f.data.hex()))
    rng.shuffle(ops)
    return ops


def oracle_read(ops, impl):
    """C08: the C reader recovers the mesh the independent writer stored"""
    bad = []
    for i, (o, r) in enumerate(zip(ops, impl)):
        w = o.split()
        if w[0] == 'read':
            suf = w[1]
        elif w[0] == 'readraw':
            suf = {('0', '0'): 'lb8.ugrid', ('1', '0'): 'b8.ugrid', ('0', '1'): 'lb8l.ugrid', ('1', '1'): 'b8l.ugrid'}[(w[1], w[2])]
        else:
            continue
        try:
            nodes, cells = parse_ufile(suf, bytes.fromhex(w[-1]))
        except (ValueError, struct.error):
            continue
        exp = dump_of(nodes, cells)
        if r != exp:
            bad.append((i, 'C08 reader on a valid %s file does not return the stored mesh: %s' % (suf, diff_at(r, exp))))
    return bad


WRITE = Stream('ugrid_write', 'h_ugrid', 'ugrid', gen_write, oracle=oracle_write, whitebox=['ref_import'],
               nontrivial=lambda op, out: True, session='\x00none', timeout=300)
READ = Stream('ugrid_read', 'h_ugrid', 'ugrid', gen_read, oracle=oracle_read, whitebox=['ref_import'],
              nontrivial=lambda op, out: True, session='\x00none', timeout=300)


# ------------------------------------------------------------------------------------------------
# C08: parallel reader (ref_part_by_extension) and parallel writer (ref_gather_by_extension) under MPI
# ------------------------------------------------------------------------------------------------
def gen_part(rng, tier, np):
    """cells of one kind have pairwise different node sets, except for exact copies (same order, same tag):
    ref_cell_add_many_global keeps the first cell of a node set that ARRIVES on a rank, so for two different cells over
    one node set the survivor depends on the rank count (noted in checks/c08.py)"""
    ops = []
    n = 2 if tier == 'quick' else 8
    for suf in SUFS:
        for i in range(n):
            nodes, cells = compact(gen_mesh(rng, allkinds=i != 1, holes=False, distinct=True, dup=i == 0))
            f = UFile(suf, nodes, cells)
            ops.append('part %s %d %s' % (suf, np, f.data.hex()))
    rng.shuffle(ops)
    return ops


def block_owner(N, np):
    """balanced contiguous blocks, the larger blocks first"""
    base, rem = divmod(N, np)
    own = []
    for p in range(np):
        own += [p] * (base + (1 if p < rem else 0))
    return own


def oracle_part(ops, impl):
    """C08/C07: the distributed grid holds every vertex once with its coordinates and every cell (node set) once, with
    its tag, whatever the rank count; each rank stores the cells that touch its block of vertices"""
    bad = []
    for i, (o, r) in enumerate(zip(ops, impl)):
        w = o.split()
        if w[0] != 'part':
            continue
        np = int(w[2])
        try:
            nodes, cells = parse_ufile(w[1], bytes.fromhex(w[3]))
        except (ValueError, struct.error):
            continue
        uniq = {}
        for k in KINDS:
            seen, rows = set(), []
            for c in cells[k]:
                key = frozenset(c[:PER[k]])
                if key in seen:
                    continue
                seen.add(key)
                rows.append(c)
            uniq[k] = rows
        own = block_owner(len(nodes), np)
        wexp = ['ok', 'n', '%d' % len(nodes)]
        for n in nodes:
            wexp += [fmt(h) for h in n]
        for k in KINDS:
            rows = sorted(uniq[k])
            wexp += [k, '%d' % len(rows)]
            for c in rows:
                wexp += ['%d' % x for x in c]
        wexp.append('loc')
        for p in range(np):
            for k in KINDS:
                wexp.append('%d' % sum(1 for c in uniq[k] if any(own[g] == p for g in c[:PER[k]])))
        wexp.append('nloc')
        for p in range(np):
            st = {g for g in range(len(nodes)) if own[g] == p}
            for k in KINDS:
                for c in uniq[k]:
                    if any(own[g] == p for g in c[:PER[k]]):
                        st |= set(c[:PER[k]])
            wexp.append('%d' % len(st))
        exp = ' '.join(wexp)
        if r != exp:
            bad.append((i, 'C08 parallel reader (np=%d) on a valid %s file does not hold the stored mesh: %s'
                        % (np, w[1], diff_at(r, exp))))
    return bad


def gen_gather(rng, tier, np):
    ops = []
    n = 2 if tier == 'quick' else 8
    for suf in SUFS:
        for i in range(n):
            nodes, cells = compact(gen_mesh(rng, allkinds=i != 1, holes=False, plain=True, distinct=True))
            N = len(nodes)
            part = [rng.randrange(np) for _ in range(N)]
            w = ['gather', suf, '%d' % np, '%d' % N]
            for q in range(np):
                mine = {k: [c for c in cells[k] if any(part[g] == q for g in c[:PER[k]])] for k in KINDS}
                for k in KINDS:
                    rng.shuffle(mine[k])
                loc = sorted({g for k in KINDS for c in mine[k] for g in c[:PER[k]]} | {g for g in range(N) if part[g] == q})
                rng.shuffle(loc)
                w += ['|', '%d' % len(loc)]
                for g in loc:
                    w += ['%d' % g, '%d' % part[g]] + list(nodes[g])
                for k in KINDS:
                    w += [k, '%d' % len(mine[k])]
                    for c in mine[k]:
                        w += ['%d' % x for x in c]
            ops.append(' '.join(w))
    rng.shuffle(ops)
    return ops


def parse_gather(w):
    np, N = int(w[2]), int(w[3])
    groups, cur = [], None
    for t in w[4:]:
        if t == '|':
            cur = []
            groups.append(cur)
        else:
            cur.append(t)
    own, cells = {}, {k: set() for k in KINDS}
    for q, g in enumerate(groups):
        k0 = int(g[0])
        for j in range(k0):
            if int(g[2 + 5 * j]) == q:
                own.setdefault(int(g[1 + 5 * j]), []).append(tuple(g[3 + 5 * j:6 + 5 * j]))
        a = 1 + 5 * k0
        for k in KINDS:
            assert g[a] == k
            nc = int(g[a + 1])
            sp = PER[k] + (1 if k in TAGGED else 0)
            for j in range(nc):
                cells[k].add(tuple(int(x) for x in g[a + 2 + sp * j:a + 2 + sp * (j + 1)]))
            a += 2 + sp * nc
    return np, N, own, cells


def oracle_gather(ops, impl):
    """C08/C04: the file written by the parallel writer holds every vertex once, in global order, with its owner's
    coordinates, and every cell once (with its tag), for every rank count"""
    bad = []
    for i, (o, r) in enumerate(zip(ops, impl)):
        w = o.split()
        if w[0] != 'gather':
            continue
        out = r.split()
        if not out or out[0] != 'ok':
            bad.append((i, 'C08 parallel writer returned %s' % r[:60]))
            continue
        np, N, own, cells = parse_gather(w)
        try:
            gn, gc = parse_ufile(w[1], bytes.fromhex(out[1]))
        except (ValueError, struct.error) as ex:
            bad.append((i, 'C08 %s written by the parallel writer (np=%d) does not parse: %s' % (w[1], np, ex)))
            continue
        if [tuple(n) for n in gn] != [own[g][0] for g in range(N)]:
            bad.append((i, 'C08 vertices written by the parallel writer (np=%d) are not the owners\' in global order' % np))
            continue
        for k in KINDS:
            if sorted(tuple(c) for c in gc[k]) != sorted(cells[k]):
                bad.append((i, 'C08 %s cells written by the parallel writer (np=%d) differ from the mesh: %d vs %d'
                            % (k, np, len(gc[k]), len(cells[k]))))
                break
    return bad


def _mpi(name, gen, oracle, nps):
    s = Stream(name, 'h_ugrid', 'ugrid', gen, oracle=oracle, np=nps, whitebox=['ref_import'], timeout=300,
               nontrivial=lambda op, out: True, session='\x00none', batches={'quick': 1, 'thorough': 3})
    s.ops_file = True
    return s


PART = _mpi('ugrid_part', gen_part, oracle_part, NPS_READ)
GATHER = _mpi('ugrid_gather', gen_gather, oracle_gather, NPS_WRITE)


# ------------------------------------------------------------------------------------------------
# C20: malformed UGRID files
# ------------------------------------------------------------------------------------------------
def put(data, off, e, width, value):
    b = bytearray(data)
    b[off:off + width] = (value % (1 << (8 * width))).to_bytes(width, 'little' if e == '<' else 'big')
    return bytes(b)


def mutants(rng, f, nnode, nflip=4, nsub=14):
    out = []
    data, e, isz = f.data, f.e, f.isz
    n = len(data)
    for c in sorted(set(f.bounds + [n])):                         # truncation at each section boundary (and next to it)
        out.append(('trunc@%d' % c, data[:c]))
        if c + 1 < n and rng.random() < 0.4:
            out.append(('trunc@%d+' % c, data[:c + rng.randint(1, isz)]))
        if c > 1 and rng.random() < 0.3:
            out.append(('trunc@%d-' % c, data[:c - rng.randint(1, min(c - 1, isz))]))
    counts = [fl for fl in f.fields if fl[0] == 'count']
    for kind, off, width in counts:                               # every count by {-1, 0, 2^31-1}, some by more
        for val in (-1, 0, 2 ** 31 - 1):
            if rng.random() < 0.6:
                out.append(('count@%d:=%d' % (off, val), put(data, off, e, width, val)))
    for _ in range(nsub):
        kind, off, width = rng.choice(f.fields)
        if kind == 'count':
            val = rng.choice([1, 2, 3, 7, 1000, 10 ** 6, 10 ** 6 + 1, 3 * 10 ** 8, -2 ** 31, 2 ** 32, 2 ** 32 + 1, 2 ** 63 - 1])
        elif kind == 'index':
            val = rng.choice([0, nnode + 1, nnode + 2, nnode, 1, -1, 999, 10 ** 5, 50000001, 2 ** 31 - 1, -2 ** 31, 2 ** 32 + 1,
                              -2 ** 63, 2 ** 63 - 1])
        else:
            val = rng.choice([0, -1, 2 ** 31 - 1, -2 ** 31, 2 ** 31 - 2, 2 ** 40 + 7])
        out.append(('%s@%d:=%d' % (kind, off, val), put(data, off, e, width, val)))
    for _ in range(nflip):
        off = rng.randrange(n)
        b = bytearray(data)
        b[off] ^= 1 << rng.randrange(8)
        out.append(('flip@%d' % off, bytes(b)))
    out.append(('append', data + bytes(rng.getrandbits(8) for _ in range(rng.randint(1, 9)))))
    return out


def all_mutants(rng, tier):
    nfiles = 1 if tier == 'quick' else 5
    res = []
    for suf in SUFS:
        for _ in range(nfiles):
            nodes, cells = compact(gen_mesh(rng, allkinds=rng.random() < 0.7, holes=False, distinct=True))
            f = UFile(suf, nodes, cells)
            res += [(suf, lab, d) for lab, d in mutants(rng, f, len(nodes))]
    return res


def classify(items):
    """ask the Lean model which inputs run into one of the unchecked spots of the faithful reader models"""
    ops = ['classify %s %s' % (suf, d.hex() or '-') for suf, _, d in items]
    p = subprocess.run([REFDRV, 'ugrid'], input='\n'.join(ops) + '\n', capture_output=True, text=True, timeout=900)
    lines = p.stdout.splitlines()
    if p.returncode != 0 or len(lines) != len(ops):
        raise RuntimeError('refdrv ugrid classify failed: %s' % p.stderr[-300:])
    return [tuple(l.split()) for l in lines]


def tag_range(suf, d):
    """spread of the surface ids of a file the independent parser can read (None if it cannot)"""
    try:
        _, cells = parse_ufile(suf, d)
    except (ValueError, struct.error):
        return None
    tags = [c[-1] for k in TAGGED for c in cells[k]]
    if tags and max(tags) % 2 ** 32 == 2 ** 31 - 1:
        return 2 ** 32            # `faceid <= max_faceid` never fails, faceid++ overflows
    return (max(tags) - min(tags)) if tags else 0


def raw_args(suf):
    e, it, isz = fmt_of(suf)
    return '%d %d' % (1 if e == '>' else 0, 1 if isz == 8 else 0)


def gen_c20_mut(rng, tier):
    """exact status + dump of the serial reader (static, no consumers) and of the parallel reader at one rank on every
    mutant on which the faithful model predicts a status"""
    items = all_mutants(rng, tier)
    ops = []
    for (suf, lab, d), (ser, par) in zip(items, classify(items)):
        if ser == 'clean':
            ops.append('readraw %s %s' % (raw_args(suf), d.hex() or '-'))
        if par == 'clean':
            ops.append('partraw %s %s' % (suf, d.hex() or '-'))
    return ops


def gen_c20_robust(rng, tier):
    """mutants on which the model predicts a clean return, through the user-facing entry points"""
    items = all_mutants(rng, tier)
    ops = []
    for (suf, lab, d), (ser, par) in zip(items, classify(items)):
        tr = tag_range(suf, d)
        if ser == 'clean':
            ops.append('robust_import %s %s' % (suf, d.hex() or '-'))
            if tr is None or tr < 10 ** 6:          # the exporter sweeps the surface-id range: see gen_c20_sweep
                ops.append('robust_translate %s %s' % (suf, d.hex() or '-'))
        if par in ('clean', 'orient'):
            ops.append('robust_part %s %s' % (suf, d.hex() or '-'))
    return ops


def oracle_returns(ops, impl):
    """C20, stated directly: the reader came back with a status"""
    bad = []
    for i, (o, r) in enumerate(zip(ops, impl)):
        first = r.split()[0] if r.split() else ''
        if first in ('crash', 'timeout', 'bloat'):
            bad.append((i, 'C20 %s did not return on a %d-byte %s input: %s'
                        % (o.split()[0], len(o.split()[-1]) // 2, o.split()[1], r)))
    return bad


def _witness(suf, nodes, cells):
    return UFile(suf, nodes, cells).data.hex()


Z = '0000000000000000'
ONE = '3ff0000000000000'
NODES4 = [(Z, Z, Z), (ONE, Z, Z), (Z, ONE, Z), (Z, Z, ONE)]
EMPTY = {k: [] for k in KINDS}
# the Lean witnesses of Props/C20Ugrid.lean (`*_counterexample` theorems); checks/c20.py verifies that the property file
# contains exactly these byte strings
WITNESS = {
    # 4 vertices, one tet (1,2,3,6): vertex index 6 of 4 is accepted by the serial reader
    'index_small': _witness('lb8.ugrid', NODES4, dict(EMPTY, tet=[[0, 1, 2, 5]])),
    # the same with vertex 50000001: consumers of the grid index node arrays with it
    'index_crash': _witness('lb8.ugrid', NODES4, dict(EMPTY, tet=[[0, 1, 2, 50000000]])),
    # 4 vertices, one tet (5,1,2,3): the parallel reader indexes its per-rank send counts with ref_part_implicit(4,1,4) = 1
    'part_index': _witness('lb8.ugrid', NODES4, dict(EMPTY, tet=[[4, 0, 1, 2]])),
    # no vertex, one triangle: ref_part_implicit divides by the part size 0
    'part_div0': _witness('lb8.ugrid', [], dict(EMPTY, tri=[[0, 0, 0, 1]])),
    # two triangles with surface ids 0 and 2^31-2: ref_export_bin_ugrid sweeps the id range four times
    'sweep': _witness('lb8.ugrid', NODES4, dict(EMPTY, tri=[[0, 1, 2, 0], [1, 2, 3, 2 ** 31 - 2]])),
}
# 4 vertices, one tet, but 2^31-1 tets declared: `size_per * chunk` overflows `int` in ref_part_bin_ugrid_cell
WITNESS['count_int'] = put(bytes.fromhex(_witness('lb8.ugrid', NODES4, dict(EMPTY, tet=[[0, 1, 2, 3]]))), 12, '<', 4,
                           2 ** 31 - 1).hex()
# 64-bit file declaring 2^63-1 vertices: `nnode + nproc` overflows `long` in ref_part_first (ref_part_node)
WITNESS['count_long'] = put(bytes.fromhex(_witness('lb8l.ugrid', NODES4, dict(EMPTY, tet=[[0, 1, 2, 3]]))), 0, '<', 8,
                            2 ** 63 - 1).hex()


def ascii_ugrid(nodes, cells):
    """a tiny ASCII AFLR3 .ugrid: counts, xyz, tri, quad, tri ids, quad ids, tet, pyramid, prism, hex (1-based)"""
    lines = [' '.join('%d' % n for n in [len(nodes)] + [len(cells.get(k) or []) for k in KINDS])]
    lines += [' '.join('%.17g' % v for v in n) for n in nodes]
    for k in ('tri', 'qua'):
        lines += [' '.join('%d' % (x + 1) for x in c[:PER[k]]) for c in cells.get(k) or []]
    for k in ('tri', 'qua'):
        lines += ['%d' % c[PER[k]] for c in cells.get(k) or []]
    for k in ('tet', 'pyr', 'pri', 'hex'):
        lines += [' '.join('%d' % (x + 1) for x in c[:PER[k]]) for c in cells.get(k) or []]
    return ('\n'.join(lines) + '\n').encode()


def ascii_verdict(text):
    """independent reading of an ASCII .ugrid: `ok` iff it has all its numbers and every vertex index is in 1..nnode"""
    try:
        t = text.decode().split()
        cnt = [int(x) for x in t[:7]]
        p = 7 + 3 * cnt[0]
        [float(x) for x in t[7:p]]
        for k, n in zip(('tri', 'qua'), cnt[1:3]):
            for _ in range(n * PER[k]):
                if not 1 <= int(t[p]) <= cnt[0]:
                    return 'refused'
                p += 1
        for n in cnt[1:3]:
            for _ in range(n):
                int(t[p])
                p += 1
        for k, n in zip(('tet', 'pyr', 'pri', 'hex'), cnt[3:7]):
            for _ in range(n * PER[k]):
                if not 1 <= int(t[p]) <= cnt[0]:
                    return 'refused'
                p += 1
        return 'ok'
    except (ValueError, IndexError):
        return 'refused'


XYZ4 = [(0.0, 0.0, 0.0), (1.0, 0.0, 0.0), (0.0, 1.0, 0.0), (0.0, 0.0, 1.0)]
ASCII_WITNESS = {
    'ok': ascii_ugrid(XYZ4, dict(EMPTY, tri=[[0, 1, 2, 7]], tet=[[0, 1, 2, 3]])),
    'index_zero': ascii_ugrid(XYZ4, dict(EMPTY, tet=[[0, 1, 2, -1]])),          # vertex index 0 in a tet
    'index_above': ascii_ugrid(XYZ4, dict(EMPTY, tet=[[0, 1, 2, 4]])),          # vertex index nnode+1 = 5
    'index_huge': ascii_ugrid(XYZ4, dict(EMPTY, tet=[[0, 1, 2, 50000000]])),
    'tri_above': ascii_ugrid(XYZ4, dict(EMPTY, tri=[[0, 1, 4, 1]])),
}


def gen_c20_index(rng, tier):
    """regression guard of finding ugrid-vertex-index-unchecked (repaired by /repo commit 6682479): the witness files must
    be REFUSED with REF_INVALID by the static serial reader and by the parallel reader, the user-level entry points must
    return, and the ASCII reader must refuse vertex index 0 / nnode+1; thorough: also the index mutants"""
    ops = []
    for w in ('index_crash', 'index_small', 'part_index', 'part_div0'):
        ops += ['readraw 0 0 ' + WITNESS[w], 'partraw lb8.ugrid ' + WITNESS[w], 'robust_translate lb8.ugrid ' + WITNESS[w],
                'robust_part lb8.ugrid ' + WITNESS[w]]
    for name in sorted(ASCII_WITNESS):
        ops.append('ascii_import %s %s' % (ascii_verdict(ASCII_WITNESS[name]), ASCII_WITNESS[name].hex()))
    if tier == 'quick':     # quick tier: the witnesses only, so the replay is the same for every seed
        return ops
    for _ in range(30):
        nodes = [XYZ4[i % 4] for i in range(rng.randint(1, 6))]
        cells = dict(EMPTY)
        # boundary faces only or volume cells only: the orientation step after the reader has nothing to match
        for k in (['tri', 'qua'] if rng.random() < 0.4 else rng.sample(['tet', 'pyr', 'pri', 'hex'], 2)):
            cells[k] = [[rng.choice([0, len(nodes) - 1, len(nodes), -1, 10 ** 6, rng.randrange(len(nodes))])
                         for _ in range(PER[k])] + ([3] if k in TAGGED else []) for _ in range(rng.randint(1, 3))]
        text = ascii_ugrid(nodes, cells)
        ops.append('ascii_import %s %s' % (ascii_verdict(text), text.hex()))
    items = all_mutants(rng, tier)
    for (suf, lab, d), (ser, par) in zip(items, classify(items)):
        if lab.startswith('index@') and ser in ('clean', 'big', 'ub'):
            ops.append('robust_translate %s %s' % (suf, d.hex() or '-'))
        if lab.startswith('index@') and par in ('clean', 'orient', 'hazard'):
            ops.append('robust_part %s %s' % (suf, d.hex() or '-'))
    return ops[:160]


def oracle_index(ops, impl):
    """C20, stated directly on the implementation's output: every reader comes back; the witness files of the finding and
    every ASCII file with a vertex index outside 1..nnode are refused (non-zero status), the valid ASCII file is accepted"""
    bad = oracle_returns(ops, impl)
    wit = {WITNESS[w] for w in ('index_crash', 'index_small', 'part_index', 'part_div0')}
    for i, (o, r) in enumerate(zip(ops, impl)):
        w = o.split()
        first = r.split()[0] if r.split() else ''
        if w[0] in ('readraw', 'partraw') and w[-1] in wit and first in ('ok',):
            bad.append((i, 'C20 %s ACCEPTED a file with a vertex index outside 1..nnode (%d bytes)' % (w[0], len(w[-1]) // 2)))
        if w[0] == 'ascii_import':
            want = ascii_verdict(bytes.fromhex(w[2]))
            if first in ('crash', 'timeout'):
                bad.append((i, 'C20 ASCII .ugrid reader did not return on a %d-byte input: %s' % (len(w[2]) // 2, r)))
            elif first != want:
                bad.append((i, 'C20 ASCII .ugrid reader: %s, but the file is %s by its own numbers (%d bytes)'
                            % (first, 'valid' if want == 'ok' else 'malformed (vertex index outside 1..nnode or short)',
                               len(w[2]) // 2)))
    return bad


def gen_c20_count(rng, tier):
    """inputs whose declared counts overflow the parallel reader's `int` / `long` arithmetic before any byte is checked"""
    ops = ['robust_part lb8.ugrid ' + WITNESS['count_int'], 'robust_part lb8l.ugrid ' + WITNESS['count_long']]
    if tier == 'quick':
        return ops
    items = all_mutants(rng, tier)
    for (suf, lab, d), (ser, par) in zip(items, classify(items)):
        if par == 'count':
            ops.append('robust_part %s %s' % (suf, d.hex() or '-'))
    return ops[:40]


def gen_c20_sweep(rng, tier):
    """a valid small file whose surface ids are far apart: the serial writer's id sweep"""
    return ['robust_translate lb8.ugrid ' + WITNESS['sweep']]


C20_MUT = Stream('c20_ugrid_mut', 'h_ugrid', 'ugrid', gen_c20_mut, oracle=oracle_returns, whitebox=['ref_import'],
                 nontrivial=lambda op, out: True, session='\x00none', harness_args=['--limit', '10'])
C20_ROBUST = Stream('c20_ugrid_robust', 'h_ugrid', 'ugrid', gen_c20_robust, oracle=oracle_returns, whitebox=['ref_import'],
                    nontrivial=lambda op, out: True, session='\x00none', harness_args=['--limit', '10'])
C20_INDEX = Stream('c20_ugrid_index', 'h_ugrid', 'ugrid', gen_c20_index, oracle=oracle_index, whitebox=['ref_import'],
                   nontrivial=lambda op, out: True, session='\x00none', harness_args=['--limit', '10'],
                   site='ugrid-vertex-index-unchecked')
C20_COUNT = Stream('c20_ugrid_count', 'h_ugrid', 'ugrid', gen_c20_count, oracle=oracle_returns, whitebox=['ref_import'],
                   nontrivial=lambda op, out: True, session='\x00none', harness_args=['--limit', '10'],
                   site='ugrid-part-count-overflow')
C20_SWEEP = Stream('c20_ugrid_sweep', 'h_ugrid', 'ugrid', gen_c20_sweep, oracle=oracle_returns, whitebox=['ref_import'],
                   nontrivial=lambda op, out: True, session='\x00none', harness_args=['--limit', '10'],
                   site='ugrid-export-faceid-range-sweep')
