"""Independent reader/writer for libMeshb .meshb / .solb files, written from the published layout
(GMF binary: code, version, [keyword, next_position, payload]*), NOT from refine's sources.
Used by the end-to-end CLI streams: input files are produced here, refine's outputs are parsed here.
"""
import os
import struct

KW = {'dim': 3, 'vert': 4, 'edg': 5, 'tri': 6, 'qua': 7, 'tet': 8, 'pri': 9, 'hex': 10, 'pyr': 49,
      'end': 54, 'sol_at_vert': 62}
NODE_PER = {'edg': 2, 'tri': 3, 'qua': 4, 'tet': 4, 'pri': 6, 'hex': 8, 'pyr': 5}
KWNAME = {v: k for k, v in KW.items()}


class MeshbError(Exception):
    pass


def _widths(version):
    pos = 'q' if version >= 3 else 'i'
    integer = 'q' if version >= 4 else 'i'
    return pos, integer


def write_meshb(path, dim, verts, cells, version=2, vert_ref=1):
    """verts: list of tuples (dim floats); cells: dict name -> list of tuples (node ids 0-based..., ref id)"""
    pos, it = _widths(version)
    psz, isz = struct.calcsize('<' + pos), struct.calcsize('<' + it)
    out = bytearray()
    out += struct.pack('<ii', 1, version)

    def kw(code, payload):
        nxt = len(out) + 4 + psz + len(payload)
        out.extend(struct.pack('<i', code))
        out.extend(struct.pack('<' + pos, nxt))
        out.extend(payload)

    kw(KW['dim'], struct.pack('<i', dim))
    pl = bytearray(struct.pack('<' + it, len(verts)))
    for v in verts:
        pl += struct.pack('<%dd' % dim, *v[:dim])
        pl += struct.pack('<' + it, vert_ref)
    kw(KW['vert'], bytes(pl))
    for name in ('edg', 'tri', 'qua', 'tet', 'pyr', 'pri', 'hex'):
        cs = cells.get(name) or []
        if not cs:
            continue
        pl = bytearray(struct.pack('<' + it, len(cs)))
        for c in cs:
            nodes = list(c[:-1])
            if name == 'pyr':  # libMeshb pyramid: base 0-1-2-3, apex 4 ; refine: n0 n3 n4 n1 n2 on export
                nodes = [nodes[0], nodes[3], nodes[4], nodes[1], nodes[2]]
            pl += struct.pack('<%d%s' % (len(nodes) + 1, it), *([n + 1 for n in nodes] + [c[-1]]))
        kw(KW[name], bytes(pl))
    out += struct.pack('<i', KW['end']) + struct.pack('<' + pos, 0)
    with open(path, 'wb') as f:
        f.write(out)


def read_meshb(path):
    b = open(path, 'rb').read()
    code, version = struct.unpack_from('<ii', b, 0)
    if code != 1:
        raise MeshbError('code %d' % code)
    pos, it = _widths(version)
    psz, isz = struct.calcsize('<' + pos), struct.calcsize('<' + it)
    p = 8
    res = {'version': version, 'dim': None, 'verts': [], 'cells': {}}
    seen = 0
    while 0 < p < len(b):
        seen += 1
        if seen > 1000:
            raise MeshbError('keyword loop')
        code, = struct.unpack_from('<i', b, p)
        nxt, = struct.unpack_from('<' + pos, b, p + 4)
        q = p + 4 + psz
        if code == KW['dim']:
            res['dim'], = struct.unpack_from('<i', b, q)
        elif code == KW['vert']:
            n, = struct.unpack_from('<' + it, b, q)
            q += isz
            d = res['dim']
            for _ in range(n):
                xyz = struct.unpack_from('<%dd' % d, b, q)
                q += 8 * d
                q += isz
                res['verts'].append(tuple(xyz))
        elif code in KWNAME and KWNAME[code] in NODE_PER:
            name = KWNAME[code]
            n, = struct.unpack_from('<' + it, b, q)
            q += isz
            k = NODE_PER[name]
            lst = []
            for _ in range(n):
                vals = struct.unpack_from('<%d%s' % (k + 1, it), b, q)
                q += isz * (k + 1)
                nodes = [v - 1 for v in vals[:k]]
                if name == 'pyr':
                    nodes = [nodes[0], nodes[3], nodes[4], nodes[1], nodes[2]]
                lst.append(tuple(nodes) + (vals[k],))
            res['cells'][name] = lst
        elif code == KW['end']:
            break
        if nxt == 0:
            break
        if nxt <= p:
            raise MeshbError('non-increasing next position')
        p = nxt
    return res


def write_solb(path, dim, values, types, version=2):
    """values: list (per vertex) of lists of ldim doubles; types: list of 1 (scalar) / 2 (vector) / 3 (sym matrix)"""
    pos, it = _widths(version)
    psz = struct.calcsize('<' + pos)
    out = bytearray(struct.pack('<ii', 1, version))

    def kw(code, payload):
        nxt = len(out) + 4 + psz + len(payload)
        out.extend(struct.pack('<i', code))
        out.extend(struct.pack('<' + pos, nxt))
        out.extend(payload)

    kw(KW['dim'], struct.pack('<i', dim))
    pl = bytearray(struct.pack('<' + it, len(values)))
    pl += struct.pack('<i', len(types))
    pl += struct.pack('<%di' % len(types), *types)
    for row in values:
        pl += struct.pack('<%dd' % len(row), *row)
    kw(KW['sol_at_vert'], bytes(pl))
    out += struct.pack('<i', KW['end']) + struct.pack('<' + pos, 0)
    with open(path, 'wb') as f:
        f.write(out)


def type_len(t, dim):
    return {1: 1, 2: dim, 3: dim * (dim + 1) // 2}[t]


def read_solb(path):
    b = open(path, 'rb').read()
    code, version = struct.unpack_from('<ii', b, 0)
    if code != 1:
        raise MeshbError('code %d' % code)
    pos, it = _widths(version)
    psz, isz = struct.calcsize('<' + pos), struct.calcsize('<' + it)
    p = 8
    dim = None
    seen = 0
    while 0 < p < len(b):
        seen += 1
        if seen > 1000:
            raise MeshbError('keyword loop')
        code, = struct.unpack_from('<i', b, p)
        nxt, = struct.unpack_from('<' + pos, b, p + 4)
        q = p + 4 + psz
        if code == KW['dim']:
            dim, = struct.unpack_from('<i', b, q)
        elif code == KW['sol_at_vert']:
            n, = struct.unpack_from('<' + it, b, q)
            q += isz
            nt, = struct.unpack_from('<i', b, q)
            q += 4
            types = struct.unpack_from('<%di' % nt, b, q)
            q += 4 * nt
            ldim = sum(type_len(t, dim) for t in types)
            vals = []
            for _ in range(n):
                vals.append(list(struct.unpack_from('<%dd' % ldim, b, q)))
                q += 8 * ldim
            return {'version': version, 'dim': dim, 'types': list(types), 'ldim': ldim, 'values': vals}
        if nxt == 0 or code == KW['end']:
            break
        if nxt <= p:
            raise MeshbError('non-increasing next position')
        p = nxt
    raise MeshbError('no SolAtVertices')


# ---------------------------------------------------------------- AFLR3 UGRID (binary stream flavours)
UGRID_ORDER = [('tri', 3), ('qua', 4)]
UGRID_VOL = [('tet', 4), ('pyr', 5), ('pri', 6), ('hex', 8)]


def ugrid_flavour(path):
    """-> (endian, int_fmt) from the file name, as documented for AFLR3: .lb8 little, .b8 big; l / 64 suffix = 64-bit ints"""
    name = os.path.basename(path)
    if name.endswith('.lb8.ugrid'):
        return '<', 'i'
    if name.endswith('.b8.ugrid'):
        return '>', 'i'
    if name.endswith('.lb8l.ugrid') or name.endswith('.lb8.ugrid64'):
        return '<', 'q'
    if name.endswith('.b8l.ugrid') or name.endswith('.b8.ugrid64'):
        return '>', 'q'
    raise MeshbError('unknown ugrid flavour ' + name)


def write_ugrid(path, verts, cells):
    """cells: dict name -> list of tuples (0-based nodes..., id) ; id ignored for volume cells"""
    e, it = ugrid_flavour(path)
    out = bytearray()
    counts = [len(verts)] + [len(cells.get(n) or []) for n, _ in UGRID_ORDER] + [len(cells.get(n) or []) for n, _ in UGRID_VOL]
    out += struct.pack(e + '7' + it, *counts)
    for v in verts:
        out += struct.pack(e + '3d', *(tuple(v) + (0.0,) * (3 - len(v))))
    for name, k in UGRID_ORDER:
        for c in cells.get(name) or []:
            out += struct.pack(e + str(k) + it, *[n + 1 for n in c[:k]])
    for name, k in UGRID_ORDER:
        for c in cells.get(name) or []:
            out += struct.pack(e + it, c[k])
    for name, k in UGRID_VOL:
        for c in cells.get(name) or []:
            out += struct.pack(e + str(k) + it, *[n + 1 for n in c[:k]])
    with open(path, 'wb') as f:
        f.write(out)


def read_ugrid(path):
    e, it = ugrid_flavour(path)
    isz = struct.calcsize(it)
    b = open(path, 'rb').read()
    counts = struct.unpack_from(e + '7' + it, b, 0)
    p = 7 * isz
    nnode = counts[0]
    res = {'dim': 3, 'verts': [], 'cells': {}}
    for _ in range(nnode):
        res['verts'].append(struct.unpack_from(e + '3d', b, p))
        p += 24
    surf = {}
    for (name, k), n in zip(UGRID_ORDER, counts[1:3]):
        lst = []
        for _ in range(n):
            lst.append([x - 1 for x in struct.unpack_from(e + str(k) + it, b, p)])
            p += k * isz
        surf[name] = lst
    for (name, k), n in zip(UGRID_ORDER, counts[1:3]):
        for c in surf[name]:
            c.append(struct.unpack_from(e + it, b, p)[0])
            p += isz
        if surf[name]:
            res['cells'][name] = [tuple(c) for c in surf[name]]
    for (name, k), n in zip(UGRID_VOL, counts[3:7]):
        lst = []
        for _ in range(n):
            lst.append(tuple(x - 1 for x in struct.unpack_from(e + str(k) + it, b, p)) + (0,))
            p += k * isz
        if lst:
            res['cells'][name] = lst
    if p != len(b):
        raise MeshbError('ugrid has %d trailing bytes' % (len(b) - p))
    return res


def read_mesh(path):
    return read_meshb(path) if path.endswith('.meshb') else read_ugrid(path)


def write_mesh(path, dim, verts, cells, version=2):
    if path.endswith('.meshb'):
        write_meshb(path, dim, verts, cells, version=version)
    else:
        write_ugrid(path, verts, cells)
