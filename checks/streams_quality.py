"""streams for cell quality in the metric and its node-0 derivative (harness h_quality / driver quality): C15.

Generator: random and adversarial tets / tris (aspect up to 1e6, near flat, inverted, repeated vertices, metric-regular)
with FOUR DIFFERENT SPD vertex metrics (anisotropic, rotated, pairwise different; a minority share re-uses one metric
to reach the r == 1 edge-length branch and the quality-one case), every even permutation of the vertex order (the
smoother passes the smoothed node first), both REF_NODE_EPIC_QUALITY and REF_NODE_JAC_QUALITY (and an unknown
selector), several min_volume values, plus six probe lines per checked line (node 0 moved by +-h along each axis).

Oracle (the property stated directly on the implementation's output, independent of the Lean model):
  * the quality returned by each *_dquality_dnode0 equals the plain quality (1e-12 relative), the dispatching functions
    return what the selected static function returns;
  * the analytic derivative agrees with the central finite difference of the PLAIN quality (probe lines);
  * the quality is the same for every even permutation of the vertices;
  * an independent reference (pure Python, Jacobi eigen solver for log/exp of the metrics) reproduces the value: this
    covers quality == 1 on the metric-regular simplex, q <= 1 (jac), sign <=> volume <= min_volume, and -- because the
    reference formula is manifestly invariant -- affine invariance on the cases with one metric."""
import math
from fractions import Fraction as Fr

from .common import Stream
from .streams_geom import H, hx, unhx, rot, apply, spd, sub, cross, dot, vol_exact, N

EPS = 2.0 ** -52
C36 = 24.9610058766228
EVEN4 = [p for p in __import__('itertools').permutations(range(4))
         if sum(1 for i in range(4) for j in range(i + 1, 4) if p[i] > p[j]) % 2 == 0]
EVEN3 = [(0, 1, 2), (1, 2, 0), (2, 0, 1)]
MINVOL = 1.0e-15


# ---------------------------------------------------------------------------------------------- small linear algebra
def sym(m):
    return [[m[0], m[1], m[2]], [m[1], m[3], m[4]], [m[2], m[4], m[5]]]


def upper(a):
    return [a[0][0], a[0][1], a[0][2], a[1][1], a[1][2], a[2][2]]


def matmul(a, b):
    return [[sum(a[i][k] * b[k][j] for k in range(3)) for j in range(3)] for i in range(3)]


def transpose(a):
    return [[a[j][i] for j in range(3)] for i in range(3)]


def det_m(m):
    return (m[0] * (m[3] * m[5] - m[4] * m[4]) - m[1] * (m[1] * m[5] - m[4] * m[2]) +
            m[2] * (m[1] * m[4] - m[3] * m[2]))


def vtmv(m, v):
    return (v[0] * (m[0] * v[0] + m[1] * v[1] + m[2] * v[2]) + v[1] * (m[1] * v[0] + m[3] * v[1] + m[4] * v[2]) +
            v[2] * (m[2] * v[0] + m[4] * v[1] + m[5] * v[2]))


def jacobi_eig(m):
    """cyclic Jacobi for a symmetric 3x3 (upper triangle in) -> (eigenvalues, eigenvector columns)"""
    a = sym(m)
    v = [[1.0, 0.0, 0.0], [0.0, 1.0, 0.0], [0.0, 0.0, 1.0]]
    for _ in range(60):
        off = abs(a[0][1]) + abs(a[0][2]) + abs(a[1][2])
        if off <= 1e-300 or off <= 1e-18 * (abs(a[0][0]) + abs(a[1][1]) + abs(a[2][2])):
            break
        for p, q in ((0, 1), (0, 2), (1, 2)):
            if a[p][q] == 0.0:
                continue
            theta = (a[q][q] - a[p][p]) / (2.0 * a[p][q])
            t = (1.0 if theta >= 0 else -1.0) / (abs(theta) + math.sqrt(theta * theta + 1.0))
            c = 1.0 / math.sqrt(t * t + 1.0)
            s = t * c
            for k in range(3):
                akp, akq = a[k][p], a[k][q]
                a[k][p], a[k][q] = c * akp - s * akq, s * akp + c * akq
            for k in range(3):
                apk, aqk = a[p][k], a[q][k]
                a[p][k], a[q][k] = c * apk - s * aqk, s * apk + c * aqk
            for k in range(3):
                vkp, vkq = v[k][p], v[k][q]
                v[k][p], v[k][q] = c * vkp - s * vkq, s * vkp + c * vkq
    return [a[0][0], a[1][1], a[2][2]], v


def mat_fun(m, f):
    w, v = jacobi_eig(m)
    fw = [f(x) for x in w]
    a = [[sum(v[i][k] * fw[k] * v[j][k] for k in range(3)) for j in range(3)] for i in range(3)]
    return upper(a)


def det_eig(m):
    """determinant as the product of the eigenvalues (no cancellation for an SPD matrix)"""
    w, _ = jacobi_eig(m)
    return w[0] * w[1] * w[2]


def inv_sqrt_full(m):
    w, v = jacobi_eig(m)
    return [[sum(v[i][k] * (1.0 / math.sqrt(w[k])) * v[j][k] for k in range(3)) for j in range(3)] for i in range(3)]


def is_spd(m):
    if not all(math.isfinite(x) for x in m):
        return False
    return m[0] > 0 and m[0] * m[3] - m[1] * m[1] > 0 and det_m(m) > 0


def cond_of(m):
    w, _ = jacobi_eig(m)
    lo, hi = min(w), max(w)
    return hi / lo if lo > 0 else float('inf')


# ---------------------------------------------------------------------------------------------- reference quality
def log_mean(a, b):
    """edge length from the two end-point lengths (Alauzet), as a direct formula"""
    if a < 1e-12 or b < 1e-12:
        return min(a, b)
    lo, hi = min(a, b), max(a, b)
    r = lo / hi
    if abs(r - 1.0) < 1e-8:
        return 0.5 * (a + b)
    return lo * (r - 1.0) / (r * math.log(r))


def edge_len(x0, x1, m0, m1):
    e = sub(x1, x0)
    a0, a1 = vtmv(m0, e), vtmv(m1, e)
    if a0 < 0 or a1 < 0:
        return float('nan')
    return log_mean(math.sqrt(a0), math.sqrt(a1))


def vol_f(p):
    return float(vol_exact(*[[Fr(x) for x in q] for q in p]))


def ref_tet(sel, mv, xs, ms):
    """-> reference quality, or None when the reference does not apply"""
    vol = vol_f(xs)
    if vol <= mv:
        return vol - mv
    if sel == 'jac':
        ls = [mat_fun(m, math.log) for m in ms]
        mavg = mat_fun([sum(l[k] for l in ls) / 4.0 for k in range(6)], math.exp)
        l2 = sum(vtmv(mavg, sub(xs[j], xs[i])) for i in range(4) for j in range(i + 1, 4))
        d = det_eig(mavg)
    else:
        l2 = sum(edge_len(xs[i], xs[j], ms[i], ms[j]) ** 2 for i in range(4) for j in range(i + 1, 4))
        d = min(det_eig(m) for m in ms)
    if not (l2 > 0) or not (d > 0) or not (vol > 0):
        return None     # (a negative min_volume lets a non-positive volume through the guard above: no reference then)
    return C36 * (math.sqrt(d) * vol) ** (2.0 / 3.0) / l2


def area_f(p):
    n = cross(sub(p[1], p[0]), sub(p[2], p[0]))
    return 0.5 * math.sqrt(dot(n, n))


def ref_tri(sel, xs, ms):
    if sel == 'jac':
        ls = [mat_fun(m, math.log) for m in ms]
        mavg = mat_fun([sum(l[k] for l in ls) / 3.0 for k in range(6)], math.exp)
        e1, e2 = sub(xs[1], xs[0]), sub(xs[2], xs[0])
        # area in the metric: |S e1 x S e2| = det(S) |S^-1 (e1 x e2)| with S = M^(1/2)  (no Gram-determinant cancellation)
        nrm = cross(e1, e2)
        minv = mat_fun(mavg, lambda x: 1.0 / x)
        a2 = det_eig(mavg) * vtmv(minv, nrm)
        l2 = vtmv(mavg, e1) + vtmv(mavg, e2) + vtmv(mavg, sub(xs[2], xs[1]))
        if not (l2 > 0) or a2 < 0:
            return None
        return 4.0 * math.sqrt(3.0) * 0.5 * math.sqrt(a2) / l2
    l2 = sum(edge_len(xs[i], xs[j], ms[i], ms[j]) ** 2 for i in range(3) for j in range(i + 1, 3))
    d = min(det_eig(m) for m in ms)
    if not (l2 > 0) or not (d > 0):
        return None
    return 4.0 / math.sqrt(3.0) * 3 * d ** (1.0 / 3.0) * area_f(xs) / l2


# ---------------------------------------------------------------------------------------------- generators
def near_metric(rng, base, spread):
    """an SPD metric near `base`: congruence with a random near-identity matrix, scaled"""
    r = rot(rng)
    g = [[(1.0 if i == j else 0.0) + spread * rng.uniform(-1, 1) * r[i][j] for j in range(3)] for i in range(3)]
    a = matmul(matmul(transpose(g), sym(base)), g)
    a = [[0.5 * (a[i][j] + a[j][i]) for j in range(3)] for i in range(3)]
    s = math.exp(spread * rng.uniform(-1, 1))
    return [s * x for x in upper(a)]


def gen_metrics(rng, n):
    """-> (kind, n metrics)"""
    t = rng.random()
    if t < 0.45:  # anisotropic base (condition up to 1e6), four different nearby metrics
        base = spd(rng, rng.choice([2, 4, 6]))
        return 'near', [near_metric(rng, base, rng.choice([0.05, 0.3, 0.8])) for _ in range(n)]
    if t < 0.7:  # unrelated metrics
        return 'wild', [spd(rng, rng.choice([0, 2, 4])) for _ in range(n)]
    if t < 0.82:  # one metric everywhere (r == 1 branch, quality-one case, affine invariance)
        m = spd(rng, rng.choice([0, 2, 4]))
        return 'uniform', [list(m) for _ in range(n)]
    if t < 0.88:  # isotropic, different sizes
        return 'iso', [[h, 0.0, 0.0, h, 0.0, h] for h in [10.0 ** rng.uniform(-3, 3) for _ in range(n)]]
    if t < 0.93:  # two vertices share a metric
        ms = [spd(rng, 2) for _ in range(n)]
        ms[rng.randrange(n)] = list(ms[rng.randrange(n)])
        return 'shared', ms
    if t < 0.97:  # not SPD: indefinite / singular / zero
        ms = [spd(rng, 2) for _ in range(n)]
        k = rng.randrange(n)
        ms[k] = rng.choice([[0.0] * 6, [float(rng.randint(-3, 3)) for _ in range(6)], [1.0, 0, 0, 1.0, 0, 0.0],
                            [-x for x in ms[k]]])
        return 'notspd', ms
    ms = [spd(rng, 2) for _ in range(n)]  # non-finite entry
    ms[rng.randrange(n)][rng.randrange(6)] = rng.choice([float('inf'), float('nan'), 1e308])
    return 'nonfinite', ms


REG_TET = [[1.0, 1.0, 1.0], [1.0, -1.0, -1.0], [-1.0, 1.0, -1.0], [-1.0, -1.0, 1.0]]
REG_TRI = [[0.0, 0.0, 0.0], [1.0, 0.0, 0.0], [0.5, math.sqrt(3.0) / 2.0, 0.0]]


def orient(pts, positive=True):
    if (vol_f(pts) > 0) != positive:
        pts[2], pts[3] = pts[3], pts[2]
    return pts


def gen_tet_pts(rng, ms):
    """-> (kind, points); most kinds are scaled to the size the first metric asks for"""
    t = rng.random()
    a = inv_sqrt_full(ms[0]) if is_spd(ms[0]) and cond_of(ms[0]) < 1e13 else [[1.0, 0, 0], [0, 1.0, 0], [0, 0, 1.0]]
    if t < 0.3:  # random shape in metric space
        base = [[rng.uniform(-1, 1) for _ in range(3)] for _ in range(4)]
        pts = orient([apply(a, p) for p in base])
        kind = 'random'
    elif t < 0.45:  # unit-ish in the metric: image of the regular tet (+ jitter)
        j = rng.choice([0.0, 0.0, 0.1, 0.4])
        base = [[c + j * rng.uniform(-1, 1) for c in p] for p in REG_TET]
        r = rot(rng)
        off = [rng.uniform(-3, 3) for _ in range(3)] if rng.random() < 0.5 else [0.0, 0.0, 0.0]
        pts = orient([apply(a, apply(r, p, 1.0 / math.sqrt(8.0)), 1.0, off) for p in base])
        kind = 'regular' if j == 0.0 else 'jitter'
    elif t < 0.6:  # aspect up to 1e6 in physical space
        asp = 10.0 ** rng.uniform(0, 6)
        base = [[0, 0, 0], [1, 0, 0], [0.5, 0.8, 0], [0.4, 0.3, 0.9 / asp]]
        r = rot(rng)
        s = 10.0 ** rng.uniform(-3, 3)
        pts = orient([apply(r, p, s) for p in base])
        kind = 'aspect'
    elif t < 0.72:  # near flat: fourth point eps above / below the plane
        p0, p1, p2 = [[rng.uniform(-1, 1) for _ in range(3)] for _ in range(3)]
        n = cross(sub(p1, p0), sub(p2, p0))
        nn = math.sqrt(dot(n, n)) or 1.0
        u, v = rng.random(), rng.random()
        e = 10.0 ** rng.uniform(-15, -3) * rng.choice([-1, 1])
        d = [p0[k] + u * (p1[k] - p0[k]) + v * (p2[k] - p0[k]) + e * n[k] / nn for k in range(3)]
        pts = [p0, p1, p2, d]
        kind = 'nearflat'
    elif t < 0.84:  # inverted
        base = [[rng.uniform(-1, 1) for _ in range(3)] for _ in range(4)]
        pts = orient([apply(a, p) for p in base], positive=False)
        kind = 'inverted'
    elif t < 0.92:  # small integers (exact products), either orientation
        pts = [[float(rng.randint(-4, 4)) for _ in range(3)] for _ in range(4)]
        kind = 'integer'
    else:  # exactly degenerate: repeated vertex / coplanar / all equal
        u = rng.random()
        if u < 0.3:
            p = [float(rng.randint(-3, 3)) for _ in range(3)]
            pts = [list(p) for _ in range(4)]
        elif u < 0.6:
            pts = [[float(rng.randint(-4, 4)), float(rng.randint(-4, 4)), 0.0] for _ in range(4)]
        else:
            pts = [[float(rng.randint(-5, 5)) for _ in range(3)] for _ in range(3)]
            pts.append(list(pts[rng.randrange(3)]))
        kind = 'degenerate'
    return kind, pts


def gen_tri_pts(rng, ms):
    t = rng.random()
    a = inv_sqrt_full(ms[0]) if is_spd(ms[0]) and cond_of(ms[0]) < 1e13 else [[1.0, 0, 0], [0, 1.0, 0], [0, 0, 1.0]]
    if t < 0.35:
        base = [[rng.uniform(-1, 1) for _ in range(3)] for _ in range(3)]
        return 'random', [apply(a, p) for p in base]
    if t < 0.5:
        j = rng.choice([0.0, 0.0, 0.1, 0.4])
        base = [[c + j * rng.uniform(-1, 1) for c in p] for p in REG_TRI]
        r = rot(rng)
        return ('regular' if j == 0.0 else 'jitter'), [apply(a, apply(r, p)) for p in base]
    if t < 0.7:
        asp = 10.0 ** rng.uniform(0, 6)
        base = [[0, 0, 0], [1, 0, 0], [rng.uniform(0.1, 0.9), 1.0 / asp, 0]]
        r = rot(rng)
        s = 10.0 ** rng.uniform(-3, 3)
        return 'aspect', [apply(r, p, s) for p in base]
    if t < 0.8:  # planar z = const
        z = rng.choice([0.0, 1.0, -2.5])
        return 'planar', [[rng.uniform(-1, 1), rng.uniform(-1, 1), z] for _ in range(3)]
    if t < 0.9:
        return 'integer', [[float(rng.randint(-4, 4)) for _ in range(3)] for _ in range(3)]
    p = [float(rng.randint(-3, 3)) for _ in range(3)]
    d = [float(rng.randint(-2, 2)) for _ in range(3)]
    u = rng.random()
    if u < 0.4:
        return 'degenerate', [list(p), list(p), list(p)]
    if u < 0.7:
        return 'degenerate', [p, [p[k] + d[k] for k in range(3)], [p[k] + 2 * d[k] for k in range(3)]]
    return 'degenerate', [p, [p[k] + d[k] for k in range(3)], list(p)]


def line_tet(sel, mv, xs, ms):
    return 'tet %s %s %s' % (sel, hx(mv), H(*[[xs[i], ms[i]] for i in range(4)]))


def line_tri(sel, d0, xs, ms):
    return 'tri %s %s %s' % (sel, H(d0), H(*[[xs[i], ms[i]] for i in range(3)]))


def probe_step(xs):
    """finite-difference step for node 0: a small fraction of the shortest edge at node 0"""
    ls = [math.sqrt(dot(sub(x, xs[0]), sub(x, xs[0]))) for x in xs[1:]]
    l = min(ls) if ls else 0.0
    if not (l > 0) or not math.isfinite(l):
        return 0.0
    h = 2.0 ** round(math.log2(l * 3e-6))
    return h


def probes(xs):
    """six copies of the vertex list with node 0 moved by +h, -h along x, y, z (h a power of two; the moved
    coordinate is re-read so that the step actually taken is known exactly from the op line)"""
    h = probe_step(xs)
    out = []
    if h == 0.0:
        return out
    for k in range(3):
        for s in (1.0, -1.0):
            ys = [list(x) for x in xs]
            ys[0][k] = xs[0][k] + s * h
            out.append(ys)
    return out


def gen_quality(rng, tier):
    ops = []
    for _ in range(N(tier, 45)):
        mkind, ms = gen_metrics(rng, 4)
        kind, xs = gen_tet_pts(rng, ms)
        mv = MINVOL
        u = rng.random()
        if u < 0.1:
            mv = 0.0
        elif u < 0.2:
            mv = abs(vol_f(xs)) * rng.choice([0.5, 2.0]) if all(math.isfinite(c) for p in xs for c in p) else 1e-3
        elif u < 0.25:
            mv = -1.0e-3
        with_probes = rng.random() < 0.6
        for sel in ('epic', 'jac'):
            for p in EVEN4:
                px, pm = [xs[i] for i in p], [ms[i] for i in p]
                ops.append(line_tet(sel, mv, px, pm))
                if with_probes:
                    for ys in probes(px):
                        ops.append(line_tet(sel, mv, ys, pm))
        if rng.random() < 0.15:
            ops.append(line_tet('other', mv, xs, ms))
    for _ in range(N(tier, 45)):
        mkind, ms = gen_metrics(rng, 3)
        kind, xs = gen_tri_pts(rng, ms)
        d0 = [rng.uniform(-9, 9) for _ in range(3)]
        with_probes = rng.random() < 0.6
        for sel in ('epic', 'jac'):
            for p in EVEN3 + ([(0, 2, 1)] if rng.random() < 0.3 else []):
                px, pm = [xs[i] for i in p], [ms[i] for i in p]
                ops.append(line_tri(sel, d0, px, pm))
                if with_probes:
                    for ys in probes(px):
                        ops.append(line_tri(sel, d0, ys, pm))
        if rng.random() < 0.15:
            ops.append(line_tri('other', d0, xs, ms))
    # malformed share
    ops.append('tet epic ' + H([0.0] * 5))
    ops.append('tri jac ' + H([0.0] * 29))
    ops.append('tet zzz ' + H([0.0] * 37))
    ops.append('hex epic ' + H([0.0] * 37))
    return ops


# ---------------------------------------------------------------------------------------------- oracle
def parse_op(op):
    w = op.split()
    if len(w) < 3 or w[0] not in ('tet', 'tri') or w[1] not in ('epic', 'jac', 'other'):
        return None
    try:
        f = [unhx(x) for x in w[2:]]
    except Exception:
        return None
    if w[0] == 'tet':
        if len(f) != 37:
            return None
        mv, f, n = f[0], f[1:], 4
        extra = mv
    else:
        if len(f) != 30:
            return None
        extra, f, n = f[:3], f[3:], 3
    xs = [f[9 * i:9 * i + 3] for i in range(n)]
    ms = [f[9 * i + 3:9 * i + 9] for i in range(n)]
    return {'cell': w[0], 'sel': w[1], 'extra': extra, 'xs': xs, 'ms': ms, 'words': w}


def parse_out(line):
    """-> list of six (status, [floats]) or None"""
    w = line.split()
    if not w or w[0] in ('bad-op', 'set'):
        return None
    res = []
    i = 0
    for n in (1, 4, 1, 1, 4, 4):
        if i >= len(w):
            return None
        st = w[i]
        i += 1
        vals = []
        if st == 'ok':
            vals = [unhx(x) for x in w[i:i + n]]
            i += n
        res.append((st, vals))
    return res


def close(a, b, rel, absol=0.0):
    if math.isnan(a) or math.isnan(b):
        return math.isnan(a) and math.isnan(b)
    if a == b:
        return True
    return abs(a - b) <= rel * max(abs(a), abs(b)) + absol


def parity_even(ref_v, v):
    """is v an even permutation of ref_v (lists of hashable vertex keys, all distinct)?"""
    idx = [ref_v.index(x) for x in v]
    inv = sum(1 for i in range(len(idx)) for j in range(i + 1, len(idx)) if idx[i] > idx[j])
    return inv % 2 == 0


def conditioning(o):
    """relative uncertainty of the cell measure caused by rounding of the coordinates' differences"""
    xs = o['xs']
    if not all(math.isfinite(c) for p in xs for c in p):
        return float('inf')
    big = max(abs(c) for p in xs for c in p)
    es = [sub(xs[j], xs[i]) for i in range(len(xs)) for j in range(i + 1, len(xs))]
    lmax = max(math.sqrt(dot(e, e)) for e in es)
    if o['cell'] == 'tet':
        meas = abs(vol_f(xs)) * 6.0
        full = lmax ** 3
    else:
        meas = area_f(xs) * 2.0
        full = lmax ** 2
    if meas == 0.0:
        return float('inf')
    return 64.0 * EPS * (full / meas) * (1.0 + big / lmax)


STATS = {}


def oracle_quality(ops, impl):
    bad = []
    st_ = {'ref': 0, 'fd': 0, 'perm': 0, 'lines': 0}
    STATS['last'] = st_
    P = [parse_op(o) for o in ops]
    R = [parse_out(l) if i < len(impl) else None for i, l in enumerate(impl)]
    n = min(len(P), len(R))
    groups = {}
    for i in range(n):
        o, r = P[i], R[i]
        if o is None or r is None:
            continue
        sel = o['sel']
        (sq, vq), (sd, vd), (seq, veq), (sjq, vjq), (sed, ved), (sjd, vjd) = r
        # -- 1. the dispatching functions return what the selected static one returns; unknown selector fails
        if sel == 'other':
            if sq != 'failure' or sd != 'failure':
                bad.append((i, 'unknown quality selector must fail: %s %s' % (sq, sd)))
            continue
        pick_q = (seq, veq) if sel == 'epic' else (sjq, vjq)
        pick_d = (sed, ved) if sel == 'epic' else (sjd, vjd)
        if sq != pick_q[0] or (sq == 'ok' and not close(vq[0], pick_q[1][0], 1e-12)):
            bad.append((i, 'dispatch: %s quality %r != selected static %r' % (sel, (sq, vq), pick_q)))
        if sd != pick_d[0] or (sd == 'ok' and not all(close(a, b, 1e-12) for a, b in zip(vd, pick_d[1]))):
            bad.append((i, 'dispatch: %s dquality %r != selected static %r' % (sel, (sd, vd), pick_d)))
        # -- 2. value consistency: dquality's quality == plain quality
        for nm, (s0, v0), (s1, v1) in (('epic', (seq, veq), (sed, ved)), ('jac', (sjq, vjq), (sjd, vjd)),
                                        ('dispatch', (sq, vq), (sd, vd))):
            if s0 != s1:
                bad.append((i, '%s: status of quality %s != status of dquality %s' % (nm, s0, s1)))
            elif s0 == 'ok' and not close(v0[0], v1[0], 1e-12):
                bad.append((i, '%s: dquality returns quality %r, plain quality is %r' % (nm, v1[0], v0[0])))
        spd_all = all(is_spd(m) and cond_of(m) < 1e12 for m in o['ms'])
        cond = conditioning(o)
        # -- 3. independent reference value
        if spd_all and cond < 1e-4 and sq == 'ok' and math.isfinite(vq[0]):
            if o['cell'] == 'tet':
                mv = o['extra']
                vol = vol_f(o['xs'])
                if abs(vol - mv) > cond * abs(vol) + 4 * EPS * abs(mv):
                    ref = ref_tet(sel, mv, o['xs'], o['ms'])
                    st_['ref'] += 1
                    if vol <= mv:
                        if not close(vq[0], ref, 1e-9, cond * abs(vol) + 1e-300):
                            bad.append((i, 'tet volume %r <= min_volume %r: quality %r, expected %r' % (vol, mv, vq[0], ref)))
                        if vq[0] > 0:
                            bad.append((i, 'inverted/flat tet has positive quality %r' % vq[0]))
                    elif ref is not None:
                        mc = max(cond_of(m) for m in o['ms'])
                        tol = 1e-9 + cond + 1e-14 * mc / max(abs(vq[0]), 1e-300)
                        if not close(vq[0], ref, tol):
                            bad.append((i, '%s tet quality %r, independent reference %r (tol %.1e)' % (sel, vq[0], ref, tol)))
                        if vq[0] <= 0:
                            bad.append((i, 'valid tet (vol %r) has non-positive quality %r' % (vol, vq[0])))
                        if sel == 'jac' and vq[0] > 1.0 + tol:
                            bad.append((i, 'jac quality %r > 1' % vq[0]))
            else:
                ref = ref_tri(sel, o['xs'], o['ms'])
                if ref is not None:
                    st_['ref'] += 1
                    mc = max(cond_of(m) for m in o['ms'])
                    tol = 1e-9 + cond + 1e-14 * mc / max(abs(vq[0]), 1e-300)
                    if not close(vq[0], ref, tol):
                        bad.append((i, '%s tri quality %r, independent reference %r (tol %.1e)' % (sel, vq[0], ref, tol)))
                    if sel == 'jac' and vq[0] > 1.0 + tol:
                        bad.append((i, 'jac tri quality %r > 1' % vq[0]))
        # -- 4. derivative vs central finite difference of the plain quality (six probe lines follow)
        if sd == 'ok' and sq == 'ok' and i + 6 < n and all(P[i + k] is not None and R[i + k] is not None
                                                                for k in range(1, 7)):
            fd = []
            okp = True
            for k in range(3):
                op_, om_ = P[i + 1 + 2 * k], P[i + 2 + 2 * k]
                for t in (op_, om_):  # same line except coordinate k of node 0
                    w0, w1 = o['words'], t['words']
                    col = (3 if o['cell'] == 'tet' else 5) + k
                    if len(w0) != len(w1) or any(a != b for j, (a, b) in enumerate(zip(w0, w1)) if j != col):
                        okp = False
                if not okp:
                    break
                hp = op_['xs'][0][k] - om_['xs'][0][k]
                rp, rm = R[i + 1 + 2 * k][0], R[i + 2 + 2 * k][0]  # plain dispatching quality
                if hp == 0.0 or rp[0] != 'ok' or rm[0] != 'ok':
                    okp = False
                    break
                fd.append(((rp[1][0] - rm[1][0]) / hp, hp))
            if okp and spd_all and cond < 1e-9 and all(math.isfinite(x) for x in vd):
                q = vq[0]
                # only smooth branches: positive quality on all seven lines (min_volume / -1 branches are kinks)
                smooth = q > 0 and all(R[i + k][0][1][0] > 0 for k in range(1, 7))
                if o['cell'] == 'tet' and not (vol_f(o['xs']) > o['extra']):
                    smooth = False
                if smooth:
                    st_['fd'] += 1
                    gmax = max(abs(x) for x in vd[1:])
                    for k in range(3):
                        est, hp = fd[k]
                        # curvature seen by the probes: forward minus backward difference quotient = h f''; the
                        # truncation error of the central difference (h^2 f'''/6) is bounded by curv^2 / |f'| when the
                        # function varies on the scale f'/f''
                        qp, qm = R[i + 1 + 2 * k][0][1][0], R[i + 2 + 2 * k][0][1][0]
                        curv = abs((qp - q) - (q - qm)) / (abs(hp) / 2.0)
                        trunc = curv * curv / max(abs(est), 1e-300) + 0.1 * curv
                        # rounding of the difference quotient, relative to q / h
                        tol = (1e-5 * gmax + 64 * EPS * abs(q) / abs(hp) * (1.0 + cond / EPS * 1e-3) + 1e-5 * abs(est) +
                               trunc)
                        if abs(est - vd[1 + k]) > tol:
                            bad.append((i, '%s %s d quality/d x0[%d] = %r, central difference of the plain quality %r '
                                        '(h %.3e, tol %.1e)' % (sel, o['cell'], k, vd[1 + k], est, hp, tol)))
        # -- 5. even permutations
        key = (o['cell'], sel, repr(o['extra']), frozenset((tuple(x), tuple(m)) for x, m in zip(o['xs'], o['ms'])))
        groups.setdefault(key, []).append(i)
    for key, idxs in groups.items():
        if len(idxs) < 2:
            continue
        i0 = idxs[0]
        o0 = P[i0]
        v0 = [(tuple(x), tuple(m)) for x, m in zip(o0['xs'], o0['ms'])]
        if len(set(v0)) != len(v0):
            continue
        if not all(is_spd(m) and cond_of(m) < 1e12 for m in o0['ms']):
            continue
        cond = conditioning(o0)
        if not cond < 1e-4:
            continue
        s0, q0 = R[i0][0]
        for i in idxs[1:]:
            v = [(tuple(x), tuple(m)) for x, m in zip(P[i]['xs'], P[i]['ms'])]
            even = parity_even(v0, v)
            if not even and o0['cell'] == 'tet':
                continue
            s1, q1 = R[i][0]
            if s0 != s1:
                bad.append((i, 'permutation changes the status: %s vs %s (line %d)' % (s1, s0, i0)))
            elif s0 == 'ok':
                mc = max(cond_of(m) for m in o0['ms'])
                tol = 1e-10 + cond + 1e-14 * mc / max(abs(q0[0]), 1e-300)
                if o0['cell'] == 'tet':
                    vol = vol_f(o0['xs'])
                    if abs(vol - o0['extra']) <= cond * abs(vol) + 4 * EPS * abs(o0['extra']):
                        continue
                    absol = cond * abs(vol) if vol <= o0['extra'] else 0.0
                else:
                    absol = 0.0
                st_['perm'] += 1
                if not close(q0[0], q1[0], tol, absol):
                    bad.append((i, '%s %s quality changes under an even permutation: %r vs %r (line %d, tol %.1e)' %
                                (o0['sel'], o0['cell'], q1[0], q0[0], i0, tol)))
    return bad


def _nontriv(op, out):
    return not out.startswith('bad-op')


QUALITY = Stream('quality', 'h_quality', 'quality', gen_quality, oracle=oracle_quality, whitebox=['ref_node'],
                 nontrivial=_nontriv)
