"""C18 — runs are reproducible: PARTIAL claim.

Proved (Lean, tied to the C): the mechanisms that are logic — order independence of the results that consume the
rand() stream (wall distance), determinism of the edge numbering, schedule independence of the tagged
point-to-point exchanges.  Tied only: the side conditions generated from the sources.  Exercised only (re-execution
under perturbation, NOT part of the proof claim): uninitialised memory, address-space layout, scheduling, timing.
"""
from . import streams_repro, streams_search, streams_containers

ID = 'C18'
PROPS_MODULE = ['Refine.Props.C18', 'Refine.Props.C18Mech']
STREAMS = [
    # ties of the model functions the theorems are about (diff: C harness vs Lean driver, line by line)
    streams_search.TREE, streams_search.NEAREST,      # ref_search insert/touching/nearest, wallbuild, walldist
    streams_containers.SORT_RND,                      # ref_sort_shuffle under a given rand() stream
    streams_repro.EDGES,                              # ref_edge_create on add/remove histories
    streams_repro.SCHED,                              # native alltoallv + rank-0 loops vs the scheduled model, np=2,3,4
    # direct statements on the implementation (oracle)
    streams_repro.WALLDIST_ORDERS,                    # same walls, different rand() streams => identical bits
    streams_repro.CLI_REPRO,                          # the runtime clause: repetitions under perturbation, sha256
    streams_repro.CLI_MEMCHECK,                       # the runtime clause: valgrind memcheck, no uninitialised use
]

EXPLANATION = (
    'PARTIAL. The property says: repeating any of {adapt, multiscale, interpolate, distance, translate} with the same '
    'inputs, options and rank count yields byte-identical output files whatever the heap contents, address-space '
    'layout, process scheduling and message timing are, and no result depends on uninitialised memory. A Lean model '
    'is a total function and has no heap, no addresses and no clock, so THAT sentence cannot be a theorem; what is '
    'claimed is split in three and named as such. '
    '(1) PROVED in Lean 4 about executable models that are compared with the compiled C on every run: '
    '(1a) the results that consume the never-seeded rand() stream do not depend on it: for ANY two insertion orders '
    'of the same wall elements the sphere-tree search returns the same distance, in exact real arithmetic '
    '(Props.C18 wallDistance_tri_order_independent, wallDistance_seg_order_independent, via C12 exactness), and '
    'ref_sort_shuffle returns a permutation for every rand() stream (shuffle_any_rand_same_elements); '
    '(1b) ref_edge_create / ref_edge_uniq / ref_edge_with (Model.ReproEdge, loop for loop: groups 8..15 then 3..7, '
    'valid cells in slot order, the generated e2n table, adjacency-chain lookup, append): the chain lookup is '
    'equivalent to list membership, the call never fails on stores satisfying the C14 invariant, every undirected '
    'cell edge is numbered exactly once, the numbering is the order of first appearance (edgeCreate_eq_spec, '
    'edgeCreate_each_cell_edge_once, edgeCreate_first_seen_order, gridOk_of_inv, tables_in_range) and it depends '
    'ONLY on the ordered list of live cells: two grids with the same live-cell sequences get the same ref_edge '
    'whatever their free lists, adjacency chains, stale rows, capacities or add/remove histories are '
    '(edgeCreate_depends_only_on_live_sequence; examples: a history with removed junk cells vs the plain one; the '
    'reversed order gives a different numbering of the same edge set); '
    '(1c) message passing is a function of the data: the tagged point-to-point matcher of Model.Comm is given an '
    'operational semantics (Model.ReproSched.p2pSched) with an explicit DELIVERY order (mailboxes; receives matched '
    'in posted order, each naming (source, tag) and taking the earliest-arrived unmatched message) and an explicit '
    'COMPLETION order (MPI_Waitall deposits in any order); proved: matching depends only on the per-(source,tag) '
    'subsequences (matching_depends_only_on_fifo_subsequences); with at most one message per (source,dest,tag) in '
    'flight ANY two delivery orders are equivalent, no FIFO assumption needed '
    '(any_order_is_fifo_equal_when_triples_distinct); deposits into pairwise disjoint in-bounds regions commute '
    '(disjoint_deposits_commute); hence p2p_schedule_independent, and, with the hypotheses DISCHARGED for the posted '
    'worlds refine builds (native tag scheme gives distinct triples: nativeWorld_triples_distinct; the native '
    'receives address disjoint in-bounds regions: via nativePost_recvsOk), alltoallv_native_schedule_independent, '
    'gather_schedule_independent, scatter_schedule_independent: for ANY delivery permutation and ANY completion '
    'permutation the statuses and receive buffers are the same; the posted worlds are definitionally those of C17 '
    '(alltoallvNative_is_exchange_of_nativeWorld, scatter/gather_is_exchange_of_*Posted), so together with C17 '
    '(each primitive = its sequential specification for every rank count) the result is the specification under '
    'every schedule. Only the native all-to-all and the rank-0 scatter/gather loops are done operationally; '
    'blindsend/balance inherit it through alltoallv; MPI_Alltoallv/Allgatherv/Bcast/Reduce are MPI collectives whose '
    'determinism is MPI semantics (trusted, C17). '
    '(2) TIED (generated from the current sources on every run, obligations by `decide`): every receive names its '
    'source and tag - no MPI_ANY_SOURCE/ANY_TAG/Probe/Iprobe/Waitany (receives_name_source_and_tag); no call seeds a '
    'libc random stream (rand_stream_never_seeded); the consumers of rand() are exactly ref_sort.c, ref_migrate.c, '
    'ref_interp.c (rand_consumers_are_known); no uintptr_t/intptr_t and no libc qsort (no_address_as_integer). '
    'Differential ties: search_tree/search_nearest (the search model of (1a), incl. op walldist = the REAL '
    'ref_phys_wall_distance with its own rand() shuffle bit-compared with the model built in index order), '
    'cont_sort_random (ref_sort_shuffle with an interposed rand() stream), repro_edges (e2n of the real '
    'ref_edge_create on cell stores built through add/remove histories, >100 edges to cross the realloc, negative '
    'node error branch, vs Model.ReproEdge; oracle: no undirected edge twice, all simplex edges present, same live '
    'sequence => same e2n), repro_sched (the real ref_mpi_alltoallv native variant and rank-0 scatter/gather under '
    'mpiexec np=2,3,4 with random delays in front of every MPI call, vs p2pSched run under pseudo-random delivery '
    'and completion orders derived from the op line), repro_walldist_orders (white-box: the harness defines rand(); '
    'the real ref_phys_wall_distance on the same walls under three different rand() streams must print identical '
    'bits). '
    '(3) EXERCISED ONLY, not proved (testing in support): cli_repro re-runs every generated case of the five '
    'commands (2-D and 3-D, np = serial,1,2,3,4 quick; to 8 thorough) 6 times serial / 3 times under MPI (9 / 5 '
    'thorough) with the same argv under different heap fill bytes (ASan malloc_fill_byte 0x55/0xBF for the sanitized '
    'serial binary; glibc MALLOC_PERTURB_ 85/191/170/255 - i.e. fresh memory filled with 0xAA/0x40/0x55/0x00, chosen so '
    'that stale ints are large positive / negative / 0 and stale doubles are huge / tiny negative / 32.5 / -0.12 / 0 - '
    'for a plain -O1 serial binary and for the MPI binary), ASLR on and off '
    '(setarch -R), Open MPI yield on/off, two-core pinning (over-subscription) and random sleeps in front of every '
    'MPI call (harness/pmpi_delay.c, PMPI interposition linked into the MPI binary; /repo untouched) and compares '
    'ALL files left in the working directory by sha256; cli_memcheck runs valgrind memcheck '
    '(--undef-value-errors=yes) on the plain serial binary for tiny cases of each command and fails on any '
    'uninitialised-value report. A difference or a report is a VIOLATION with the scenario line as replay (the '
    'differing files are kept under replays/C18_files/).')

ASSUMPTIONS = [
    'NOT PROVED, only exercised by re-execution (cli_repro, cli_memcheck): absence of reads of uninitialised memory, '
    'independence of heap contents, of address-space layout and of process scheduling for the WHOLE programs; a '
    'dependence that the generated cases do not reach is not detected. valgrind covers the serial binary only',
    'libc fact, trusted: rand() without srand() returns the same sequence in every run of the same binary '
    '(rand_stream_never_seeded shows no seeding call exists); each MPI rank has its own stream; the RCB rotation '
    'consumes it on rank 0 only. The native RCB partitioner itself is NOT modelled in this check (hook in '
    'Props/C18Mech): package rcb proves in Props/C04Rcb that its assignment is a function of (owned coordinates, rand '
    'values, seed, np) and a valid partition for ANY stream (rcb_part_deterministic, rcb_part_total) and ties it with a '
    'harness-defined rand(); until that module is listed in PROPS_MODULE here, nothing about RCB is claimed by C18',
    'order independence of the wall distance holds in exact real arithmetic (C12 exactness); in floating point the '
    'distance kernels are evaluated on the same element for every order, so the bits agree unless two different '
    'elements are at distances that differ in the last bits AND pruning (inflated by 1+1e-8) drops one of them - '
    'exercised by repro_walldist_orders and by the bit comparison of op walldist, not proved',
    'the two rand()%k picks of the donor walk in ref_interp.c and their effect on interpolate are not modelled: '
    'deterministic given the libc fact above, exercised by cli_repro only',
    'MPI semantics trusted (as in C17): tagged point-to-point matching by (source, tag, communicator) in posted '
    'order, non-overtaking; collectives (Alltoall(v), Allgather(v), Bcast, Reduce/Allreduce) return the same result '
    'for the same inputs - floating-point reductions are combined in an order Open MPI chooses deterministically for '
    'a fixed rank count and algorithm selection; that is NOT proved and is only exercised (cli_repro at fixed np)',
    'the operational model covers ref_mpi_alltoallv_native and the rank-0 scatter/gather loops; deadlock freedom of '
    'the blocking loops and MPI buffer management are not modelled (a blocked rank is `none`)',
    'edge model: REF_INT is an unbounded integer, the e2n realloc (100, +5000/x1.5) is not modelled (crossed by the '
    'tie); the theorems that need non-negative nodes assume the C14 cell-store invariant',
    'the repetitions of cli_repro run on one machine, one compiler, one libc, one Open MPI: reproducibility ACROSS '
    'such changes is not part of the property and is not examined',
]

TRUSTED = ['harness/pmpi_delay.c (PMPI wrappers: sleep, then PMPI_*), harness/h_repro.c (defines rand()), '
           'checks/streams_repro.py (scenario generation, sha256 comparison, valgrind report parsing), '
           'tools/translate_more_repro.py (grep side conditions)']

LEVEL_TEXT = ('PARTIAL (see level_note). ' + EXPLANATION)
TECHNIQUE = ('Lean 4 theorems over executable models of the reproducibility mechanisms (edge numbering, sphere-tree '
             'order independence, scheduled point-to-point exchange) tied to /repo by differential execution and '
             'generated side conditions; the runtime clause (uninitialised memory, ASLR, scheduling, timing) is '
             'exercised by repeated execution under perturbation and by valgrind - testing in support, not proof')
LEVEL_NOTE_PREFIX = ('PARTIAL: only the clauses that are logic are proved (order independence of the rand()-consuming '
                     'wall-distance search, determinism of the edge numbering in the live-cell order, independence of '
                     'the tagged point-to-point exchanges of message delivery and completion order) and tied to the C; '
                     'the runtime clause of the property (no dependence on uninitialised memory, heap contents, ASLR, '
                     'scheduling, timing) cannot be stated about a pure model and is ONLY EXERCISED by repeated '
                     'execution under perturbation (cli_repro) and valgrind (cli_memcheck): testing in support, '
                     'not proof. ')
RULE = ('seeded generator per stream. diff streams (search_*, cont_sort_random, repro_edges, repro_sched): an evaluation is '
        'one op line executed by both the C implementation and the Lean model. oracle streams: repro_walldist_orders - '
        'one op line of the C harness; cli_repro - one scenario = the same command repeated 6 (serial) or 3 (MPI) times '
        'under different perturbations (9 / 5 in the thorough tier) with all output files compared; cli_memcheck - one '
        'valgrind run. non-trivial = the result is not a rejected/ok-only line (cli_repro: all repetitions exited 0 and '
        'agreed); distinct = sha256 of (op, implementation result)')
