"""C18 — reproducibility: PARTIAL claim (work in progress file; see EXPLANATION)."""
from . import streams_repro, streams_search, streams_containers

ID = 'C18'
PROPS_MODULE = ['Refine.Props.C18']
STREAMS = [streams_repro.EDGES, streams_repro.WALLDIST_ORDERS, streams_repro.SCHED]
EXPLANATION = 'wip'
ASSUMPTIONS = ['wip']
