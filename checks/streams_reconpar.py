"""C19 / C10 — the PARALLEL paths of ref_recon.c on explicitly distributed meshes (harness h_reconpar, driver reconpar).

One op line = the global mesh data (xyz, field, owner of every vertex) + what every rank stores (local -> global,
cells in local indices, 2-D boundary segments).  The same line is executed by the real code on np MPI ranks and by the
SPMD model `Refine.Model.ReconPar` (Float instance, same local vertex / cell order => bit comparison).

The Python oracle states partition independence directly on the C's output: every case comes as a REFERENCE line
(everything stored and owned by rank 0, the other ranks empty — the serial computation by the same real code under the
same mpiexec) followed by partitioned lines of the same mesh and field; the owner's values of every global vertex must
agree with the reference to 1e-10*scale outside the boundary-extrapolation layer, every ghost copy must equal its
owner's value bit for bit, linear (L2) / quadratic (k-exact) fields must be reproduced exactly at interior vertices,
the round-off floor must use the GLOBAL shortest edge.
"""
import math
from fractions import Fraction as Fr

from .common import Stream
from .streams_geom import hx, H, unhx, fl, brick, HEX_TETS6, dot
from .streams_metric import eigs

SIZES = {'tri': 3, 'qua': 4, 'tet': 4, 'pyr': 5, 'pri': 6, 'hex': 8}
FACES = {
    'tet': [(1, 3, 2), (0, 2, 3), (0, 3, 1), (0, 1, 2)],
    'pyr': [(0, 1, 2), (1, 4, 2), (4, 3, 2), (3, 0, 2), (0, 3, 4, 1)],
    'pri': [(0, 1, 2), (3, 5, 4), (0, 3, 4, 1), (1, 4, 5, 2), (2, 5, 3, 0)],
    'hex': [(0, 3, 2, 1), (4, 5, 6, 7), (0, 1, 5, 4), (1, 2, 6, 5), (2, 3, 7, 6), (3, 0, 4, 7)],
}
EDGES = {
    'tri': [(0, 1), (1, 2), (2, 0)],
    'qua': [(0, 1), (1, 2), (2, 3), (3, 0)],
    'tet': [(0, 1), (0, 2), (0, 3), (1, 2), (1, 3), (2, 3)],
    'pyr': [(0, 1), (0, 2), (0, 3), (1, 2), (1, 4), (2, 3), (2, 4), (3, 4)],
    'pri': [(0, 1), (0, 2), (0, 3), (1, 2), (1, 4), (2, 5), (3, 4), (3, 5), (4, 5)],
    'hex': [(0, 1), (0, 3), (0, 4), (1, 2), (1, 5), (2, 3), (2, 6), (3, 7), (4, 5), (4, 7), (5, 6), (6, 7)],
}
VALUE_OPS = ('l2grad', 'l2hess', 'signed_hess', 'kx_grad', 'kx_hess', 'roundoff', 'extrap')
PER = {'l2grad': 3, 'kx_grad': 3, 'l2hess': 6, 'signed_hess': 6, 'kx_hess': 6, 'roundoff': 6, 'extrap': 6}


# ---------------------------------------------------------------------------------------------- meshes
def make_mesh(rng, kind, tier):
    """-> twod, pts, cells [(kind, [global nodes])], bnd (3-D: [(tri|qua, nodes)], 2-D: [(a, b)])"""
    big = tier != 'quick'
    if kind in ('tri', 'triqua'):
        nx, ny = rng.randint(3, 5 if not big else 7), rng.randint(3, 5 if not big else 7)
        pts, idx = brick(rng, nx, ny, 0, rng.choice([0.0, 0.3, 0.5]), twod=True)
        for p in pts:
            p[2] = 0.0
        cells = []
        for j in range(ny):
            for i in range(nx):
                q = [idx(i, j), idx(i + 1, j), idx(i + 1, j + 1), idx(i, j + 1)]
                t = rng.random()
                if kind == 'triqua' and t < 0.3:
                    cells.append(('qua', q))
                elif t < 0.65:
                    cells += [('tri', [q[0], q[1], q[2]]), ('tri', [q[0], q[2], q[3]])]
                else:
                    cells += [('tri', [q[0], q[1], q[3]]), ('tri', [q[1], q[2], q[3]])]
        twod = True
        if rng.random() < 0.5:
            asp = rng.uniform(1.0, 8.0)
            ang = rng.uniform(0, math.pi)
            cs, sn = math.cos(ang), math.sin(ang)
            for p in pts:
                x, y = p[0], p[1] / asp
                p[0], p[1] = cs * x - sn * y, sn * x + cs * y
    else:
        dims = [rng.randint(2, 3 if not big else 4) for _ in range(3)]
        nx, ny, nz = dims
        pts, idx = brick(rng, nx, ny, nz, rng.choice([0.0, 0.3, 0.5]))
        cells = []
        for k in range(nz):
            for j in range(ny):
                for i in range(nx):
                    h = [idx(i, j, k), idx(i + 1, j, k), idx(i + 1, j + 1, k), idx(i, j + 1, k),
                         idx(i, j, k + 1), idx(i + 1, j, k + 1), idx(i + 1, j + 1, k + 1), idx(i, j + 1, k + 1)]
                    t = rng.random() if kind == 'mixed' else 0.0
                    if t < 0.45:
                        cells += [('tet', [h[a] for a in tt]) for tt in HEX_TETS6]
                    elif t < 0.6:
                        cells.append(('hex', h))
                    elif t < 0.8:
                        cells += [('pri', [h[0], h[1], h[2], h[4], h[5], h[6]]), ('pri', [h[0], h[2], h[3], h[4], h[6], h[7]])]
                    else:
                        cells += [('pyr', [h[0], h[3], h[6], h[1], h[2]]), ('pyr', [h[0], h[1], h[6], h[4], h[5]]),
                                  ('pyr', [h[0], h[4], h[6], h[3], h[7]])]
        twod = False
        if rng.random() < 0.5:
            sc = [rng.uniform(0.3, 2.0) for _ in range(3)]
            for p in pts:
                for c in range(3):
                    p[c] *= sc[c]
    # random global renumbering
    perm = list(range(len(pts)))
    rng.shuffle(perm)
    inv = [0] * len(pts)
    for new, old in enumerate(perm):
        inv[old] = new
    pts = [pts[old] for old in perm]
    cells = [(k, [inv[n] for n in ns]) for k, ns in cells]
    rng.shuffle(cells)
    return twod, pts, cells, boundary_of(twod, cells)


def boundary_of(twod, cells):
    count = {}
    if twod:
        for k, ns in cells:
            for a, b in EDGES[k]:
                key = tuple(sorted((ns[a], ns[b])))
                count.setdefault(key, []).append((ns[a], ns[b]))
        return [v[0] for key, v in sorted(count.items()) if len(v) == 1]
    for k, ns in cells:
        for f in FACES[k]:
            g = [ns[a] for a in f]
            count.setdefault(tuple(sorted(g)), []).append(g)
    return [('tri' if len(v[0]) == 3 else 'qua', v[0]) for key, v in sorted(count.items()) if len(v) == 1]


def boundary_nodes(twod, bnd):
    s = set()
    for b in bnd:
        s.update(b if twod else b[1])
    return s


def min_edges(pts, cells):
    """shortest incident edge per vertex over the volume / 2-D cells and the boundary faces"""
    r = {}
    for k, ns in cells:
        for a, b in EDGES[k]:
            d = math.sqrt(sum((pts[ns[a]][c] - pts[ns[b]][c]) ** 2 for c in range(3)))
            for n in (ns[a], ns[b]):
                r[n] = min(r.get(n, d), d)
    return r


# ---------------------------------------------------------------------------------------------- fields
def make_field(rng, twod, pts, which):
    if which == 'rnd':
        return 'rnd', [rng.uniform(-1, 1) for _ in pts]
    a = float(rng.randint(-3, 3)) if rng.random() < 0.3 else rng.uniform(-2, 2)
    g = [rng.uniform(-3, 3) for _ in range(3)]
    if rng.random() < 0.3:
        g = [float(rng.randint(-3, 3)) for _ in range(3)]
    hm = [rng.uniform(-2, 2) for _ in range(6)]
    if twod:
        g[2] = 0.0
        hm[2] = hm[4] = hm[5] = 0.0
    if which == 'lin':
        return 'lin,' + ','.join(hx(v) for v in [a] + g), [a + dot(g, p) for p in pts]
    if which == 'quad':
        def q(p):
            x, y, z = p
            return (a + dot(g, p) + 0.5 * hm[0] * x * x + hm[1] * x * y + hm[2] * x * z + 0.5 * hm[3] * y * y
                    + hm[4] * y * z + 0.5 * hm[5] * z * z)
        return 'quad,' + ','.join(hx(v) for v in [a] + g + hm), [q(p) for p in pts]
    # tanh front across the domain
    c = [sum(p[i] for p in pts) / len(pts) for i in range(3)]
    n = [rng.uniform(-1, 1) for _ in range(3)]
    if twod:
        n[2] = 0.0
    nn = math.sqrt(dot(n, n)) or 1.0
    n = [x / nn for x in n]
    k = rng.uniform(0.5, 3.0)
    return 'tanh', [math.tanh(k * dot(n, [p[i] - c[i] for i in range(3)])) for p in pts]


# ---------------------------------------------------------------------------------------------- partitions
def make_part(rng, np, twod, pts, interior, how):
    nn = len(pts)
    if np == 1 or how == 'ref':
        return [0] * nn
    ranks = list(range(np))
    if how == 'emptyrank' and np >= 3:
        ranks.remove(rng.randrange(np))
    if how == 'single' and interior and len(ranks) >= 2:
        lone = rng.choice(ranks)
        rest = [r for r in ranks if r != lone]
        v = rng.choice(sorted(interior))
        part = slab_part(rng, rest, twod, pts)
        part[v] = lone
        return part
    if how == 'random':
        return [rng.choice(ranks) for _ in range(nn)]
    return slab_part(rng, ranks, twod, pts)


def slab_part(rng, ranks, twod, pts):
    """cut the vertices into len(ranks) slabs along a random direction: partition boundaries through the interior"""
    d = [rng.uniform(-1, 1) for _ in range(3)]
    if twod:
        d[2] = 0.0
    order = sorted(range(len(pts)), key=lambda n: (dot(d, pts[n]), n))
    part = [0] * len(pts)
    m = len(ranks)
    cuts = sorted(rng.sample(range(1, len(pts)), m - 1)) if m > 1 and rng.random() < 0.3 else \
        [len(pts) * (k + 1) // m for k in range(m - 1)]
    lo = 0
    for k, r in enumerate(ranks):
        hi = cuts[k] if k < m - 1 else len(pts)
        for n in order[lo:hi]:
            part[n] = r
        lo = hi
    return part


def distribute(rng, np, twod, nn, cells, bnd, part, shuffle):
    """what every rank stores under clause (ii): every cell (and boundary element) with an owned vertex, and the
    vertices of those cells; -> [(l2g, local cells, local edgs)]"""
    ranks = []
    allc = list(cells) + ([] if twod else list(bnd))
    for r in range(np):
        mine = [(k, ns) for k, ns in allc if any(part[n] == r for n in ns)]
        medg = [e for e in bnd if any(part[n] == r for n in e)] if twod else []
        verts = set(n for n in range(nn) if part[n] == r)
        for k, ns in mine:
            verts.update(ns)
        for e in medg:
            verts.update(e)
        l2g = sorted(verts)
        if shuffle:
            rng.shuffle(l2g)
            rng.shuffle(mine)
            rng.shuffle(medg)
        g2l = {g: i for i, g in enumerate(l2g)}
        ranks.append((l2g, [(k, [g2l[n] for n in ns]) for k, ns in mine], [(g2l[a], g2l[b]) for a, b in medg]))
    return ranks


def op_line(op, np, twod, pts, tag, fld, part, ranks):
    grp = []
    for l2g, cells, edgs in ranks:
        grp.append('%d %s %d %s %d %s' % (
            len(l2g), ' '.join(str(g) for g in l2g), len(cells),
            ' '.join('%s %s' % (k, ' '.join(str(n) for n in ns)) for k, ns in cells), len(edgs),
            ' '.join('%d %d' % e for e in edgs)))
    return ' '.join(('%s %d %d %d %s %s %s %s | %s' % (op, np, 1 if twod else 0, len(pts), tag, H(*pts), H(fld),
                                                     ' '.join(str(p) for p in part), ' | '.join(grp))).split())


def interior_of(twod, nn, bnd):
    b = boundary_nodes(twod, bnd)
    return set(n for n in range(nn) if n not in b)


def sym_field(rng, pts):
    """symmetric tensors per vertex: SPD, indefinite, singular, zero, tiny"""
    out = []
    for _ in pts:
        t = rng.random()
        if t < 0.15:
            m = [0.0] * 6
        elif t < 0.3:
            m = [rng.uniform(-1, 1) * 1e-14 for _ in range(6)]
        else:
            a = [[rng.uniform(-1, 1) for _ in range(3)] for _ in range(3)]
            d = [rng.uniform(-2, 2) * 10.0 ** rng.choice([0, 0, 2, -3]) for _ in range(3)]
            if t < 0.5:
                d[rng.randrange(3)] = 0.0
            m3 = [[sum(a[k][i] * d[k] * a[k][j] for k in range(3)) for j in range(3)] for i in range(3)]
            m = [m3[0][0], m3[0][1], m3[0][2], m3[1][1], m3[1][2], m3[2][2]]
        out += m
    return out


def thick_mask(rng, twod, pts):
    """replace mask of `extrap`: a half space (several layers deep: several passes), now and then everything"""
    d = [rng.uniform(-1, 1) for _ in range(3)]
    if twod:
        d[2] = 0.0
    vals = sorted(dot(d, p) for p in pts)
    cut = vals[int(len(vals) * rng.uniform(0.3, 0.7))]
    if rng.random() < 0.08:
        return 'm' + '1' * len(pts)
    return 'm' + ''.join('1' if dot(d, p) <= cut else '0' for p in pts)


def gen(rng, tier, np):
    ops = []
    n3 = 3 if tier == 'quick' else 8
    plan = []
    # (mesh kind, [(op, field)])
    for _ in range(n3):
        plan.append(('tet', [('l2grad', 'lin'), ('l2hess', 'quad'), ('signed_hess', 'quad'), ('kx_grad', 'quad'),
                             ('kx_hess', 'tanh'), ('cloud1', 'rnd'), ('roundoff', None), ('extrap', None)]))
        plan.append(('mixed', [('l2grad', 'tanh'), ('l2hess', 'lin'), ('signed_hess', 'tanh'), ('l2grad', 'rnd'),
                               ('roundoff', None)]))
        plan.append(('tri', [('l2grad', 'lin'), ('l2hess', 'quad'), ('signed_hess', 'quad'), ('kx_grad', 'lin'),
                             ('kx_hess', 'quad'), ('kx_grad', 'tanh'), ('cloud1', 'rnd'), ('roundoff', None),
                             ('extrap', None)]))
        plan.append(('triqua', [('l2grad', 'quad'), ('l2hess', 'tanh'), ('signed_hess', 'lin'), ('roundoff', None)]))
    hows = ['slab', 'random', 'single', 'emptyrank', 'slab', 'single']
    ci = 0
    for kind, todo in plan:
        twod, pts, cells, bnd = make_mesh(rng, kind, tier)
        interior = interior_of(twod, len(pts), bnd)
        nn = len(pts)
        rng.shuffle(todo)
        for op, which in todo:
            if op == 'roundoff':
                tag, fld = 'sym', sym_field(rng, pts)
            elif op == 'extrap':
                tag, fld = thick_mask(rng, twod, pts), [rng.uniform(-1, 1) for _ in range(6 * nn)]
            else:
                tag, fld = make_field(rng, twod, pts, which)
            ref = distribute(rng, np, twod, nn, cells, bnd, [0] * nn, False)
            ops.append(op_line(op, np, twod, pts, tag, fld, [0] * nn, ref))
            how = hows[ci % len(hows)]
            ci += 1
            part = make_part(rng, np, twod, pts, interior, how)
            ranks = distribute(rng, np, twod, nn, cells, bnd, part, np == 1 or rng.random() < 0.7)
            ops.append(op_line(op, np, twod, pts, tag, fld, part, ranks))
    # malformed: wrong rank count, global out of range, repeated global, cell node out of range, 3-D cell in a 2-D grid
    z3 = H([0, 0, 0, 1, 0, 0, 0, 1, 0])
    s3 = H([1, 2, 3])
    tail = ' | 0 0 0' * (np - 1)
    ops.append('l2grad %d 1 3 rnd %s %s 0 0 0 | 3 0 1 2 1 tri 0 1 2 0%s' % (np + 1, z3, s3, tail))
    ops.append('l2grad %d 1 3 rnd %s %s 0 0 0 | 3 0 1 3 1 tri 0 1 2 0%s' % (np, z3, s3, tail))
    ops.append('l2grad %d 1 3 rnd %s %s 0 0 0 | 3 0 1 1 1 tri 0 1 2 0%s' % (np, z3, s3, tail))
    ops.append('l2hess %d 1 3 rnd %s %s 0 0 0 | 3 0 1 2 1 tri 0 1 3 0%s' % (np, z3, s3, tail))
    ops.append('kx_grad %d 1 3 rnd %s %s 0 0 0 | 3 0 1 2 1 tet 0 1 2 0 0%s' % (np, z3, s3, tail))
    ops.append('l2grad %d 1 3 rnd %s %s 0 0 0 | 3 0 1 2 1 tri 0 1 2 0%s' % (np, z3, s3, tail))
    return ops


# ---------------------------------------------------------------------------------------------- oracle
def parse_line(o):
    w = o.split()
    op, np, twod, nn, tag = w[0], int(w[1]), int(w[2]), int(w[3]), w[4]
    ns = 6 * nn if op in ('roundoff', 'extrap') else nn
    k = 5
    xyz = fl(w[k:k + 3 * nn])
    k += 3 * nn
    fld_words = w[k:k + ns]
    fld = fl(fld_words)
    k += ns
    part = [int(x) for x in w[k:k + nn]]
    k += nn
    groups = ' '.join(w[k:]).split('|')[1:]
    ranks = []
    for g in groups:
        t = g.split()
        nl = int(t[0])
        l2g = [int(x) for x in t[1:1 + nl]]
        j = 1 + nl
        nc = int(t[j])
        j += 1
        cells = []
        for _ in range(nc):
            sz = SIZES[t[j]]
            cells.append((t[j], [int(x) for x in t[j + 1:j + 1 + sz]]))
            j += 1 + sz
        ne = int(t[j])
        j += 1
        edgs = [(int(t[j + 2 * e]), int(t[j + 2 * e + 1])) for e in range(ne)]
        ranks.append((l2g, cells, edgs))
    pts = [xyz[3 * n:3 * n + 3] for n in range(nn)]
    key = (op, twod, nn, tag, ' '.join(w[5:5 + 3 * nn + ns]))
    return dict(op=op, np=np, twod=twod, nn=nn, tag=tag, pts=pts, fld=fld, fld_words=fld_words, part=part, ranks=ranks,
                key=key)


def global_mesh(d):
    cells, edgs = set(), set()
    for l2g, cs, es in d['ranks']:
        for k, ns in cs:
            cells.add((k, tuple(l2g[n] for n in ns)))
        for a, b in es:
            edgs.add((l2g[a], l2g[b]))
    return sorted(cells), sorted(edgs)


def tag_vals(tag):
    return [unhx(x) for x in tag.split(',')[1:]]


def owner_values(d, rows, per):
    """global vertex -> the owner's values (as words); also checks the ghost copies"""
    own, bad = {}, []
    for r, (l2g, _, _) in enumerate(d['ranks']):
        for i, g in enumerate(l2g):
            if d['part'][g] == r:
                own[g] = rows[r][per * i:per * i + per]
    for r, (l2g, _, _) in enumerate(d['ranks']):
        for i, g in enumerate(l2g):
            if d['part'][g] != r and g in own and rows[r][per * i:per * i + per] != own[g]:
                bad.append('ghost copy of vertex %d on rank %d differs from its owner (rank %d): %s vs %s'
                           % (g, r, d['part'][g], rows[r][per * i:per * i + per], own[g]))
    return own, bad


def spd_above(m, c):
    """m - c I positive semi-definite up to rounding (exact rational leading minors of m - c(1-1e-6) I)"""
    c = Fr(c) * Fr(999999, 1000000)
    a = [[Fr(m[0]) - c, Fr(m[1]), Fr(m[2])], [Fr(m[1]), Fr(m[3]) - c, Fr(m[4])], [Fr(m[2]), Fr(m[4]), Fr(m[5]) - c]]
    d1 = a[0][0]
    d2 = a[0][0] * a[1][1] - a[0][1] * a[1][0]
    d3 = (a[0][0] * (a[1][1] * a[2][2] - a[1][2] * a[2][1]) - a[0][1] * (a[1][0] * a[2][2] - a[1][2] * a[2][0])
          + a[0][2] * (a[1][0] * a[2][1] - a[1][1] * a[2][0]))
    return d1 > 0 and d2 > 0 and d3 > 0


def oracle(ops, impl):
    bad = []
    refs = {}
    for i, (o, r) in enumerate(zip(ops, impl)):
        if r.startswith('bad-op'):
            continue
        try:
            d = parse_line(o)
        except (ValueError, IndexError, KeyError):
            bad.append((i, 'op accepted although malformed: %s' % r[:80]))
            continue
        op, nn, twod, pts = d['op'], d['nn'], d['twod'], d['pts']
        rw = r.split('|')
        st = rw[0].strip()
        rows = [x.split() for x in rw[1:]]
        if len(rows) != d['np']:
            bad.append((i, '%s: %d rank groups in the output, expected %d (%s)' % (op, len(rows), d['np'], st)))
            continue
        gcells, gedgs = global_mesh(d)
        vcells = [(k, ns) for k, ns in gcells if not (k in ('tri', 'qua') and not twod)]
        bnodes = set()
        for k, ns in gcells:
            if not twod and k in ('tri', 'qua'):
                bnodes.update(ns)
        for e in gedgs:
            bnodes.update(e)
        if op == 'cloud1':
            if st != 'ok':
                bad.append((i, 'cloud1 status %s' % st))
                continue
            kc = [ns for k, ns in gcells if k == ('tri' if twod else 'tet')]
            ring = {}
            for ns in kc:
                for n in ns:
                    ring.setdefault(n, set()).update(ns)
            for rk, (l2g, _, _) in enumerate(d['ranks']):
                t = rows[rk]
                j = 0
                for g in l2g:
                    n = int(t[j])
                    items = [t[j + 1 + 5 * q:j + 6 + 5 * q] for q in range(n)]
                    j += 1 + 5 * n
                    got = [(int(it[0]), it[1:]) for it in items]
                    exp = [(m, [hx(c) for c in pts[m]] + [d['fld_words'][m]]) for m in sorted(ring.get(g, ()))]
                    if got != exp:
                        bad.append((i, 'one-layer cloud of vertex %d stored on rank %d (%s) is %s, the vertices sharing a '
                                       'cell with it in the global mesh are %s' %
                                    (g, rk, 'owned' if d['part'][g] == rk else 'ghost', [x[0] for x in got],
                                     [x[0] for x in exp])))
                        break
            continue
        per = PER[op]
        if st not in ('ok', 'div_zero'):
            bad.append((i, '%s status %s' % (op, st)))
            continue
        if any(len(rows[rk]) != per * len(d['ranks'][rk][0]) for rk in range(d['np'])):
            bad.append((i, '%s: wrong number of values' % op))
            continue
        own, gb = owner_values(d, rows, per)
        for m in gb[:3]:
            bad.append((i, '%s: %s' % (op, m)))
        vals = {g: fl(v) for g, v in own.items()}
        if any(not all(math.isfinite(x) for x in v) for v in vals.values()):
            bad.append((i, '%s: non-finite value' % op))
            continue
        is_ref = all(p == 0 for p in d['part'])
        if is_ref:
            refs[d['key']] = (own, vals)
        hmin_of = min_edges(pts, gcells)
        hmin = min(hmin_of.values()) if hmin_of else 1.0
        if op == 'extrap':
            inp = [d['fld'][6 * g:6 * g + 6] for g in range(nn)]
            mask = d['tag'][1:]
            donors = [g for g in range(nn) if mask[g] == '0']
            for g, v in sorted(vals.items()):
                if mask[g] == '0':
                    if [hx(x) for x in v] != [hx(x) for x in inp[g]]:
                        bad.append((i, 'extrap: vertex %d is not to be replaced but changed: %r -> %r' % (g, inp[g], v)))
                        break
                elif v != inp[g] and donors:
                    for c in range(6):
                        lo = min(inp[q][c] for q in donors)
                        hi = max(inp[q][c] for q in donors)
                        if not (lo - 1e-12 <= v[c] <= hi + 1e-12):
                            bad.append((i, 'extrap: vertex %d component %d = %r is not an average of values that were not '
                                           'to be replaced (range %r..%r)' % (g, c, v[c], lo, hi)))
                            break
            continue
        if op == 'roundoff':
            inp = [d['fld'][6 * g:6 * g + 6] for g in range(nn)]
            for g, v in sorted(vals.items()):
                if g not in hmin_of:
                    continue
                floor = 4e-12 / (hmin_of[g] ** 2)
                ea, eb = eigs(inp[g]), eigs(v)
                want = sorted(max(x, floor) for x in ea)
                tol = 1e-10 * max(abs(ea[0]), abs(ea[-1]), floor) + 1e-300
                if max(abs(x - y) for x, y in zip(want, eb)) > tol:
                    bad.append((i, 'roundoff: vertex %d has spectrum %r, expected %r = the input spectrum raised to the '
                                   'floor %.6e of the GLOBAL shortest edge %.6e' % (g, eb, want, floor, hmin_of[g])))
                    break
            if d['key'] in refs and not is_ref:
                rown = refs[d['key']][0]
                for g in sorted(own):
                    if g in rown and own[g] != rown[g]:
                        bad.append((i, 'roundoff: vertex %d differs between this partition and the one-rank reference: %s vs %s'
                                    % (g, own[g], rown[g])))
                        break
            continue
        smax = max(d['fld']) - min(d['fld'])
        gscale = (smax / hmin if hmin > 0 else 1.0) + 1e-300
        hscale = gscale / hmin if hmin > 0 else gscale
        scale = gscale if per == 3 else hscale
        interior = [g for g in range(nn) if g not in bnodes]
        # (b) partition independence, stated directly: owner values vs the one-rank run of the same real code
        if d['key'] in refs and not is_ref:
            rvals = refs[d['key']][1]
            where = interior if op == 'signed_hess' else sorted(vals)
            worst = (0.0, None)
            for g in where:
                if g in vals and g in rvals:
                    dv = max(abs(a - b) for a, b in zip(vals[g], rvals[g]))
                    if dv > worst[0]:
                        worst = (dv, g)
            if worst[0] > 1e-10 * scale:
                g = worst[1]
                bad.append((i, '%s depends on the partition: vertex %d (%s) %r on this partition vs %r on one rank '
                               '(|diff| %.3e, tolerance %.3e)' % (op, g, 'interior' if g in interior else 'boundary',
                                                                  vals[g], rvals[g], worst[0], 1e-10 * scale)))
        # exactness
        kind = d['tag'].split(',')[0]
        if kind not in ('lin', 'quad'):
            continue
        c = tag_vals(d['tag'])
        a0, g0 = c[0], c[1:4]
        hm = c[4:10] if kind == 'quad' else [0.0] * 6

        def grad_at(p):
            x, y, z = p
            return [g0[0] + hm[0] * x + hm[1] * y + hm[2] * z, g0[1] + hm[1] * x + hm[3] * y + hm[4] * z,
                    g0[2] + hm[2] * x + hm[4] * y + hm[5] * z]
        touched = set()
        for k, ns in vcells:
            touched.update(ns)
        if op == 'l2grad' and kind == 'lin' and st == 'ok':
            for g in sorted(vals):
                if g in touched and max(abs(a - b) for a, b in zip(vals[g], g0)) > 1e-9 * gscale:
                    bad.append((i, 'L2 gradient of a linear field at vertex %d: %r vs %r' % (g, vals[g], g0)))
                    break
        if op in ('l2hess', 'signed_hess') and kind == 'lin':
            for g in (interior if op == 'signed_hess' else sorted(vals)):
                if g in vals and g in touched and max(abs(a) for a in vals[g]) > 1e-8 * hscale:
                    bad.append((i, 'L2 Hessian of a linear field at vertex %d: %r (tol %.3e)' % (g, vals[g], 1e-8 * hscale)))
                    break
        if op in ('kx_grad', 'kx_hess'):
            nz = 0
            for g in sorted(vals):
                if all(x == 0.0 for x in vals[g]):
                    continue  # no acceptable stencil within 8 layers: the C leaves zeros
                nz += 1
                ex = grad_at(pts[g]) if per == 3 else hm
                tol = (1e-7 * gscale) if per == 3 else (1e-6 * hscale)
                if max(abs(a - b) for a, b in zip(vals[g], ex)) > tol:
                    bad.append((i, 'k-exact %s of a %s field at vertex %d: %r vs %r (tol %.3e)' %
                                ('gradient' if per == 3 else 'Hessian', kind, g, vals[g], ex, tol)))
                    break
            if nz == 0 and len(interior) > 0 and (kind == 'quad' or per == 3):
                if any(max(abs(x) for x in (grad_at(pts[g]) if per == 3 else hm)) > 0 for g in interior):
                    bad.append((i, 'k-exact: every vertex has a zero result'))
    return bad


def _nontriv(op, out):
    return not out.startswith('bad-op') and not out.startswith('hang')


RECONPAR = Stream('reconpar', 'h_reconpar', 'reconpar', gen, oracle=oracle, np=[1, 2, 3, 4], whitebox=['ref_recon'],
                  nontrivial=_nontriv, session='\x00none', timeout=600)

# the round-off floor stream of C10 (same harness / driver, roundoff ops only)


def gen_roundoff(rng, tier, np):
    ops = []
    hows = ['slab', 'single', 'random', 'emptyrank']
    for ci in range(4 if tier == 'quick' else 16):
        kind = ['tet', 'tri', 'mixed', 'triqua'][ci % 4]
        twod, pts, cells, bnd = make_mesh(rng, kind, tier)
        nn = len(pts)
        fld = sym_field(rng, pts)
        ref = distribute(rng, np, twod, nn, cells, bnd, [0] * nn, False)
        ops.append(op_line('roundoff', np, twod, pts, 'sym', fld, [0] * nn, ref))
        part = make_part(rng, np, twod, pts, interior_of(twod, nn, bnd), hows[ci % 4])
        ops.append(op_line('roundoff', np, twod, pts, 'sym', fld, part,
                           distribute(rng, np, twod, nn, cells, bnd, part, True)))
    return ops


ROUNDOFF = Stream('reconpar_roundoff', 'h_reconpar', 'reconpar', gen_roundoff, oracle=oracle, np=[1, 2, 3],
                  whitebox=['ref_recon'], nontrivial=_nontriv, session='\x00none', timeout=600)

for _s in (RECONPAR, ROUNDOFF):
    _s.ops_file = True  # see run_impl in common.py: mpiexec's stdin forwarding is unreliable for large inputs
STREAMS = [RECONPAR, ROUNDOFF]
