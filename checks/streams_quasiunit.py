"""End-to-end oracle stream `cli_quasiunit` (property C03, quasi-unit mesh).

Statement checked on the files the real `ref adapt` wrote (serial, ASan/UBSan build of /repo's working tree):

  a polyhedral domain with planar patches (box of tets / square of triangles) and a smooth, resolvable SPD metric
  (uniform, linear-in-h with h1/h0 <= 3, constant anisotropic <= 10:1 axis aligned or rotated about z) is adapted
  to refine's DEFAULT termination (no `-s`: at most 30 passes, early exit when two consecutive passes recommend
  termination after pass 6).  Then, measured in the metric refine carries to the output vertices
  (`--export-metric-as`):
    (a) almost all edges have metric length in [0.5, 2.0]  (miss fraction <= MISS_MAX + MISS_SLACK/nedges),
        and no edge at all is outside LEN_HARD[dim];
    (b) the worst cell's mean-ratio quality in the metric is >= QMIN[dim];
    (c) nverts / complexity(output mesh, exported metric) lies in NPC[dim].
  `ref adapt` is then run AGAIN on the result, with the analytic metric re-evaluated at the result's vertices
  (`-s passes2`, default 5), and the second result has to stay inside the same bands.
  The analytic metric evaluated at the output vertices is used as a cross-check of (a) (same band): the exported
  metric is only the interpolant of the input field, an implementation that exported a doctored metric would
  pass (a) with the exported field and fail it with the analytic one.

Independent definitions (none of this is refine's code or refine's formula):
  * edge length in the metric:  L(e) = integral_0^1 | H(t)^-1 e | dt  with  H(t) = (1-t) H0 + t H1,
    H_i = M_i^(-1/2) (the size tensor, from a cyclic-Jacobi eigen-decomposition written here), i.e. the metric
    along the edge is M(t) = H(t)^-2 -- *linear interpolation of the inverse square root* -- and the integral is
    taken with 5-point Gauss-Legendre quadrature.  (refine: geometric interpolation of the two end-point lengths,
    l0 (r-1)/(r ln r).  For an isotropic field this definition reduces to l0 l1 ln(l0/l1)/(l0-l1); the two agree
    to a few per cent for the gradations generated here, exactly for constant metrics.)
  * cell quality: mean ratio with ONE metric per cell = arithmetic mean of the vertex metrics M_c = sum M_v / k:
      tet  q = 12 (3 vol sqrt(det M_c))^(2/3) / sum_6 e^T M_c e        (1 for the unit regular tet)
      tri  q = 4 sqrt(3) area sqrt(det2 M_c) / sum_3 e^T M_c e
  * complexity: oracles.complexity3d / complexity2d (vertex quadrature of sqrt(det M)) on the OUTPUT mesh with
    the exported metric; 2-D uses the 2x2 determinant (pyio/meshgen embed a 1 in m33).

Calibration on the UNCHANGED tree with the sanitized build: see CALIBRATION below for the table of observed values
and the rule that turned it into the constants.  Cost: the quick generator (5 scenarios, 10 adaptations) takes
20..28 s wall at seeds 1,2,3 on this box (17..23 s CPU in `ref`, < 1 s in the oracle).
"""
import math
import os
import re

from . import cli, common, meshgen, oracles, pyio
from .common import Stream

# --------------------------------------------------------------------------------------------------------------
# CALIBRATION: 75 scenarios of gen_quasiunit on the UNCHANGED tree (quick seeds 1..11 + thorough seed 101),
# sanitized serial `ref`, measured with the EXPORTED metric (the analytic metric at the output vertices gives the
# same figures for the constant fields and figures within 0.1 for linh, where the exported field is the
# interpolant of the coarse input mesh; the worst values below are the same with either).  out1 = adapted to default
# termination, out2 = adapted again (-s 5).  "miss" = edges outside [0.5, 2]; info = fraction in [0.636, 1.556].
#
#  dim kind     metric   n  nverts     miss/edges (worst)   info>=  len range        qmin>=        nverts/complexity
#                                      out1       out2              out1 / out2      out1  out2    out1          out2
#  2   refine   uniform  8  692-1204   0          0         1.000   0.707-1.489      0.527 0.614   1.182-1.843   1.196-1.843
#  2   refine   linh    10  365-1158   0          0         1.000   0.707-1.517      0.468 0.487   1.275-1.402   1.278-1.409
#  2   refine   aniso    4  614-1184   0          0         1.000   0.707-1.555      0.555 0.517   1.309-1.490   1.309-1.490
#  2   refine   rot      8  371-1207   2 (0.06%)  2 (0.06%) 0.999   0.531-2.075      0.254 0.250   1.252-1.441   1.288-1.441
#  2   coarsen  all     15  136-316    0          0         0.999   0.585-1.467      0.528 0.523   1.222-1.642   1.222-1.642
#  3   refine   uniform  1  603        0          0         0.981   0.678-1.597      0.480 0.467   2.419         2.419
#  3   refine   linh     4  509-869    0          0         0.985   0.523-1.614      0.462 0.483   2.401-2.548   2.432-2.604
#  3   refine   aniso    4  524-975    0          0         0.989   0.621-1.590      0.382 0.334   2.493-2.935   2.475-2.918
#  3   refine   rot      6  465-944    10 (0.23%) 10 (0.24%) 0.993  0.380-1.607      0.339 0.418   2.562-3.320   2.545-3.339
#  3   coarsen  uniform  2  156-183    0          0         0.980   0.526-1.414      0.468 0.506   3.303-3.498   3.303-3.454
#  3   coarsen  linh     1  160        7 (0.86%)  7 (0.86%) 0.984   0.358-1.414      0.484 0.480   3.467         3.468
#  3   coarsen  aniso    8  106-184    3 (0.45%)  3 (0.46%) 0.981   0.292-1.651      0.460 0.461   3.009-4.023   3.009-3.965
#  3   coarsen  rot      4  123-191    10 (1.64%) 10 (1.69%) 0.975  0.393-1.631      0.467 0.359   3.181-4.219   3.181-4.219
#
#  worst over everything:  2-D miss 0.06% (2 edges), len [0.531, 2.075], qmin 0.250, nverts/complexity [1.182, 1.843]
#                          3-D miss 1.69% (10 edges), len [0.292, 1.651], qmin 0.334, nverts/complexity [2.401, 4.219]
#  "adapt again" stayed inside the band of the first adaptation in every scenario (same constants for both).
#  default termination: 7..10 passes in 2-D; 3-D 7..20 passes, and 4 of 30 3-D scenarios used all 30 passes
#  without the early exit (the result is in the bands all the same).
#
# rule: miss fraction <= 2 x worst observed (+2 edges absolute slack: the 3-D coarsening meshes have ~600 edges);
#       2-D uses 0.25% (4 x observed, 2 x would be below one edge for the small meshes);
#       hard length range = worst observed / 1.5 (short side: / 2) ; quality floor = half the worst observed;
#       nverts/complexity in [lo / 1.5, hi x 1.5], per dimension (small 3-D meshes are boundary dominated, hence
#       the 3-D ratio well above the asymptotic ~1.5; 2-D asymptote ~1.15).
# teeth (scratch copies of the tree, quick seeds 1,2,3): split_ratio x3 -> flagged in every refining scenario
# (78..92% of the edges long, ratio 0.22..0.56); collapse_ratio x0.2 -> flagged in every coarsening scenario and
# the 3-D refining ones (7..41% short, ratio 4.3..15.9); dropping the post_max_ratio clause of ref_smooth -> NOT
# visible here (all figures inside the unchanged tree's ranges; only the pass count grows).
# --------------------------------------------------------------------------------------------------------------
BAND_LO, BAND_HI = 0.5, 2.0
INFO_LO, INFO_HI = 0.9 / math.sqrt(2.0), 1.1 * math.sqrt(2.0)
MISS_MAX = {2: 0.0025, 3: 0.035}     # allowed fraction of edges outside [0.5, 2]
MISS_SLACK = 2.0                     # + this many edges (tiny meshes)
LEN_HARD = {2: (0.26, 3.1), 3: (0.145, 2.5)}   # no edge at all outside
QMIN = {2: 0.125, 3: 0.165}
MIN_VERTS = 200                     # the property's quantifier: complexities giving 200..20000 vertices
NPC = {2: (0.78, 2.77), 3: (1.6, 6.3)}   # nverts / complexity


# --------------------------------------------------------------------------------------------------------------
# scenario
# --------------------------------------------------------------------------------------------------------------
def _passes_used(tail):
    m = re.findall(r'pass (\d+) of (\d+)', tail or '')
    return m[-1] if m else None


def sc_quasiunit(ctx, d, case):
    dim, v, cells, mesh = cli.make_mesh(d, case)
    spec = d.get('metric', 'uniform:0.3')
    met = cli.write_metric(case, dim, v, spec)
    out1 = os.path.join(case, 'out1.meshb')
    args = ['adapt', mesh, '--metric', met, '-x', out1,
            '--export-metric-as', os.path.join(case, 'out1-metric.solb')]
    if 'passes' in d:
        args += ['-s', d['passes']]
    to = int(d.get('timeout', '900'))
    rc, tail = cli.run_ref(ctx, 0, args, case, timeout=to)
    with open(os.path.join(case, 'adapt1.log'), 'w') as f:
        f.write(tail)
    rc2 = -1
    if rc == 0:
        m1 = pyio.read_meshb(out1)
        met2 = cli.write_metric(case, dim, m1['verts'], spec, name='in2-metric.solb')
        args = ['adapt', out1, '--metric', met2, '-x', os.path.join(case, 'out2.meshb'),
                '--export-metric-as', os.path.join(case, 'out2-metric.solb'), '-s', d.get('passes2', '5')]
        rc2, tail2 = cli.run_ref(ctx, 0, args, case, timeout=to)
        with open(os.path.join(case, 'adapt2.log'), 'w') as f:
            f.write(tail2)
    return 'rc=%d rc2=%d dir=%s' % (rc, rc2, case)


cli.SCENARIOS['quasiunit'] = sc_quasiunit


# --------------------------------------------------------------------------------------------------------------
# independent measurement
# --------------------------------------------------------------------------------------------------------------
def _jacobi3(m):
    """cyclic Jacobi on the symmetric 3x3 (m11,m12,m13,m22,m23,m33) -> (eigenvalues[3], eigenvectors as columns V[r][c])"""
    a = [[m[0], m[1], m[2]], [m[1], m[3], m[4]], [m[2], m[4], m[5]]]
    v = [[1.0, 0.0, 0.0], [0.0, 1.0, 0.0], [0.0, 0.0, 1.0]]
    for _ in range(60):
        off = abs(a[0][1]) + abs(a[0][2]) + abs(a[1][2])
        if off <= 1e-18 * (abs(a[0][0]) + abs(a[1][1]) + abs(a[2][2])):
            break
        for p, q in ((0, 1), (0, 2), (1, 2)):
            if a[p][q] == 0.0:
                continue
            theta = (a[q][q] - a[p][p]) / (2.0 * a[p][q])
            t = (1.0 if theta >= 0 else -1.0) / (abs(theta) + math.sqrt(theta * theta + 1.0))
            c = 1.0 / math.sqrt(t * t + 1.0)
            s = t * c
            for k in range(3):
                akp, akq = a[k][p], a[k][q]
                a[k][p], a[k][q] = c * akp - s * akq, s * akp + c * akq
            for k in range(3):
                apk, aqk = a[p][k], a[q][k]
                a[p][k], a[q][k] = c * apk - s * aqk, s * apk + c * aqk
            for k in range(3):
                vkp, vkq = v[k][p], v[k][q]
                v[k][p], v[k][q] = c * vkp - s * vkq, s * vkp + c * vkq
    return [a[0][0], a[1][1], a[2][2]], v


def size_tensor(m):
    """H = M^(-1/2) as (h11,h12,h13,h22,h23,h33); None when M is not SPD"""
    ev, v = _jacobi3(m)
    if not all(x > 0 and math.isfinite(x) for x in ev):
        return None
    w = [1.0 / math.sqrt(x) for x in ev]

    def el(i, j):
        return sum(w[k] * v[i][k] * v[j][k] for k in range(3))
    return (el(0, 0), el(0, 1), el(0, 2), el(1, 1), el(1, 2), el(2, 2))


_GL5_X = (0.0, 0.5384693101056831, -0.5384693101056831, 0.9061798459386640, -0.9061798459386640)
_GL5_W = (0.5688888888888889, 0.4786286704993665, 0.4786286704993665, 0.2369268850561891, 0.2369268850561891)
_GL5 = [(0.5 * (1.0 + x), 0.5 * w) for x, w in zip(_GL5_X, _GL5_W)]


def _solve_norm(h, e):
    """| H^-1 e | for symmetric H (6 entries), by the adjugate"""
    h11, h12, h13, h22, h23, h33 = h
    c11 = h22 * h33 - h23 * h23
    c12 = h13 * h23 - h12 * h33
    c13 = h12 * h23 - h13 * h22
    c22 = h11 * h33 - h13 * h13
    c23 = h12 * h13 - h11 * h23
    c33 = h11 * h22 - h12 * h12
    det = h11 * c11 + h12 * c12 + h13 * c13
    x = (c11 * e[0] + c12 * e[1] + c13 * e[2]) / det
    y = (c12 * e[0] + c22 * e[1] + c23 * e[2]) / det
    z = (c13 * e[0] + c23 * e[1] + c33 * e[2]) / det
    return math.sqrt(x * x + y * y + z * z)


def edge_length(p0, p1, h0, h1):
    """integral_0^1 |((1-t)H0 + t H1)^-1 (p1-p0)| dt, 5-point Gauss-Legendre"""
    e = (p1[0] - p0[0], p1[1] - p0[1], p1[2] - p0[2])
    if h0 == h1:
        return _solve_norm(h0, e)
    tot = 0.0
    for t, w in _GL5:
        s = 1.0 - t
        h = (s * h0[0] + t * h1[0], s * h0[1] + t * h1[1], s * h0[2] + t * h1[2],
             s * h0[3] + t * h1[3], s * h0[4] + t * h1[4], s * h0[5] + t * h1[5])
        tot += w * _solve_norm(h, e)
    return tot


def _quad(m, e):
    return (m[0] * e[0] * e[0] + m[3] * e[1] * e[1] + m[5] * e[2] * e[2] +
            2.0 * (m[1] * e[0] * e[1] + m[2] * e[0] * e[2] + m[4] * e[1] * e[2]))


_TET_EDGES = ((0, 1), (0, 2), (0, 3), (1, 2), (1, 3), (2, 3))
_TRI_EDGES = ((0, 1), (1, 2), (2, 0))


def pad3(p):
    return tuple(p[:3]) + (0.0,) * (3 - len(p[:3]))


def measure(mesh, metric, dim):
    """mesh: pyio.read_meshb dict; metric: list of 6-tuples per vertex (2-D: m13=m23=0, m33=1).
    -> dict(nv, ne, nc, lengths(sorted), in_band, in_info, miss, lmin, lmax, qmin, qmean, complexity, npc)"""
    v = [pad3(p) for p in mesh['verts']]
    nv = len(v)
    if len(metric) != nv:
        raise ValueError('metric has %d entries for %d vertices' % (len(metric), nv))
    name, k, ce = ('tet', 4, _TET_EDGES) if dim == 3 else ('tri', 3, _TRI_EDGES)
    cells = mesh['cells'].get(name, [])
    hs = [size_tensor(m) for m in metric]
    bad = [i for i, h in enumerate(hs) if h is None]
    if bad:
        raise ValueError('exported metric not SPD at vertex %d: %s' % (bad[0], metric[bad[0]]))
    edges = set()
    qmin, qsum = 1e300, 0.0
    for c in cells:
        n = c[:k]
        for a, b in ce:
            x, y = n[a], n[b]
            edges.add((x, y) if x < y else (y, x))
        mc = [sum(metric[x][j] for x in n) / k for j in range(6)]
        s2 = 0.0
        for a, b in ce:
            pa, pb = v[n[a]], v[n[b]]
            s2 += _quad(mc, (pb[0] - pa[0], pb[1] - pa[1], pb[2] - pa[2]))
        if dim == 3:
            vol = oracles.fvol(v[n[0]], v[n[1]], v[n[2]], v[n[3]])
            det = oracles.det6(mc)
            vm = vol * math.sqrt(det) if det > 0 else 0.0
            q = 12.0 * (3.0 * vm) ** (2.0 / 3.0) / s2 if vm > 0 and s2 > 0 else (0.0 if vol >= 0 else -1.0)
        else:
            ar = oracles.area2d(v[n[0]], v[n[1]], v[n[2]])
            det = mc[0] * mc[3] - mc[1] * mc[1]
            am = ar * math.sqrt(det) if det > 0 else 0.0
            q = 4.0 * math.sqrt(3.0) * am / s2 if am > 0 and s2 > 0 else (0.0 if ar >= 0 else -1.0)
        qmin = min(qmin, q)
        qsum += q
    ls = sorted(edge_length(v[a], v[b], hs[a], hs[b]) for a, b in edges)
    ne = len(ls)
    inb = sum(1 for x in ls if BAND_LO <= x <= BAND_HI)
    ini = sum(1 for x in ls if INFO_LO <= x <= INFO_HI)
    if dim == 3:
        cx = oracles.complexity3d(mesh, metric)
    else:
        m2 = [(m[0], m[1], 0.0, m[3], 0.0, 1.0) for m in metric]
        cx = oracles.complexity2d({'verts': v, 'cells': mesh['cells']}, m2)
    return {'nv': nv, 'ne': ne, 'nc': len(cells), 'in_band': inb / max(ne, 1), 'in_info': ini / max(ne, 1),
            'miss': ne - inb, 'short': sum(1 for x in ls if x < BAND_LO), 'long': sum(1 for x in ls if x > BAND_HI),
            'lmin': ls[0] if ls else float('nan'), 'lmax': ls[-1] if ls else float('nan'),
            'qmin': qmin, 'qmean': qsum / max(len(cells), 1), 'complexity': cx,
            'npc': nv / cx if cx > 0 else float('inf')}


def analytic_metric(spec, dim, verts):
    f = cli.metric_fn(spec, dim)
    out = []
    for p in verts:
        m = f(pad3(p))
        out.append(m if dim == 3 else (m[0], m[1], 0.0, m[3], 0.0, 1.0))
    return out


def measure_case(d, o, which):
    """-> (stats with the exported metric, stats with the analytic metric at the output vertices)"""
    dim = int(d.get('dim', '3'))
    mesh = pyio.read_meshb(os.path.join(o['dir'], 'out%d.meshb' % which))
    sol = pyio.read_solb(os.path.join(o['dir'], 'out%d-metric.solb' % which))
    exported = [meshgen.solb_metric_unrow(r, dim) for r in sol['values']]
    se = measure(mesh, exported, dim)
    sa = measure(mesh, analytic_metric(d.get('metric', 'uniform:0.3'), dim, mesh['verts']), dim)
    return se, sa


def input_complexity(d, o):
    dim = int(d.get('dim', '3'))
    mesh = pyio.read_meshb(os.path.join(o['dir'], 'in.meshb'))
    met = analytic_metric(d.get('metric', 'uniform:0.3'), dim, mesh['verts'])
    if dim == 3:
        return oracles.complexity3d(mesh, met), len(mesh['verts'])
    return oracles.complexity2d(mesh, met), len(mesh['verts'])


def judge(dim, tag, s, which_metric='exported'):
    """-> list of messages for one measured mesh"""
    out = []
    allowed = MISS_MAX[dim] * s['ne'] + MISS_SLACK
    if s['miss'] > allowed:
        out.append('C03 %s: %d of %d edges (%.2f%%) have %s-metric length outside [%.2f, %.2f] (short %d, long %d, '
                   'range [%.3f, %.3f]); bound %.1f%% + %g edges' %
                   (tag, s['miss'], s['ne'], 100.0 * s['miss'] / max(s['ne'], 1), which_metric, BAND_LO, BAND_HI,
                    s['short'], s['long'], s['lmin'], s['lmax'], 100.0 * MISS_MAX[dim], MISS_SLACK))
    lo, hi = LEN_HARD[dim]
    if s['ne'] and not s['lmin'] >= lo:
        out.append('C03 %s: shortest edge has %s-metric length %.4f, bound >= %.3f' %
                   (tag, which_metric, s['lmin'], lo))
    if s['ne'] and not s['lmax'] <= hi:
        out.append('C03 %s: longest edge has %s-metric length %.4f, bound <= %.3f' %
                   (tag, which_metric, s['lmax'], hi))
    if which_metric != 'exported':
        return out
    if not s['qmin'] >= QMIN[dim]:
        out.append('C03 %s: worst cell mean-ratio quality in the metric is %.4f, floor %.3f' %
                   (tag, s['qmin'], QMIN[dim]))
    lo, hi = NPC[dim]
    if not lo <= s['npc'] <= hi:
        out.append('C03 %s: %d vertices for metric complexity %.2f: ratio %.3f outside [%.3f, %.3f]' %
                   (tag, s['nv'], s['complexity'], s['npc'], lo, hi))
    return out


def oracle_quasiunit(ops, impl, stats=None):
    """stats (optional list) receives (op_index, which, exported-metric stats, analytic-metric stats)"""
    bad = []
    for i, (op, line) in enumerate(zip(ops, impl)):
        d = cli.kv(op)
        o = cli.parse_out(line)
        if o.get('rc') != '0' or o.get('rc2') != '0':
            bad.append((i, 'C03 adapt exited with status %s (first adaptation) / %s (adapt again) on a valid mesh and '
                           'a smooth SPD metric' % (o.get('rc'), o.get('rc2'))))
            continue
        dim = int(d.get('dim', '3'))
        for which, tag in ((1, 'adapted mesh'), (2, 'mesh adapted again')):
            try:
                se, sa = measure_case(d, o, which)
            except Exception as ex:
                bad.append((i, 'C03 %s: output not measurable by the independent reader: %r' % (tag, ex)))
                continue
            if stats is not None:
                stats.append((i, which, se, sa))
            if se['nv'] < MIN_VERTS:
                # the property quantifies over target complexities "giving 200..20000 vertices": a result below that is
                # outside its domain (a handful of edges decides a percentage there); measured, reported, not judged
                continue
            for msg in judge(dim, tag, se) + judge(dim, tag, sa, 'analytic'):
                bad.append((i, msg))
    return bad


# --------------------------------------------------------------------------------------------------------------
# generator
# --------------------------------------------------------------------------------------------------------------
def _metric(rng, dim, lengths, cx):
    """metric spec of target complexity cx on the box/square `lengths`: uniform | linh (h_max/h_min over the domain
    in [1.5, 3]: bounded gradation) | aniso / rot (constant, anisotropy <= 10:1)"""
    vol = 1.0
    for x in lengths[:dim]:
        vol *= x
    kind = rng.choice(['uniform', 'linh', 'linh', 'aniso', 'rot'])
    if kind == 'uniform':
        return 'uniform:%.4f' % (vol / cx) ** (1.0 / dim)
    if kind == 'linh':
        axis = rng.randint(0, dim - 1)
        r = rng.uniform(1.5, 3.0)
        # h(x) = h0 + (hL - h0) x / L ; complexity = integral of h^-dim
        if dim == 3:
            h0 = (vol * (1.0 - r ** -2) / (2.0 * (r - 1.0) * cx)) ** (1.0 / 3.0)
        else:
            h0 = math.sqrt(vol / (r * cx))
        h1 = h0 + (r * h0 - h0) / lengths[axis]     # cli.metric_fn's linh is per unit length
        if rng.random() < 0.5:                       # fine end at the far side
            h0, h1 = h0 + (h1 - h0) * lengths[axis], h0 + (h1 - h0) * (lengths[axis] - 1.0)
        return 'linh:%.4f,%.4f,%d' % (h0, h1, axis)
    # resolvable: the largest size stays below half the shortest side (at least two edges across the domain)
    hcap = 0.5 * min(lengths[:dim])
    for _ in range(50):
        ar = [1.0, rng.uniform(2.0, 10.0), rng.uniform(1.0, 10.0)][:dim]
        prod = 1.0
        for a in ar:
            prod *= a
        h = (vol / (cx * prod)) ** (1.0 / dim)
        hs = [h * a for a in ar]
        if max(hs) <= hcap:
            break
    else:
        return 'uniform:%.4f' % (vol / cx) ** (1.0 / dim)
    if kind == 'aniso':
        rng.shuffle(hs)
        return 'aniso:%.4f,%.4f,%s' % (hs[0], hs[1], ('%.4f' % hs[2]) if dim == 3 else '1')
    return 'rot:%.4f,%.4f,%s,%.3f' % (hs[0], hs[1], ('%.4f' % hs[2]) if dim == 3 else '1', rng.uniform(0.0, 3.1))


def gen_quasiunit(rng, tier, np=None):
    """quick: 2 x 3-D (one refining, one coarsening) + 3 x 2-D (two refining, one coarsening); thorough: 4x.
    Sized for the sanitized serial `ref`: about 20 ms per output vertex for the two adaptations together."""
    mult = 1 if tier == 'quick' else 4
    ops = []
    for k in range(2 * mult):
        coarsen = k % 2 == 1
        ln = '1,1,1' if coarsen else rng.choice(['1,1,1', '1,1,1', '2,1,1'])
        lengths = [float(x) for x in ln.split(',')]
        if coarsen:
            n = [rng.randint(8, 10) for _ in range(3)]
            cx = rng.uniform(70.0, 120.0)      # about 230..480 output vertices (3-D nverts/complexity is 3.2..4.2 here)
        else:
            n = [rng.randint(2, 4) for _ in range(3)]
            cx = rng.uniform(150.0, 400.0)
        ops.append('quasiunit dim=3 n=%d,%d,%d jitter=%.2f patches=sides mseed=%d metric=%s%s' % (
            n[0], n[1], n[2], rng.choice([0.0, 0.2]), rng.randint(1, 10 ** 6), _metric(rng, 3, lengths, cx),
            '' if ln == '1,1,1' else ' len=' + ln))
    for k in range(3 * mult):
        coarsen = k % 3 == 1
        if coarsen:
            n = [rng.randint(24, 32) for _ in range(2)]
            cx = rng.uniform(180.0, 400.0)     # about 220..650 output vertices
        else:
            n = [rng.randint(3, 8) for _ in range(2)]
            cx = rng.uniform(250.0, 900.0)
        ops.append('quasiunit dim=2 n=%d,%d jitter=%.2f patches=sides mseed=%d metric=%s' % (
            n[0], n[1], rng.choice([0.0, 0.2]), rng.randint(1, 10 ** 6), _metric(rng, 2, [1.0, 1.0], cx)))
    return ops


QUASIUNIT = Stream('cli_quasiunit', cli.cli_harness, None, gen_quasiunit, oracle=oracle_quasiunit, kind='oracle',
                   nontrivial=lambda op, out: out.startswith('rc=0 rc2=0'), timeout=1500)


# --------------------------------------------------------------------------------------------------------------
# the corner of the property's quantifier the calibrated generator above does not reach: constant anisotropy of
# 30:1 .. 100:1 in 2-D, aligned with the box and rotated off its axes.  FIXED scenarios (no random choice: the same
# op lines at every seed), judged with the bands written in the property text itself, not with the tighter
# calibrated ones:  >= 99% of the edges in [0.5, 2], max <= 4, min >= 0.1, worst mean-ratio quality >= 0.05,
# 0.5 <= nverts/complexity <= 6.
#
# KNOWN FINDING (known_findings.json, site adapt:2d-rotated-anisotropy-100:1-quality-floor): on the UNCHANGED tree the
# 100:1 field rotated 45 degrees against a structured 5x5 start mesh ends with a worst cell quality of 0.021 (floor
# 0.05); edge lengths, the in-band fraction and the vertex count stay inside the property's bands, "adapt again"
# reproduces the same figure, the axis-aligned 100:1 field (quality 0.66) and the 30:1 rotated field (0.10) are
# fine.  First reported by a seeding sub-agent while calibrating its demonstration (seeded/C03_split_quality_floor_tied_to_min
# meta.json: 0.0099 with its own quality measure; 20/70 degrees 0.05, 0.048).  The outcome of the heuristic search at the
# extreme corner of the family, not a slip in one function: no small repair exists, so it is recorded, not fixed.  The tag
# is attached ONLY when the scenario is a 2-D `rot` field of anisotropy >= 50:1 at least 0.15 rad off the axes AND the
# quality floor is the only band missed AND the quality is still >= 0.005; anything else in these scenarios is a VIOLATION.
# --------------------------------------------------------------------------------------------------------------
PROP_MISS, PROP_LEN, PROP_Q, PROP_NPC = 0.01, (0.1, 4.0), 0.05, (0.5, 6.0)
KNOWN_SITE = 'adapt:2d-rotated-anisotropy-100:1-quality-floor'
ANISO_OPS_QUICK = [
    'quasiunit dim=2 n=5,5 jitter=0 patches=sides mseed=1 metric=rot:0.4,0.004,1,0.785',
    'quasiunit dim=2 n=5,5 jitter=0 patches=sides mseed=1 metric=aniso:0.4,0.004,1',
    'quasiunit dim=2 n=5,5 jitter=0 patches=sides mseed=1 metric=rot:0.3,0.01,1,0.524',
]
ANISO_OPS_THOROUGH = ANISO_OPS_QUICK + [
    'quasiunit dim=2 n=5,5 jitter=0 patches=sides mseed=1 metric=rot:0.3,0.003,1,1.2',
    'quasiunit dim=2 n=5,5 jitter=0 patches=sides mseed=1 metric=aniso:0.004,0.4,1',
    'quasiunit dim=2 n=7,4 jitter=0.2 patches=sides mseed=7 metric=rot:0.35,0.007,1,2.2',
]


def gen_aniso100(rng, tier, np=None):
    return list(ANISO_OPS_QUICK if tier == 'quick' else ANISO_OPS_THOROUGH)


def judge_prop(tag, s, which_metric='exported'):
    """the property text's own bands -> (messages other than the quality floor, quality message or None)"""
    out, qmsg = [], None
    if s['miss'] > PROP_MISS * s['ne']:
        out.append('C03 %s: %d of %d edges (%.2f%%) have %s-metric length outside [0.5, 2]; the property allows 1%%' %
                   (tag, s['miss'], s['ne'], 100.0 * s['miss'] / max(s['ne'], 1), which_metric))
    if s['ne'] and not s['lmin'] >= PROP_LEN[0]:
        out.append('C03 %s: shortest edge has %s-metric length %.4f, the property says >= 0.1' % (tag, which_metric, s['lmin']))
    if s['ne'] and not s['lmax'] <= PROP_LEN[1]:
        out.append('C03 %s: longest edge has %s-metric length %.4f, the property says <= 4' % (tag, which_metric, s['lmax']))
    if which_metric == 'exported':
        if not PROP_NPC[0] <= s['npc'] <= PROP_NPC[1]:
            out.append('C03 %s: %d vertices for metric complexity %.2f: ratio %.3f outside [0.5, 6]' %
                       (tag, s['nv'], s['complexity'], s['npc']))
        if not s['qmin'] >= PROP_Q:
            qmsg = 'C03 %s: worst cell mean-ratio quality in the metric is %.4f, the property says >= 0.05' % (tag, s['qmin'])
    return out, qmsg


def _known_corner(d):
    kind, _, args = d.get('metric', '').partition(':')
    if kind != 'rot' or d.get('dim') != '2':
        return False
    a = [float(x) for x in args.split(',')]
    ratio = max(a[0], a[1]) / min(a[0], a[1])
    off = abs((a[3] % (math.pi / 2.0)))
    off = min(off, math.pi / 2.0 - off)
    return ratio >= 50.0 and off >= 0.15


def oracle_aniso100(ops, impl):
    bad = []
    for i, (op, line) in enumerate(zip(ops, impl)):
        d = cli.kv(op)
        o = cli.parse_out(line)
        if o.get('rc') != '0' or o.get('rc2') != '0':
            bad.append((i, 'C03 adapt exited with status %s (first adaptation) / %s (adapt again) on a valid mesh and '
                           'a constant SPD metric' % (o.get('rc'), o.get('rc2'))))
            continue
        other, qual = [], []
        for which, tag in ((1, 'adapted mesh'), (2, 'mesh adapted again')):
            try:
                se, sa = measure_case(d, o, which)
            except Exception as ex:
                other.append('C03 %s: output not measurable by the independent reader: %r' % (tag, ex))
                continue
            a, q = judge_prop(tag, se)
            b, _ = judge_prop(tag, sa, 'analytic')
            other += a + b
            if q:
                qual.append((q, se['qmin']))
        for msg in other:
            bad.append((i, msg))
        for msg, qmin in qual:
            if not other and _known_corner(d) and qmin >= 0.005:
                bad.append((i, msg, KNOWN_SITE))
            else:
                bad.append((i, msg))
    return bad


ANISO100 = Stream('cli_quasiunit_aniso100', cli.cli_harness, None, gen_aniso100, oracle=oracle_aniso100, kind='oracle',
                  nontrivial=lambda op, out: out.startswith('rc=0 rc2=0'), timeout=1500)
STREAMS = [QUASIUNIT, ANISO100]
